#!/usr/bin/env python3
"""Seeded-defect bookkeeping.

  tools/seed.py verify <ID>        confirm a candidate from /tmp/seed-out/<ID> in a scratch worktree of
                                   /repo HEAD (patch applies, 587 tests pass, demo passes without / fails
                                   with the patch) and copy it to /verif/seeded/<ID>/
  tools/seed.py run <ID> <PID> [quick|thorough]
                                   apply seeded/<ID>/patch.diff to /repo, run ./check PID, undo the patch,
                                   record the outcome in seeded/<ID>/meta.json
"""
import json
import os
import shutil
import subprocess
import sys
import time

ROOT = os.path.dirname(os.path.dirname(os.path.abspath(__file__)))
PY = "/venv/bin/python"


def sh(cmd, **kw):
    return subprocess.run(cmd, shell=True, stdout=subprocess.PIPE, stderr=subprocess.STDOUT, **kw)


def verify(sid):
    src = "/tmp/seed-out/%s" % sid
    if not os.path.isdir(src):
        src = os.path.join(ROOT, "seeded", sid)
    wt = "/tmp/seedwt-%s" % sid
    tmp = "/tmp/seedtmp-%s" % sid
    sh("git -C /repo worktree remove --force %s" % wt)
    r = sh("git -C /repo worktree add -q --detach %s HEAD" % wt)
    assert r.returncode == 0, r.stdout
    os.makedirs(tmp, exist_ok=True)
    env = dict(os.environ, PYTHONPATH=wt + "/src", TMPDIR=tmp, PYTHONWARNINGS="ignore")
    out = {"id": sid}
    try:
        d0 = sh("%s %s/demo.py" % (PY, src), env=env, cwd=tmp)
        out["demo_without_patch_exit"] = d0.returncode
        a = sh("git -C %s apply --3way %s/patch.diff" % (wt, src))
        out["patch_applies_to_head"] = a.returncode == 0
        if a.returncode != 0:
            out["apply_output"] = a.stdout.decode()[-400:]
            return out
        t = sh("cd %s && %s -m pytest -q -p no:cacheprovider --timeout=900 tests 2>&1 | tail -1" % (wt, PY), env=env)
        out["tests"] = t.stdout.decode().strip()[-80:]
        d1 = sh("%s %s/demo.py" % (PY, src), env=env, cwd=tmp)
        out["demo_with_patch_exit"] = d1.returncode
        out["demo_with_patch_tail"] = d1.stdout.decode().strip()[-300:]
        ok = out["demo_without_patch_exit"] == 0 and d1.returncode != 0 and "587 passed" in out["tests"]
        out["confirmed"] = ok
        if ok and src.startswith("/tmp/"):
            dst = os.path.join(ROOT, "seeded", sid)
            os.makedirs(dst, exist_ok=True)
            # patch rebased onto HEAD (3-way may have shifted context)
            p = sh("git -C %s diff HEAD" % wt)
            with open(os.path.join(dst, "patch.diff"), "wb") as f:
                f.write(p.stdout)
            shutil.copy(os.path.join(src, "demo.py"), dst)
            meta = json.load(open(os.path.join(src, "meta.json")))
            meta["verified"] = {"head": sh("git -C /repo rev-parse --short HEAD").stdout.decode().strip(),
                                "tests": out["tests"], "demo_without": 0, "demo_with": d1.returncode,
                                "cmd": "tools/seed.py verify %s" % sid}
            meta.setdefault("detected_by", {})
            json.dump(meta, open(os.path.join(dst, "meta.json"), "w"), indent=1)
    finally:
        sh("git -C /repo worktree remove --force %s" % wt)
        shutil.rmtree(tmp, ignore_errors=True)
        shutil.rmtree(wt, ignore_errors=True)
    return out


def run(sid, pid, tier="quick"):
    d = os.path.join(ROOT, "seeded", sid)
    t0 = time.time()
    if os.environ.get("SEED_SCRATCH"):
        # the change is applied to a scratch worktree of /repo's HEAD and the check pointed at it, so that
        # /repo itself stays untouched (several seeded changes can then be tried while other work goes on)
        wt = "/tmp/verif-seedrun-%s-%d" % (sid, os.getpid())
        sh("git -C /repo worktree remove --force %s" % wt)
        a = sh("git -C /repo worktree add -q --detach %s HEAD" % wt)
        assert a.returncode == 0, a.stdout
        try:
            a = sh("git -C %s apply %s/patch.diff" % (wt, d))
            assert a.returncode == 0, a.stdout
            r = sh("cd %s && ./check %s --tier %s" % (ROOT, pid, tier),
                   env=dict(os.environ, VERIF_SEED=os.environ.get("VERIF_SEED", "0"), VERIF_REPO=wt))
        finally:
            sh("git -C /repo worktree remove --force %s" % wt)
            shutil.rmtree(wt, ignore_errors=True)
    else:
        st = sh("git -C /repo status --porcelain --untracked-files=no").stdout.decode().strip()
        assert not st, "repo not clean: " + st
        a = sh("git -C /repo apply %s/patch.diff" % d)
        assert a.returncode == 0, a.stdout
        try:
            r = sh("cd %s && ./check %s --tier %s" % (ROOT, pid, tier), env=dict(os.environ, VERIF_SEED=os.environ.get("VERIF_SEED", "0")))
        finally:
            sh("git -C /repo checkout -- .")
    txt = r.stdout.decode()
    viol = [l for l in txt.splitlines() if l.startswith("VIOLATION")]
    res = {"exit": r.returncode, "violations": len(viol), "wall_s": round(time.time() - t0, 1), "tier": tier}
    mp = os.path.join(d, "meta.json")
    meta = json.load(open(mp))
    meta.setdefault("detected_by", {})["%s/%s" % (pid, tier)] = res
    json.dump(meta, open(mp, "w"), indent=1)
    tail = [l for l in txt.splitlines() if " x {" in l or l.startswith("RESULT") or l.startswith("MACHINERY")][:6]
    return res, tail


if __name__ == "__main__":
    if sys.argv[1] == "verify":
        for sid in sys.argv[2:]:
            print(json.dumps(verify(sid)))
    elif sys.argv[1] == "run":
        res, tail = run(*sys.argv[2:5])
        print(json.dumps(res))
        for l in tail:
            print("  " + l[:260])
