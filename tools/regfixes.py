#!/usr/bin/env python3
"""Rebuilds the 'fixed' entries of known_findings.json from the fix: commits in /repo."""
import json, subprocess
PROP = [('InverseMatcher returned','C01'),('RequireMatcher.skip_to_quality','C05'),('AndNotMatcher kept','C01'),
 ('And([]).estimate_size','C15'),('DisjunctionMaxMatcher.score','C09'),('DisjunctionMaxMatcher.replace','C05'),
 ('DisjunctionMaxMatcher.skip_to_quality() left','C11'),('ConstantScoreQuery scored','C09'),
 ('AndMaybeMatcher.skip_to_quality','C05'),('FilterMatcher.skip_to_quality','C05'),('ArrayUnionMatcher.max_quality','C12'),
 ('AndMaybeMatcher.skip_to()','C09'),('BitSet/SortedIntSet.discard','C20'),('BitSet([])','C20'),('BitSet.invert_update','C20'),
 ('MultiIdSet','C20'),('RoaringIdSet','C20'),('ReverseIdSet.last','C20'),('AndNotMatcher.skip_to()','C11'),
 ('W3LeafMatcher did not implement copy','C11'),('MultiMatcher.copy','C11'),('ArrayUnionMatcher did not implement copy','C11'),
 ('ArrayUnionMatcher.skip_to()','C11'),('MultiMatcher.reset','C11'),('UnionMatcher.reset','C11'),
 ('DisjunctionMaxMatcher quality methods','C12'),('span matchers','C11'),('ArrayUnionMatcher did not implement reset','C11'),
 ('MultiMatcher claimed block-quality','C12'),('DisjunctionMaxMatcher.skip_to_quality() asked','C12'),('DFree weighting','C09'),
 ('additive matchers skipped','C12'),('AndNotMatcher._find_next','C12'),('Searcher.refresh() resurrected','C03'),
 ('Searcher.refresh() kept showing','C03'),('never reported up_to_date','C03'),('kept the old generation','C03'),('RamStorage index blocked','C04'),('And([Every(), q])','C15'),('And([NullQuery, q])','C15'),
 ('Not(NullQuery)','C15'),('FuzzyTerm.simplify','C15'),('simplify() of AndNot','C15'),('flattening a boosted compound','C15'),
 ('DisjunctionMax.normalize()','C15'),('split_ranges() produced','C13'),('exclusive bound at the edge','C13'),
 ('Decimal values with fewer digits','C13'),('required prefix is longer','C19'),('was not idempotent for three','C15'),('sortable float NUMERIC','C08'),('doc_field_length() returned None','C06'),
 ('sortable DATETIME column','C08'),('CompressedBytesColumn had no default','C08'),('MultiReader.column_reader()','C08'),
 ('in-memory codec recorded empty','C18'),('add_document() that raised part-way','C08'),('plain-text codec could not write','C10'),
 ('inlinelimit > 1) raised AttributeError','C10'),('inlinelimit > 1) broke term vectors','C10'),
 ('results page over an empty result','C14'),('empty filter (set or Results)','C14'),('collapsing never folded','C14'),
 ('single clause lost its boost','C09'),('partly filled top-N list','C14'),('len() of a limited search undercounted','C01'),('ArrayUnionMatcher dropped matching','C01'),('ReverseWeighting reported lower bounds','C12'),('crashed under FunctionWeighting','C09'),('PL2 and DFree reported quality bounds','C12'),
 ('range over a DATETIME field with text','C16'),('GtLtPlugin raised IndexError','C16'),('doubled prefix operator','C16'),
 ('inside a parenthesized group crashed','C16'),('starting with two wildcard characters','C16'),('multi-term and Every queries on unknown','C16'),
 ('range over a field without an analyzer','C16'),('open-ended date range with a fully specified','C16'),('quoted value on a field without an analyzer','C16'),
 ('impossible date raised TimeError','C16'),('NOT in front of another operator','C16'),('binary operator followed by another operator','C16'),
 ('NgramTokenizer produced query-time grams','C17'),('NgramFilter character offsets','C17'),('HashWriter(hashtype=2) raised','C20'),('varint_to_int() raised','C20'),
 ('fixed-width number encodings decoded','C20'),('GInts could not decode','C20'),('ordered hash writers rejected an empty','C20'),
 ('span queries over an Or of three or more','C01'),('SpanNot crashed once','C01'),('unordered SpanNear2 missed long spans','C01'),('SpanCondition matcher could not be copied','C11'),
 ('NUMERIC field with decimal_places raised decimal','C16'),('fully specified (microsecond) date crashed','C16'),('field that is not indexed (STORED) crashed','C16'),("recorded maximum weight could be lower",'C12'),('schema changes of a cancelled writer leaked','C07'),('in-lined postings of a field without values','C11'),('copy of a ListMatcher lost','C12'),('span queries could not be combined','C15'),('on a compound query dropped the subclass','C15'),('CoordMatcher could not be copied','C11'),('exhausted MultiMatcher raised IndexError','C11'),('child of a CoordMatcher changed the scores','C11'),('nested queries returned the NullMatcher class','C01'),('NestedParent stopped at a matching document','C01'),('NestedChildren returned the next parent','C01'),('sorting by a facet crashed with TypeError','C14'),('StoredFieldFacet(allow_overlap=True) raised','C14'),('grouped unmatched documents under None instead','C14'),('len() of collapsed results counted','C14'),('collapsed_counts did not count','C14'),('was stale after filter() and upgrade_and_extend','C14'),('with an empty other Results object removed nothing','C14'),('memory codec listed terms unsorted','C18'),('skipped a segment\'s later fields when it had no terms','C18'),('plain text codec could not list all terms','C10'),('of an absent term raised TermNotFound with codecs','C10'),('memory codec did not implement items()','C10'),('plain text codec\'s terms_from() stopped','C10'),('returned every hit when groupedby or reverse','C14'),('collapse_order=...) lost documents','C14'),('multiprocessing writer silently lost documents','C18'),('refresh() kept the old schema on reused','C03'),('created index handle shared the caller','C03'),('MultiFilter raised RuntimeError','C17'),('date parser plugin let ValueError','C16'),('total field length depended on the segment layout','C06'),('max_field_length() raised TypeError for a segment','C06'),('passed over a document after a composite sub-matcher','C12'),('Sequence queries that differ only in slop or ordered','C15'),('NestedParent.normalize() dropped','C15'),('DATETIME.parse_range() ignored the exclusive flags','C13'),('Phrase.replace() changed the words of the original','C15'),('Wildcard.normalize() treated a character class','C15'),('nested queries could not be rewritten','C15'),('pruned against a threshold on the scale of final() scores','C05'),('constant-score multi-term queries','C09'),('dropped the hits that score 0','C05'),('skip_to_quality() divided by a zero boost','C12'),('with a zero boost scored 1.0 instead of 0','C09'),("NestedParent matcher's skip_to() raised ReadTooFar",'C11'),('nested parent/child matchers could not be copied','C11'),('skip_to_quality() could loop forever','C12'),('CoordMatcher handed thresholds on the scale','C12'),('raised IndexError when syncing exhausted a multi-segment','C12'),('AsyncWriter.delete_by_query() looked the documents up','C04'),('VarBytesColumn wrote stale length/offset arrays','C08'),('iterating a CompressedBytesColumn raised','C08'),('CompressedBlockColumn raised KeyError','C08'),('list, pickle and compressed-block columns had no default','C08'),('NestedChildren.estimate_size() was the number of matching parents','C15'),('two id sets compared equal when one was a prefix','C20'),('StemFilter(cachesize=1) could not be used','C17'),('BiWordFilter raised UnboundLocalError','C17'),('BufferedWriter lost a document added while a commit','C18'),('spelling words of a field disappeared when the first document','C19'),('did not re-check the spans after skip_to_quality','C05'),('NestedChildMatcher.skip_to() could stop before the target','C11'),('of a nested (parent/child) query and another clause raised NoQualityAvailable','C01'),('writers of two RAM indexes shared one temporary directory','C06'),('collapsing under search(reverse=True) kept the worst','C14'),('grouping by a field without a column put documents without a value under one of the values','C14'),('grouping by a reversed facet of a numeric, date or boolean column','C14'),('add_reader() with a multi-segment reader failed','C06'),("a range whose start contains the letters 'to'",'C16'),('a parenthesised group nothing is left of','C16'),('opening a reader on a RAM index while a merging commit removed a segment raised NameError','C03'),('a range bound of nothing but white space','C13'),('add_sortable() raised TypeError when a document has no value','C08')]
log = subprocess.check_output(['git','-C','/repo','log','--reverse','--format=%h|%s','173ed2e..HEAD']).decode().strip().split('\n')
p = '/verif/known_findings.json'
d = json.load(open(p))
d['findings'] = [f for f in d['findings'] if f['status'] != 'fixed']
for l in log:
    h, subj = l.split('|', 1)
    if not subj.startswith('fix: '):
        continue
    pid = [v for k, v in PROP if k in subj]
    pid = pid[0] if pid else 'C??'
    extra = EXTRA.get(h) if 'EXTRA' in globals() else None
    d['findings'].append({"property": pid, "id": "fixed-" + h, "status": "fixed", "commit": h,
                          "what": "fixed: property=%s %s %s" % (pid, h, subj[5:])})
json.dump(d, open(p, 'w'), indent=1)
print(len([f for f in d['findings'] if f['status']=='fixed']), 'fixed;', [f['what'][:60] for f in d['findings'] if 'C??' in f['what']])
