INIT Init
NEXT Next
INVARIANT RenderInv
CHECK_DEADLOCK FALSE
