--------------------------- MODULE QueryLangCheck ---------------------------
(* Binding of QueryLang to the real parsers (C16).                             *)
(* TRACE_FILE: array of cases [idx, cfg, qs: array of [e, obs]].               *)
(* Phase "render" (RenderInv): TLC prints the text of every expression; the     *)
(* harness hands exactly that text to the real parser, runs the parsed query    *)
(* on the real index and records                                                *)
(*   ids   : ascending docnums the parsed query selected                        *)
(*   error : parse or search raised                                             *)
(*   outcome: parse = "query" | "QueryParserError" | other exception name,      *)
(*            search = "ok" | "QueryError" | "none" | other exception name       *)
(* Phase "judge" (Inv): the selected documents must be those of                  *)
(* Denote(idx, Meaning(e, cfg, "")).                                             *)
EXTENDS QueryLang, Json, IOUtils
Cases == JsonDeserialize(IOEnv.TRACE_FILE)
VARIABLE c
Init == \E ci \in 1 .. Len(Cases) : \E qi \in 1 .. Len(Cases[ci].qs) : c = <<ci, qi>>
Next == FALSE /\ c' = c

RenderInv == PrintT(<<"RENDER", ToJson([tid |-> c[1], qi |-> c[2], text |-> Render(Cases[c[1]].qs[c[2]].e)])>>)

ObsOK(m, o) ==
  CASE o.kind = "ids" -> o.ids = Ids(m)
    [] o.kind = "outcome" -> /\ o.parse \in {"query", "QueryParserError"}
                             /\ o.search \in {"ok", "QueryError", "none"}
    [] o.kind = "error" -> FALSE

Inv ==
  LET cs == Cases[c[1]]
      qo == cs.qs[c[2]]
      mq == Meaning(qo.e, cs.cfg, "")
      m == Denote(cs.idx, mq)
  IN \A j \in DOMAIN qo.obs :
       \/ ObsOK(m, qo.obs[j])
       \/ PrintT(<<"REJECT", ToJson([tid |-> c[1], qi |-> c[2], oi |-> j,
                                      expected |-> [ids |-> Ids(m), meaning |-> mq]])>>)
=============================================================================
