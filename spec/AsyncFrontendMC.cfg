CONSTANTS Keys = {"a1", "a2"}  Daemon = FALSE
SPECIFICATION FairSpec
INVARIANT Durable
INVARIANT GenCounts
INVARIANT OneHolder
PROPERTY Applied
CHECK_DEADLOCK FALSE
