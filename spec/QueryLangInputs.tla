--------------------------- MODULE QueryLangInputs ---------------------------
(* Input strings for the totality half of C16: every sequence of at most      *)
(* N_EXH tokens of the query language's alphabet, plus N_RAND random sequences  *)
(* of RAND_LEN tokens.  Tokens written <name> stand for text that cannot be a    *)
(* TLA+ string literal; the harness substitutes them (harness/props/c16.py).     *)
(* TLC writes the strings to OUT_FILE; nothing is generated outside this module. *)
EXTENDS Naturals, Sequences, FiniteSets, SequencesExt, TLC, Json, IOUtils, Randomization

Tokens == <<" ", "a", "ab", "b*", "a?", "AND", "OR", "NOT", "ANDNOT", "ANDMAYBE", "REQUIRE", "TO",
            "(", ")", "[", "]", "{", "}", "<dquote>", "'", ":", "^", "~", "*", "?", "title:", "num:",
            "when:", "flag:", "ng:", "price:", "nosuch:", "*:", "2", "-3", "1.5", "-", "+", "<", ">=",
            "<backslash>", "/", ".", "<eacute>", "<emoji>", "<tab>", "2010-01-02", "yes", "now", "&", "|", "!">>

NExh == atoi(IOEnv.N_EXH)
NRand == atoi(IOEnv.N_RAND)
RandLen == atoi(IOEnv.RAND_LEN)

RECURSIVE Concat(_)
Concat(s) == IF s = <<>> THEN "" ELSE Tokens[Head(s)] \o Concat(Tail(s))

Exhaustive == UNION {[1 .. k -> 1 .. Len(Tokens)] : k \in 0 .. NExh}
Random == IF NRand = 0 THEN {} ELSE RandomSubset(NRand, [1 .. RandLen -> 1 .. Len(Tokens)])

ASSUME JsonSerialize(IOEnv.OUT_FILE, [tokens |-> Tokens,
                                      exhaustive |-> SetToSeq({Concat(s) : s \in Exhaustive}),
                                      random |-> SetToSeq({Concat(s) : s \in Random})])
=============================================================================
