--------------------------- MODULE QueryLangInputs ---------------------------
(* Input strings for the totality half of C16: every sequence of at most      *)
(* N_EXH tokens of the query language's alphabet, plus N_RAND random sequences  *)
(* of RAND_LEN tokens.  Tokens written <name> stand for text that cannot be a    *)
(* TLA+ string literal; the harness substitutes them (harness/props/c16.py).     *)
(* TLC writes the strings to OUT_FILE; nothing is generated outside this module. *)
EXTENDS Naturals, Sequences, FiniteSets, SequencesExt, TLC, Json, IOUtils, Randomization

Tokens == <<" ", "a", "ab", "b*", "a?", "AND", "OR", "NOT", "ANDNOT", "ANDMAYBE", "REQUIRE", "TO",
            "(", ")", "[", "]", "{", "}", "<dquote>", "'", ":", "^", "~", "*", "?", "title:", "num:",
            "when:", "flag:", "ng:", "price:", "nosuch:", "*:", "2", "-3", "1.5", "-", "+", "<", ">=",
            "<backslash>", "/", ".", "<eacute>", "<emoji>", "<tab>", "2010-01-02", "yes", "now", "&", "|", "!",
            "^2", "~2", "~", "st:", "dec:", "99991231235959999999", "tag:", "ngw:", "0000", "00000101">>

\* grammar-aware inputs: every sequence of at most N_EDGE tokens placed at the edge of a group, a field
\* group, a range, a phrase, an operator's operand position, or after a typed field prefix
Contexts == << <<"a (", " b)">>, <<"a (b ", ")">>, <<"(", ")">>, <<"a OR (", " b)">>, <<"title:(", " a) b">>,
               <<"a (", ")">>, <<"[", " TO b]">>, <<"[a TO ", "]">>, <<"<dquote>", "<dquote>">>,
               <<"<dquote>a ", "<dquote>~2">>, <<"a AND ", " AND b">>, <<"NOT ", "">>, <<"a ", "">>, <<"", " a">>,
               <<"num:", "">>, <<"when:[", " TO]">>, <<"flag:", " a">>, <<"a ANDNOT ", "">>, <<"title:", "^2">>, <<"when:", "">>,
               \* (after a prefix operator, with only white space behind; the last thing in a group)
               <<"a NOT ", " ">>, <<"(a NOT ", " ) b">>, <<"a ", " ">>, <<"a OR ", " ">> >>

NExh == atoi(IOEnv.N_EXH)
NRand == atoi(IOEnv.N_RAND)
RandLen == atoi(IOEnv.RAND_LEN)
NEdge == atoi(IOEnv.N_EDGE)

RECURSIVE Concat(_)
Concat(s) == IF s = <<>> THEN "" ELSE Tokens[Head(s)] \o Concat(Tail(s))

Exhaustive == UNION {[1 .. k -> 1 .. Len(Tokens)] : k \in 0 .. NExh}
Edge == {Contexts[c][1] \o Concat(s) \o Contexts[c][2] :
           c \in DOMAIN Contexts, s \in UNION {[1 .. k -> 1 .. Len(Tokens)] : k \in 0 .. NEdge}}
Random == IF NRand = 0 THEN {} ELSE RandomSubset(NRand, [1 .. RandLen -> 1 .. Len(Tokens)])

\* deeply nested input: an opening text n times, a word, the closing text n times
RECURSIVE Rep(_, _)
Rep(s, n) == IF n = 0 THEN "" ELSE LET h == Rep(s, n \div 2) IN IF n % 2 = 0 THEN h \o h ELSE h \o h \o s
Nests == << <<"(", ")">>, <<"NOT ", "">>, <<"title:(", ")">>, <<"ab AND (", ")">>, <<"(ab OR ", ")">>, <<"-", "">>,
            <<"+(", ")">>, <<"<dquote>", "<dquote>">>, <<"[", " TO b]">>, <<"ab^2 (", ")^2">>, <<"ab ANDNOT (", ")">>, <<"ab ANDMAYBE (", ")">>, <<"ab REQUIRE title:(", ")">> >>
Deep == {Rep(Nests[i][1], n) \o "ab" \o Rep(Nests[i][2], n) : i \in DOMAIN Nests, n \in {40, 300, 1200}}

ASSUME JsonSerialize(IOEnv.OUT_FILE, [tokens |-> Tokens, deep |-> SetToSeq(Deep),
                                      exhaustive |-> SetToSeq({Concat(s) : s \in Exhaustive} \cup Edge),
                                      random |-> SetToSeq({Concat(s) : s \in Random})])
=============================================================================
