CONSTANTS Threads = {"t1", "t2"}  Keys = {"k1", "k2", "k3"}  Limit = 2  MaxOps = 4  NoOne = "none"
          HoldMutex = FALSE  InitKeys = {"k1"}
SPECIFICATION Spec
INVARIANT SearchBounds
CHECK_DEADLOCK FALSE
