---------------------------- MODULE EditDistance ----------------------------
(* Fuzzy matching (C19).  The documented distance is the restricted           *)
(* Damerau-Levenshtein distance DL (docs/source/parsing.rst: insertions,       *)
(* deletions, substitutions and transpositions; reading.py terms_within).      *)
(*                                                                             *)
(* Nfa is a transcription of automata/lev.py levenshtein_automaton(term,k,p):  *)
(* states <<i, e>> (i characters of the term consumed, e errors), with the     *)
(* constant Transpose selecting whether transposition edges exist (the code    *)
(* as written has none).  TLC checks, for every pair of words over a small     *)
(* alphabet, NfaExact: Accepts(w) <=> Dist(term, w) <= k /\ common prefix.     *)
EXTENDS Naturals, Integers, Sequences, FiniteSets, TLC

CONSTANTS Alphabet, MaxLen, MaxK, Transpose

Words == UNION {[1 .. n -> Alphabet] : n \in 0 .. MaxLen}
Min2(a, b) == IF a < b THEN a ELSE b

RECURSIVE DLrec(_, _, _, _, _)
DLrec(a, b, i, j, tr) ==
  IF i = 0 THEN j
  ELSE IF j = 0 THEN i
  ELSE LET cost == IF a[i] = b[j] THEN 0 ELSE 1
           m == Min2(DLrec(a, b, i - 1, j, tr) + 1,
                     Min2(DLrec(a, b, i, j - 1, tr) + 1, DLrec(a, b, i - 1, j - 1, tr) + cost))
       IN IF tr /\ i > 1 /\ j > 1 /\ a[i] = b[j - 1] /\ a[i - 1] = b[j]
          THEN Min2(m, DLrec(a, b, i - 2, j - 2, tr) + 1)
          ELSE m
DL(a, b) == DLrec(a, b, Len(a), Len(b), TRUE)      \* the documented distance
Lev(a, b) == DLrec(a, b, Len(a), Len(b), FALSE)    \* plain Levenshtein

\* ---- the automaton of lev.py, run as a set of NFA states ----------------------
\* state <<i, e>>; with transposition also <<i, e, "t">> (first swapped char read)
EClose(term, k, p, S) ==    \* epsilon closure: "Insertion" edges (i,e) -> (i+1,e+1) without input, for i >= p
  LET RECURSIVE Cl(_)
      Cl(X) == LET Y == X \cup {<<s[1] + 1, s[2] + 1>> :
                                 s \in {x \in X : Len(x) = 2 /\ x[1] >= p /\ x[1] < Len(term) /\ x[2] < k}}
               IN IF Y = X THEN X ELSE Cl(Y)
  IN Cl(S)

StepNfa(term, k, p, S, c) ==
  LET n == Len(term)
      moves(s) ==
        IF Len(s) = 3 THEN (IF term[s[1] + 1] = c THEN {<<s[1] + 2, s[2] + 1>>} ELSE {})
        ELSE LET i == s[1]
                 e == s[2]
             IN IF i < p THEN (IF e = 0 /\ term[i + 1] = c THEN {<<i + 1, 0>>} ELSE {})
                ELSE IF i < n
                THEN (IF term[i + 1] = c THEN {<<i + 1, e>>} ELSE {})
                     \cup (IF e < k THEN {<<i, e + 1>>, <<i + 1, e + 1>>} ELSE {})
                     \cup (IF Transpose /\ e < k /\ i + 1 < n /\ term[i + 2] = c /\ term[i + 2] # term[i + 1]
                           THEN {<<i, e, "t">>} ELSE {})
                ELSE (IF e < k THEN {<<n, e + 1>>} ELSE {})
  IN EClose(term, k, p, UNION {moves(s) : s \in S})

Start(term, k, p) == EClose(term, k, p, {<<0, 0>>})

RECURSIVE Run(_, _, _, _, _)
Run(term, k, p, S, w) ==
  IF w = <<>> THEN S ELSE Run(term, k, p, StepNfa(term, k, p, S, Head(w)), Tail(w))

Accepts(term, k, p, w) == \E s \in Run(term, k, p, Start(term, k, p), w) : Len(s) = 2 /\ s[1] = Len(term)

CommonPrefix(term, p, w) == Len(w) >= p /\ SubSeq(w, 1, p) = SubSeq(term, 1, p)
Dist(a, b) == IF Transpose THEN DL(a, b) ELSE Lev(a, b)

\* ---- exhaustive check ------------------------------------------------------------
VARIABLES term, k, p
Init == /\ term \in Words /\ k \in 0 .. MaxK /\ p \in 0 .. Len(term)
Next == UNCHANGED <<term, k, p>>
\* the automaton accepts exactly the words within the distance that share the prefix
NfaExact == \A w \in Words : Accepts(term, k, p, w) <=> (Dist(term, w) <= k /\ CommonPrefix(term, p, w))
NfaExactReport == NfaExact \/ PrintT(<<"NFADIFF", Len(term), k, p>>)
\* the automaton as configured against the DOCUMENTED distance (differs without transposition edges)
CodeMeetsDoc == \A w \in Words : Accepts(term, k, p, w) <=> (DL(term, w) <= k /\ CommonPrefix(term, p, w))
CodeMeetsDocReport == CodeMeetsDoc \/ PrintT(<<"NFADIFF", Len(term), k, p>>)
=============================================================================
