-------------------------- MODULE IndexStoreTrace --------------------------
(* Validation of storage-operation traces recorded from real writers and     *)
(* readers (harness/storage.py) against IndexStore.  Each event must be an    *)
(* enabled instance of the IndexStore action it stands for, and every         *)
(* IndexStore invariant must hold in every state of the replayed behaviour.   *)
(* TRACE_FILE: [writers: [...], readers: [...], traces: [[event,...],...]]    *)
EXTENDS IndexStore, Json, IOUtils, SequencesExt

Input == JsonDeserialize(IOEnv.TRACE_FILE)
Traces == Input.traces
TraceWriters == ToSet(Input.writers)
TraceReaders == ToSet(Input.readers)

VARIABLES tid, l
tvars == <<files, toc, content, lock, w, r, nseg, clean, todo, tid, l>>

T == Traces[tid]
Done == Len(T) + 2

Reject(why) ==
  /\ PrintT(<<"REJECT", ToJson([tid |-> tid, l |-> l, why |-> why, latest |-> Latest,
                                lockholder |-> lock,
                                ondisk |-> SetToSeq(DOMAIN files)])>>)
  /\ l' = Done
  /\ UNCHANGED allvars

Advance == l' = l + 1
Try(g, act, why) == IF g THEN act /\ Advance /\ todo' = todo ELSE Reject(why)
Skip == UNCHANGED allvars /\ Advance

\* the event's view of the directory must be the model's view (binds the disk model to the disk)
\* (a file still open for writing is visible in a directory but not yet in a RamStorage)
Listing(e) == /\ ToSet(e.files) \subseteq DOMAIN files
              /\ {f \in DOMAIN files : files[f] = "closed"} \subseteq ToSet(e.files)

TocOf(t) == [segs |-> [i \in DOMAIN t.segs |->
               [id |-> t.segs[i].id, n |-> t.segs[i].n, del |-> ToSet(t.segs[i].del), compound |-> t.segs[i].compound]]]

BrokenInvariant ==
  CASE ~TypeOK -> "TypeOK"
    [] ~Recoverable -> "Recoverable"
    [] ~LockMutex -> "LockMutex"
    [] ~OrphanFree -> "OrphanFree"
    [] ~GenChain -> "GenChain"
    [] ~ReaderOwnGen -> "ReaderOwnGen"
    [] OTHER -> ""

\* the open attempts of reader p that failed since its current call began (the events of p between
\* the call's first directory listing and now are listings, opens and failed opens only)
GiveUpAfter == 3
OpenFailsBefore(p) ==
  Cardinality({j \in 1 .. l - 1 : /\ T[j].proc = p /\ T[j].ev = "openfail"
                                  /\ \A k \in j + 1 .. l - 1 : T[k].proc = p => T[k].ev \in {"list", "open", "openfail"}})

Event(e) ==
  LET p == e.proc
      isW == p \in TraceWriters
  IN CASE p \notin TraceWriters \cup TraceReaders -> Reject("event-of-an-undeclared-actor")
       [] e.ev = "lock" /\ e.res -> Try(isW /\ G_Lock(p), WLock(p), "lock-acquired-while-held")
       [] e.ev = "lock" /\ ~e.res -> Try(isW /\ G_LockFail(p), WLockFail(p), "lock-refused-while-free")
       [] e.ev = "lockblock" -> Reject("lock-attempt-blocks-on-a-held-lock-instead-of-failing-after-the-timeout")
       \* opening a reader may fail when files vanish under it; it reads the directory again
       \* a few times before it gives up, so the failure of the call is tolerated only after
       \* several attempts that each lost a genuine race (one lost race must not fail the call)
       [] e.ev = "apierror" /\ e.call \in {"searcher", "refresh"} /\ ~isW /\ r[p].failed
            /\ OpenFailsBefore(p) >= GiveUpAfter -> Skip
       [] e.ev = "apierror" -> Reject("api-call-raised-" \o e.call)
       [] e.ev = "unlock" -> Try(isW /\ G_Unlock(p), WUnlock(p), "unlock-not-allowed-here")
       \* the temporary directory of an index is shared by its writers (one name): whoever removes it holds the lock
       [] e.ev = "rmtemp" -> IF isW /\ lock = p THEN Skip ELSE Reject("temporary-storage-removed-without-holding-the-lock")
       [] e.ev = "list" ->
            IF ~Listing(e) THEN Reject("directory-listing-differs-from-model")
            ELSE IF isW THEN Skip
            ELSE Try(TRUE, RList(p), "")
       [] e.ev = "open" /\ e.file[1] = "toc" ->
            IF isW /\ w[p].pc = "locked" THEN Try(G_ReadToc(p, e.file[2]), WReadToc(p, e.file[2]), "toc-read-without-lock-or-not-latest")
            ELSE IF isW THEN Try(G_WOpen(p, e.file), WOpen(p, e.file), "writer-opened-missing-or-unfinished-file")
            ELSE Try(G_ROpenToc(p, e.file[2]), ROpenToc(p, e.file[2]), "reader-opened-a-toc-other-than-the-latest-it-listed")
       [] e.ev = "open" ->
            IF isW THEN Try(G_WOpen(p, e.file), WOpen(p, e.file), "writer-opened-missing-or-unfinished-file")
            ELSE Try(G_ROpenSeg(p, e.file), ROpenSeg(p, e.file), "reader-opened-a-file-outside-its-generation-or-unfinished")
       [] e.ev = "openfail" -> Try(G_ROpenFail(p, e.file), ROpenFail(p, e.file), "open-failed-although-file-exists")
       [] e.ev = "create" /\ e.file[1] = "seg" -> Try(isW /\ G_Create(p, e.file), WCreate(p, e.file), "segment-file-created-outside-protocol")
       [] e.ev = "create" /\ e.file[1] = "tmptoc" ->
            Try(isW /\ G_TocTmpCreate(p, e.file), WTocTmpCreate(p, e.file), "temp-toc-created-outside-protocol")
       [] e.ev = "close" -> Try(isW /\ G_Close(p, e.file), WClose(p, e.file), "close-of-a-file-not-open-by-this-writer")
       [] e.ev = "delete" ->
            IF isW /\ w[p].pc = "writing" THEN Try(G_DeletePart(p, e.file), WDeletePart(p, e.file), "delete-before-commit-of-a-file-that-is-not-an-assembled-part")
            ELSE Try(isW /\ G_CleanDelete(p, e.file), WCleanDelete(p, e.file), "deleted-a-file-the-latest-generation-needs-or-outside-cleanup")
       [] e.ev = "rename" ->
            Try(isW /\ e.dst[1] = "toc" /\ G_TocRename(p, e.src, e.dst[2], TocOf(e.toc)),
                WTocRename(p, e.src, e.dst[2], TocOf(e.toc)), "toc-rename-violates-commit-rule")
       [] e.ev = "api" /\ e.op = "update" -> Try(isW /\ w[p].pc = "writing", WUpdate(p, e.key, e.uid), "update-outside-open-writer")
       [] e.ev = "api" /\ e.op = "add" -> Try(isW /\ w[p].pc = "writing", WAdd(p, e.key), "add-outside-open-writer")
       [] e.ev = "api" /\ e.op = "adddup" -> Try(isW /\ w[p].pc = "writing", WAddDup(p, e.key, e.uid), "add-outside-open-writer")
       [] e.ev = "api" /\ e.op = "delete" -> Try(isW /\ w[p].pc = "writing", WDel(p, e.key), "delete-outside-open-writer")
       \* delete_by_term / delete_by_query / delete_document with the value the call returned
       [] e.ev = "api" /\ e.op = "deletemany" ->
            Try(isW /\ w[p].pc = "writing" /\ (e.ret >= 0 => e.ret = DeleteCount(p, ToSet(e.keys))),
                WDelMany(p, ToSet(e.keys)), "delete-returned-wrong-count")
       [] e.ev = "probe" ->
            \* e.n = number of documents the reader delivered (a key delivered twice is a violation too)
            IF ProbeOK(p, {<<e.keys[i][1], e.keys[i][2]>> : i \in DOMAIN e.keys}, e.gen, e.uptodate)
               /\ e.n = Cardinality(ToSet(e.keys)) THEN Skip
            ELSE Reject("reader-does-not-show-exactly-its-generation")
       [] e.ev = "crash" -> IF isW /\ w[p].pc = "idle" THEN Skip     \* died before touching the index
                            ELSE Try(isW /\ w[p].pc # "dead", Crash(p), "crash-of-a-dead-writer")
       [] OTHER -> Reject("unknown-event")

TInit == /\ tid \in 1 .. Len(Traces)
         /\ l = 1
         /\ files = (<<"toc", 0>> :> "closed")
         /\ toc = (0 :> [segs |-> <<>>])
         /\ content = (0 :> {})
         /\ lock = NoOne
         /\ w = [p \in TraceWriters |-> WInit]
         /\ r = [q \in TraceReaders |-> RInit]
         /\ nseg = 0
         /\ clean = TRUE
         /\ todo = <<>>

TNext ==
  /\ l < Done
  /\ UNCHANGED tid
  /\ IF BrokenInvariant # "" THEN Reject("invariant-" \o BrokenInvariant)
     ELSE IF l = Len(T) + 1 THEN PrintT(<<"DONE", tid>>) /\ l' = Done /\ UNCHANGED allvars
     ELSE Event(T[l])
=============================================================================
