SPECIFICATION Spec
CONSTANTS
  Docs = {1, 2, 3, 4, 5}
  MaxScore = 3
  K = 2
  AllowRemove = FALSE
INVARIANT ThresholdSound
INVARIANT ExactTopK
INVARIANT CountExact
CHECK_DEADLOCK FALSE
