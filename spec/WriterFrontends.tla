--------------------------- MODULE WriterFrontends ---------------------------
(* whoosh.writing.BufferedWriter used from several threads (a second thread is  *)
(* always there when `period` is set: the timer thread calls commit()).          *)
(* W: src/whoosh/writing.py  BufferedWriter.{add_document, update_document,       *)
(*    delete_document, reader, commit, close}                                     *)
(*                                                                               *)
(* One action per region of the code that runs without giving up the object's     *)
(* RLock (`mutex`) or reaching a storage operation of the wrapped SegmentWriter    *)
(* (`inner`).  A document is [k |-> key, id |-> n]; n is drawn when the call is    *)
(* made, so that the replay can put it into the document it hands to the real      *)
(* object.                                                                         *)
(*                                                                               *)
(* HoldMutex = TRUE  is the code as it is: commit() keeps the mutex from the       *)
(*                   snapshot of the buffer until the new inner writer exists,     *)
(*                   reader() reads the inner writer and the buffer under it.      *)
(* HoldMutex = FALSE is the code as it was (mutex released after the snapshot):    *)
(*                   kept as a configuration TLC must find the races in - the      *)
(*                   lost deletion, the call on a closed writer, the search that   *)
(*                   misses the documents being committed.                         *)
EXTENDS Naturals, Sequences, FiniteSets, TLC

CONSTANTS Threads, Keys, Limit, MaxOps, NoOne, HoldMutex, InitKeys

VARIABLES
  committed,   \* live documents of the newest generation of the index
  ram,         \* documents in the current in-memory segment (MemoryCodec)
  count,       \* bufferedcount
  inner,       \* the wrapped SegmentWriter: [st, dels, adds]; st: "open" | "committing" | "closed"
  mutex,       \* thread holding BufferedWriter.lock, or NoOne
  th,          \* thread -> [pc, op, k, id, snap, nested, restart, lo, hi, idx]
  model,       \* what the completed calls stand for: the dictionary semantics (C18)
  nextid,      \* ids handed out
  nops,        \* calls made
  errs,        \* exceptions a call raised because of the state another thread left
  closed       \* close() has completed

vars == <<committed, ram, count, inner, mutex, th, model, nextid, nops, errs, closed>>

Doc(k, n) == [k |-> k, id |-> n]
WithKey(S, k) == {d \in S : d.k = k}
TInit == [pc |-> "idle", op |-> "none", k |-> "none", id |-> 0, snap |-> {}, nested |-> FALSE,
          restart |-> TRUE, lo |-> {}, hi |-> {}, idx |-> {}]
NewInner == [st |-> "open", dels |-> {}, adds |-> {}]

Init == /\ committed = {Doc(k, 0) : k \in InitKeys}
        /\ ram = {} /\ count = 0
        /\ inner = NewInner
        /\ mutex = NoOne
        /\ th = [t \in Threads |-> TInit]
        /\ model = {Doc(k, 0) : k \in InitKeys}
        /\ nextid = 1 /\ nops = 0 /\ errs = {} /\ closed = FALSE

CanLock(t) == mutex \in {NoOne, t}
\* what self.writer.reader() shows: the writer's generation minus the deletions it has been given
InnerView == committed \ inner.dels
\* every change of the model is seen by the searches in progress (bounds of what they may return)
Track(newmodel) == [t \in Threads |-> IF th[t].pc = "sea1"
                                       THEN [th[t] EXCEPT !.lo = @ \cap newmodel, !.hi = @ \cup newmodel]
                                       ELSE th[t]]

\* ---- a call is made ---------------------------------------------------------------------
Call(t, op, k) ==
  /\ th[t].pc = "idle" /\ nops < MaxOps /\ ~closed
  /\ op \in {"add", "update", "commit", "search", "close"}
  /\ (op \in {"commit", "search", "close"}) => k = "none"
  /\ (op \in {"add", "update"}) => k \in Keys
  \* key discipline (C07): add_document only for a key no live document carries, and not while another call on
  \* that key is in progress (what update_document does to several documents with one "unique" value is not specified)
  /\ op = "add" => WithKey(model, k) = {} /\ \A u \in Threads \ {t} : th[u].k # k
  /\ op = "update" => \A u \in Threads \ {t} : ~(th[u].op = "add" /\ th[u].k = k)
  /\ op = "close" => \A u \in Threads \ {t} : th[u].pc = "idle"     \* the owner closes when the others are done
  /\ \A u \in Threads : th[u].op # "close"                          \* ... and nobody calls the object after that
  /\ th' = [th EXCEPT ![t] = [TInit EXCEPT !.pc = CASE op = "add" -> "add0" [] op = "update" -> "upd0"
                                                   [] op = "search" -> "sea0" [] OTHER -> "com0",
                                           !.op = op, !.k = k, !.id = IF op \in {"add", "update"} THEN nextid ELSE 0,
                                           !.restart = (op # "close")]]
  /\ nextid' = IF op \in {"add", "update"} THEN nextid + 1 ELSE nextid
  /\ nops' = nops + 1
  /\ UNCHANGED <<committed, ram, count, inner, mutex, model, errs, closed>>

\* ---- add_document: with self.lock: write to the in-memory segment, count, commit at the limit ----
AddBody(t, rm, mdl, inn) ==      \* rm, mdl, inn: buffer, model and inner writer as the caller (update) left them
  LET d == Doc(th[t].k, th[t].id) IN
  /\ ram' = rm \cup {d}
  /\ count' = count + 1
  /\ model' = mdl \cup {d}
  /\ inner' = inn
  /\ IF count + 1 >= Limit
     THEN /\ mutex' = t
          /\ th' = [Track(mdl \cup {d}) EXCEPT ![t].pc = "com0", ![t].nested = TRUE]
     ELSE /\ mutex' = NoOne
          /\ th' = [Track(mdl \cup {d}) EXCEPT ![t] = TInit]

Add(t) == /\ th[t].pc = "add0" /\ CanLock(t)
          /\ AddBody(t, ram, model, inner)
          /\ UNCHANGED <<committed, nextid, nops, errs, closed>>

\* ---- update_document: with self.lock: delete what carries the key (in the inner writer's
\* segments through inner.delete_document, in the buffer directly), then add ----------------
Update(t) ==
  /\ th[t].pc = "upd0" /\ CanLock(t)
  /\ LET k == th[t].k
         tc == WithKey(InnerView, k)
         rm == ram \ WithKey(ram, k)
         mdl == model \ WithKey(model, k)
     IN IF tc # {} /\ inner.st = "closed"
        THEN \* SegmentWriter._check_state: IndexingError("This writer is closed")
             /\ errs' = errs \cup {"update on a closed writer"}
             /\ th' = [th EXCEPT ![t] = TInit] /\ mutex' = NoOne
             /\ UNCHANGED <<committed, ram, count, inner, model, nextid, nops, closed>>
        ELSE \* (a deletion handed to a writer whose TOC is already being written is not in that TOC)
             /\ AddBody(t, rm, mdl, IF inner.st = "open" THEN [inner EXCEPT !.dels = @ \cup tc] ELSE inner)
             /\ UNCHANGED <<committed, nextid, nops, errs, closed>>

\* ---- commit(restart) ----------------------------------------------------------------------
\* with self.lock: take the buffer, start a new one, reset the counter
Com0(t) == /\ th[t].pc = "com0" /\ CanLock(t)
           /\ th' = [th EXCEPT ![t].snap = ram, ![t].pc = "com2"]
           /\ ram' = {} /\ count' = 0
           /\ mutex' = IF HoldMutex \/ th[t].nested THEN t ELSE NoOne
           /\ UNCHANGED <<committed, inner, model, nextid, nops, errs, closed>>

\* self.writer.add_reader(snapshot); self.writer.commit() up to the point where the TOC is written
Com2(t) == /\ th[t].pc = "com2"
           /\ IF inner.st # "open"
              THEN /\ errs' = errs \cup {"commit on a closed writer"}
                   /\ th' = [th EXCEPT ![t] = TInit]
                   /\ mutex' = IF mutex = t THEN NoOne ELSE mutex
                   /\ UNCHANGED <<committed, ram, count, inner, model, nextid, nops, closed>>
              ELSE /\ inner' = [inner EXCEPT !.st = "committing", !.adds = th[t].snap]
                   /\ th' = [th EXCEPT ![t].pc = "com3"]
                   /\ UNCHANGED <<committed, ram, count, mutex, model, nextid, nops, errs, closed>>

\* the TOC rename (the commit point of IndexStore!WTocRename) and the release of the index lock
Com3(t) == /\ th[t].pc = "com3"
           /\ committed' = (committed \ inner.dels) \cup inner.adds
           /\ inner' = [inner EXCEPT !.st = "closed"]
           /\ th' = [th EXCEPT ![t].pc = "com4"]
           /\ UNCHANGED <<ram, count, mutex, model, nextid, nops, errs, closed>>

\* restart: self.writer = self.index.writer(); the mutex is given up (also the outer one of add_document)
Com4(t) == /\ th[t].pc = "com4"
           /\ inner' = IF th[t].restart THEN NewInner ELSE inner
           /\ closed' = ~th[t].restart
           /\ mutex' = IF mutex = t THEN NoOne ELSE mutex
           /\ th' = [th EXCEPT ![t] = TInit]
           /\ UNCHANGED <<committed, ram, count, model, nextid, nops, errs>>

\* ---- reader() / searcher(): the inner writer's segments, then (with self.lock) the buffer ------
Sea0(t) == /\ th[t].pc = "sea0" /\ (HoldMutex => CanLock(t))
           /\ th' = [th EXCEPT ![t].idx = InnerView, ![t].pc = "sea1", ![t].lo = model, ![t].hi = model]
           /\ mutex' = IF HoldMutex THEN t ELSE mutex
           /\ UNCHANGED <<committed, ram, count, inner, model, nextid, nops, errs, closed>>
SearchView(t) == th[t].idx \cup ram
Sea1(t) == /\ th[t].pc = "sea1" /\ CanLock(t)
           /\ th' = [th EXCEPT ![t] = TInit]
           /\ mutex' = IF mutex = t THEN NoOne ELSE mutex
           /\ UNCHANGED <<committed, ram, count, inner, model, nextid, nops, errs, closed>>

Step(t) == Add(t) \/ Update(t) \/ Com0(t) \/ Com2(t) \/ Com3(t) \/ Com4(t) \/ Sea0(t) \/ Sea1(t)
Next == \E t \in Threads : \/ Step(t)
                           \/ \E op \in {"add", "update", "commit", "search", "close"} :
                                \E k \in Keys \cup {"none"} : Call(t, op, k)
Spec == Init /\ [][Next]_vars

\* ---- properties ----------------------------------------------------------------------------
Quiescent == mutex = NoOne /\ \A t \in Threads : th[t].pc = "idle"

\* no call fails because of what another thread was doing
NoRaceError == errs = {}
\* C18: the BufferedWriter's own searcher sees exactly the committed plus the buffered documents
QuiescentView == (Quiescent /\ ~closed) => (inner.st = "open" /\ InnerView \cup ram = model)
\* C18: closing it leaves nothing unsaved;  C07: one live document per updated key
NothingLost == (Quiescent /\ closed) => committed = model
\* a search returns nothing that was never there and misses nothing that was there throughout
SearchBounds == \A t \in Threads : (th[t].pc = "sea1" /\ CanLock(t)) =>
                    (th[t].lo \subseteq SearchView(t) /\ SearchView(t) \subseteq th[t].hi)
\* the inner writer is only ever out of service while some thread is inside commit()
InnerOpenWhenFree == (mutex = NoOne /\ HoldMutex /\ ~closed) => inner.st = "open"
\* the buffer counter counts the buffered documents' additions
CountBounds == count < Limit \/ \E t \in Threads : th[t].pc = "com0" /\ th[t].nested
=============================================================================
