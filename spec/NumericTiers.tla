---------------------------- MODULE NumericTiers ----------------------------
(* Tiered (trie) decomposition of a numeric range.                            *)
(* W: src/whoosh/util/numeric.py split_ranges / tiered_ranges,                 *)
(*    src/whoosh/query/ranges.py NumericRange._compile_query                   *)
(*                                                                             *)
(* A NUMERIC field with shift_step > 0 indexes each value v (as a sortable     *)
(* unsigned integer of `bits` bits) once per tier: the term of tier `shift` is *)
(* v >> shift.  A range query [s, e] is compiled into sub-ranges <<a, b, sh>>, *)
(* each matched against tier sh as  a>>sh <= v>>sh <= b>>sh.                   *)
(* Property (C13): the values matched are exactly s..e.                        *)
(*                                                                             *)
(* Split is a statement-by-statement transcription of split_ranges; TLC checks *)
(* Coverage for every (step, s, e) of the configured bit width.  The same      *)
(* Covers operator judges the ranges the real function returned (trace mode).  *)
EXTENDS Naturals, Integers, Sequences, FiniteSets, Bitwise, TLC

CONSTANTS Bits, Steps

Pow2(n) == 2 ^ n
Shr(x, n) == x \div Pow2(n)
\* Python's  x & m  for m >= 0 and possibly negative x (two's complement)
PyAnd(x, m) == (x % Pow2(Bits + 2)) & m

RECURSIVE Split(_, _, _, _)
Split(step, start, end, shift) ==
  LET diff == Pow2(shift + step)
      mask == (Pow2(step) - 1) * Pow2(shift)
      setbits(x) == x | (Pow2(shift) - 1)
      haslower == (start & mask) # 0
      hasupper == (end & mask) # mask
      notmask == (Pow2(Bits + 1) - 1) - PyAnd(mask, Pow2(Bits + 1) - 1)      \* ~mask & ((1 << intsize + 1) - 1)
      nextstart == PyAnd(IF haslower THEN start + diff ELSE start, notmask)
      nextend == PyAnd(IF hasupper THEN end - diff ELSE end, notmask)
  IN IF shift + step >= Bits \/ nextstart > nextend \/ (hasupper /\ end < diff)
     THEN << <<start, setbits(end), shift>> >>
     ELSE (IF haslower THEN << <<start, setbits(start | mask), shift>> >> ELSE <<>>)
          \o (IF hasupper THEN << <<PyAnd(end, notmask), setbits(end), shift>> >> ELSE <<>>)
          \o Split(step, nextstart, nextend, shift + step)

\* what a list of <<a, b, shift>> sub-ranges matches
Covers(rs, v) == \E i \in DOMAIN rs : /\ Shr(rs[i][1], rs[i][3]) <= Shr(v, rs[i][3])
                                     /\ Shr(v, rs[i][3]) <= Shr(rs[i][2], rs[i][3])
Matched(rs) == {v \in 0 .. Pow2(Bits) - 1 : Covers(rs, v)}
Exact(rs, s, e) == Matched(rs) = s .. e

\* ---- exhaustive check of the transcription ------------------------------------
VARIABLES step, s, e
Init == /\ step \in Steps
        /\ s \in 0 .. Pow2(Bits) - 1
        /\ e \in s .. Pow2(Bits) - 1
Next == UNCHANGED <<step, s, e>>
Coverage == Exact(Split(step, s, e, 0), s, e)
\* reporting variant: prints every (step, s, e) for which the decomposition is wrong
CoverageReport == Coverage \/ PrintT(<<"BADSPLIT", step, s, e>>)
=============================================================================
