---------------------------- MODULE AsyncFrontend ----------------------------
(* whoosh.writing.AsyncWriter beside another holder of the index's write lock.   *)
(* W: src/whoosh/writing.py AsyncWriter.{__init__, _record, commit, run}           *)
(*                                                                               *)
(* The AsyncWriter tries the lock once; if it is taken it records its calls and,   *)
(* on commit(), starts a thread that polls for the lock, replays the calls and     *)
(* commits.  commit() has returned by then: what the caller was told is "saved"    *)
(* is only saved once that thread has finished, so the interpreter must not go     *)
(* away before (it waits for non-daemon threads; Daemon is what the code sets).    *)
EXTENDS Naturals, Sequences, FiniteSets, TLC

CONSTANTS Keys, Daemon

VARIABLES
  lock,        \* "none" | "H" (the other writer) | "A" (the AsyncWriter's real writer)
  committed,   \* keys in the newest generation
  gen,         \* generation number
  hpc,         \* other writer: "idle" | "holding" | "done"
  mode,        \* "none" | "direct" | "deferred"
  events,      \* recorded calls (keys to add), in order
  returned,    \* AsyncWriter.commit() has returned to its caller
  thread,      \* "notstarted" | "waiting" | "replaying" | "done" | "killed"
  main,        \* main thread of the process using the AsyncWriter: "running" | "ended"
  proc         \* that process: "alive" | "exited"
vars == <<lock, committed, gen, hpc, mode, events, returned, thread, main, proc>>

Init == /\ lock = "none" /\ committed = {} /\ gen = 0 /\ hpc = "idle"
        /\ mode = "none" /\ events = <<>> /\ returned = FALSE
        /\ thread = "notstarted" /\ main = "running" /\ proc = "alive"

\* ---- the other writer (another process) ----
HAcquire == hpc = "idle" /\ lock = "none" /\ lock' = "H" /\ hpc' = "holding"
            /\ UNCHANGED <<committed, gen, mode, events, returned, thread, main, proc>>
HCommit == hpc = "holding" /\ lock = "H" /\ lock' = "none" /\ hpc' = "done"
           /\ committed' = committed \cup {"h"} /\ gen' = gen + 1
           /\ UNCHANGED <<mode, events, returned, thread, main, proc>>

\* ---- the AsyncWriter, in the main thread ----
ACreate == /\ mode = "none" /\ main = "running"
           /\ IF lock = "none" THEN mode' = "direct" /\ lock' = "A"
                               ELSE mode' = "deferred" /\ lock' = lock
           /\ UNCHANGED <<committed, gen, hpc, events, returned, thread, main, proc>>
ARecord(k) == /\ mode # "none" /\ ~returned /\ main = "running" /\ Len(events) < Cardinality(Keys)
              /\ k \notin {events[i] : i \in DOMAIN events}
              /\ events' = Append(events, k)
              /\ UNCHANGED <<lock, committed, gen, hpc, mode, returned, thread, main, proc>>
Recorded == {events[i] : i \in DOMAIN events}
ACommit == /\ mode # "none" /\ ~returned /\ main = "running"
           /\ returned' = TRUE
           /\ IF mode = "direct"
              THEN /\ committed' = committed \cup Recorded /\ gen' = gen + 1 /\ lock' = "none"
                   /\ thread' = thread
              ELSE /\ thread' = "waiting" /\ UNCHANGED <<committed, gen, lock>>
           /\ UNCHANGED <<hpc, mode, events, main, proc>>

\* ---- the AsyncWriter's own thread ----
TTry == /\ thread = "waiting" /\ proc = "alive"
        /\ IF lock = "none" THEN lock' = "A" /\ thread' = "replaying"
                            ELSE UNCHANGED <<lock, thread>>          \* LockError: sleep(delay), again
        /\ UNCHANGED <<committed, gen, hpc, mode, events, returned, main, proc>>
TFinish == /\ thread = "replaying" /\ proc = "alive"
           /\ committed' = committed \cup Recorded /\ gen' = gen + 1
           /\ lock' = "none" /\ thread' = "done"
           /\ UNCHANGED <<hpc, mode, events, returned, main, proc>>

\* ---- the end of the program ----
MainEnd == /\ main = "running" /\ (mode = "none" \/ returned)
           /\ main' = "ended"
           /\ UNCHANGED <<lock, committed, gen, hpc, mode, events, returned, thread, proc>>
\* the interpreter goes away once every non-daemon thread has finished
Exit == /\ main = "ended" /\ proc = "alive"
        /\ (Daemon \/ thread \in {"notstarted", "done"})
        /\ proc' = "exited"
        /\ thread' = IF thread \in {"waiting", "replaying"} THEN "killed" ELSE thread
        /\ lock' = IF lock = "A" THEN "none" ELSE lock
        /\ UNCHANGED <<committed, gen, hpc, mode, events, returned, main>>

Next == HAcquire \/ HCommit \/ ACreate \/ (\E k \in Keys : ARecord(k)) \/ ACommit \/ TTry \/ TFinish \/ MainEnd \/ Exit
Spec == Init /\ [][Next]_vars
FairSpec == Spec /\ WF_vars(HCommit) /\ WF_vars(TTry) /\ WF_vars(TFinish) /\ WF_vars(Exit)

\* C04: what a commit() that returned promised is there when the program is gone
Durable == (proc = "exited" /\ returned) => Recorded \subseteq committed
\* C04: every successful commit advances the generation by exactly one (and nothing else does)
GenCounts == gen = (IF "h" \in committed THEN 1 ELSE 0)
                   + (IF returned /\ (mode = "direct" \/ thread = "done") THEN 1 ELSE 0)
\* C04: one writer at a time
OneHolder == (lock = "H" => hpc = "holding") /\ (lock = "A" => (mode = "direct" /\ ~returned) \/ thread = "replaying")
\* C04 (liveness): a deferred commit is applied once the other writer lets go
Applied == returned ~> (Recorded \subseteq committed)
=============================================================================
