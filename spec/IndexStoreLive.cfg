CONSTANTS
  Writers = {w1, w2}
  Readers = {}
  Keys = {k1}
  MaxGen = 2
  MaxSeg = 2
  NoOne = NoOne
SPECIFICATION FairSpec
PROPERTY LockFreedom
CHECK_DEADLOCK FALSE
