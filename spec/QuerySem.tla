------------------------------ MODULE QuerySem ------------------------------
(* Documented meaning of Whoosh queries over an index given as analysed       *)
(* documents.  This is the oracle for C01 (which documents), C09 (which        *)
(* score), C05 (which top k), C11/C12 (which list a matcher is a cursor over). *)
(*                                                                             *)
(* Index   idx = [docs |-> Seq(doc)]   global docnum d is docs[d+1]            *)
(*   doc = [live : BOOLEAN,                                                    *)
(*          t    : [fieldname -> Seq(term)]   analysed tokens in position      *)
(*                                            order; a term is a sequence of   *)
(*                                            letter codes 1..; the token <<0>> *)
(*                                            is a removed stop word (a gap),  *)
(*          n    : [fieldname -> Seq(Int)]    numeric field values,            *)
(*          b4   : Nat ]                      document boost * 4               *)
(* Scores are integers in units of 1/Unit; boosts are carried as boost*4.      *)
(* In the exact regime the code runs with scoring.Frequency, where a term's    *)
(* score is its stored weight = frequency * boosts.                            *)
EXTENDS Naturals, Integers, Sequences, FiniteSets, FiniteSetsExt, SequencesExt, Functions, TLC

Unit == 65536
Gap == <<0>>

DocIds(idx) == 0 .. Len(idx.docs) - 1
Doc(idx, d) == idx.docs[d + 1]
Live(idx) == {d \in DocIds(idx) : Doc(idx, d).live}
Toks(idx, d, f) == IF f \in DOMAIN Doc(idx, d).t THEN Doc(idx, d).t[f] ELSE <<>>
Nums(idx, d, f) == IF f \in DOMAIN Doc(idx, d).n THEN Doc(idx, d).n[f] ELSE <<>>
Positions(idx, d, f, t) == {i - 1 : i \in {j \in DOMAIN Toks(idx, d, f) : Toks(idx, d, f)[j] = t}}
Tf(idx, d, f, t) == Cardinality(Positions(idx, d, f, t))

\* every term of field f that occurs in any document still stored in a segment
\* (deleted documents keep their postings until merged away)
Lexicon(idx, f) == UNION {ToSet(Toks(idx, d, f)) : d \in DocIds(idx)} \ {Gap}

Scale(s, b4) == (s * b4) \div 4

\* ---- term predicates for multi-term queries ---------------------------------
IsPrefixOf(p, t) == Len(p) <= Len(t) /\ SubSeq(t, 1, Len(p)) = p

\* the letter codes are ordered as the concrete characters: a b c < o < t < e-acute < the astral ones
LetterKey(c) == CASE c = 7 -> 36 [] c = 8 -> 33 [] OTHER -> 10 * c
RECURSIVE SeqLess(_, _)
SeqLess(a, b) ==      \* lexicographic order on terms
  IF a = <<>> THEN b # <<>>
  ELSE IF b = <<>> THEN FALSE
  ELSE IF Head(a) # Head(b) THEN LetterKey(Head(a)) < LetterKey(Head(b))
  ELSE SeqLess(Tail(a), Tail(b))

\* regular expressions (Regex): a sequence of atoms <<letter code or 0 for any character, least, most repetitions
\* (-1: unbounded)>>; as the code matches with re.match, the pattern has to match a *beginning* of the term
RECURSIVE RxM(_, _, _, _)
RxM(as, i, t, p) ==
  IF i > Len(as) THEN TRUE
  ELSE LET a == as[i]
           most == IF a[3] < 0 \/ a[3] > Len(t) - p + 1 THEN Len(t) - p + 1 ELSE a[3]
       IN \E n \in a[2] .. most : /\ \A k \in p .. p + n - 1 : a[1] = 0 \/ t[k] = a[1]
                                  /\ RxM(as, i + 1, t, p + n)

\* glob: letter code -1 is '?', -2 is '*', -3 is the character class [ab] (letter codes 1 and 2)
RECURSIVE Glob(_, _)
Glob(p, t) ==
  IF p = <<>> THEN t = <<>>
  ELSE IF Head(p) = -2
       THEN \E k \in 0 .. Len(t) : Glob(Tail(p), SubSeq(t, k + 1, Len(t)))
       ELSE /\ t # <<>>
            /\ (Head(p) = -1 \/ Head(p) = Head(t) \/ (Head(p) = -3 /\ Head(t) \in {1, 2}))
            /\ Glob(Tail(p), Tail(t))

\* restricted Damerau-Levenshtein distance (insert, delete, substitute,
\* transpose adjacent) - the distance the fuzzy queries document
Min2(a, b) == IF a < b THEN a ELSE b
\* (computed row by row of the distance table: cell j of a row is kept at index j + 1)
RECURSIVE EditRowFrom(_, _, _, _, _, _, _)
EditRowFrom(a, b, i, r1, r2, trans, acc) ==      \* acc = cells 0 .. Len(acc) - 1 of row i; r1, r2 = rows i - 1, i - 2
  LET j == Len(acc)
  IN IF j > Len(b) THEN acc
     ELSE LET cost == IF a[i] = b[j] THEN 0 ELSE 1
              m == Min2(r1[j + 1] + 1, Min2(acc[j] + 1, r1[j] + cost))       \* delete, insert, substitute
              v == IF trans /\ i > 1 /\ j > 1 /\ a[i] = b[j - 1] /\ a[i - 1] = b[j]
                   THEN Min2(m, r2[j - 1] + 1)                               \* transpose adjacent
                   ELSE m
          IN EditRowFrom(a, b, i, r1, r2, trans, Append(acc, v))
RECURSIVE EditRows(_, _, _, _)
EditRows(a, b, i, trans) ==      \* <<row i, row i - 1>>
  IF i = 0 THEN LET r0 == [j \in 1 .. Len(b) + 1 |-> j - 1] IN <<r0, r0>>
  ELSE LET p == EditRows(a, b, i - 1, trans)
       IN <<EditRowFrom(a, b, i, p[1], p[2], trans, <<i>>), p[1]>>
DL(a, b) == EditRows(a, b, Len(a), TRUE)[1][Len(b) + 1]

\* plain Levenshtein distance (no transposition).  NOT the documented distance;
\* used only to recognise the recorded finding "single-segment fuzzy matching
\* ignores transpositions" precisely (query op "fuzzylev").
Lev(a, b) == EditRows(a, b, Len(a), FALSE)[1][Len(b) + 1]

\* ---- denotation --------------------------------------------------------------
\* Denote(idx, q) is a function  matching docnum -> score.
Empty == [d \in {} |-> 0]
Dom(m) == DOMAIN m
Const(S, v) == [d \in S |-> v]

TermM(idx, f, t, b4) ==
  LET S == {d \in Live(idx) : Tf(idx, d, f, t) > 0}
  IN [d \in S |-> Scale(Scale(Tf(idx, d, f, t) * Unit, Doc(idx, d).b4), b4)]

TermsM(idx, f, T, b4) ==   \* union of terms, scores are not asserted for multi-term queries
  Const({d \in Live(idx) : \E t \in T : Tf(idx, d, f, t) > 0}, Scale(Unit, b4))

SumOver(ms, d) == FoldFunction(LAMBDA m, acc : IF d \in DOMAIN m THEN acc + m[d] ELSE acc, 0, ms)
MaxOver(ms, d) == Max({ms[i][d] : i \in {j \in DOMAIN ms : d \in DOMAIN ms[j]}})

\* phrase: positions p1 < p2 < ... with words[i] at p_i and 1 <= p_{i+1} - p_i <= slop
RECURSIVE Chain(_, _, _, _, _, _, _)
Chain(idx, d, f, words, i, p, slop) ==
  IF i > Len(words) THEN TRUE
  ELSE \E p2 \in Positions(idx, d, f, words[i]) :
          /\ p2 - p >= 1 /\ p2 - p <= slop
          /\ Chain(idx, d, f, words, i + 1, p2, slop)
PhraseMatch(idx, d, f, words, slop) ==
  \E p1 \in Positions(idx, d, f, words[1]) : Chain(idx, d, f, words, 2, p1, slop)

InRange(v, q) ==
  /\ (q.haslo => IF q.loexcl THEN v > q.lo ELSE v >= q.lo)
  /\ (q.hashi => IF q.hiexcl THEN v < q.hi ELSE v <= q.hi)
TermInRange(t, q) ==
  /\ (q.haslo => IF q.loexcl THEN SeqLess(q.lo, t) ELSE (q.lo = t \/ SeqLess(q.lo, t)))
  /\ (q.hashi => IF q.hiexcl THEN SeqLess(t, q.hi) ELSE (q.hi = t \/ SeqLess(t, q.hi)))

\* ---- span queries ------------------------------------------------------------------
\* A span is <<start, end>> (positions, inclusive).  Spans(idx, d, q) is the set of spans query q
\* has in document d; a span query matches a document iff that set is not empty.
\*   term                    one span <<p, p>> per occurrence
\*   or (of span-able kids)  every span of every kid
\*   spanor                  the same, overlapping and touching spans merged into one
\*   spanfirst q limit       the spans of q that end within the first positions (end <= limit)
\*   spannear a b slop ordered mindist    for a span x of a and y of b with mindist <= distance <= slop
\*                           (and x not starting after y when ordered): the span covering both
\*   spannear2 kids ...      the same, folded over the list from the left
\*   spannot a b             the spans of a that overlap no span of b
\*   spancontains a b        the spans of a that contain some span of b
\*   spanbefore a b          the spans of a that end before every span of b starts (b must occur)
\*   spancond a b            the spans of a, if b matches the document
\*   sequence kids slop ordered   (query.Sequence) the sub-queries near one another, in order
SOverlaps(x, y) == ~(x[2] < y[1] \/ y[2] < x[1])
SDist(x, y) == IF SOverlaps(x, y) THEN 0 ELSE IF x[2] < y[1] THEN y[1] - x[2] ELSE x[1] - y[2]
SJoin(x, y) == <<IF x[1] < y[1] THEN x[1] ELSE y[1], IF x[2] > y[2] THEN x[2] ELSE y[2]>>
SLinked(x, y) == SOverlaps(x, y) \/ x[1] = y[2] + 1 \/ y[1] = x[2] + 1
\* merge: every maximal group of spans connected by overlapping / touching becomes one span
RECURSIVE SGroup(_, _)
SGroup(S, G) == LET more == {y \in S \ G : \E x \in G : SLinked(x, y)}
                IN IF more = {} THEN G ELSE SGroup(S, G \cup more)
SMerge(S) == {LET G == SGroup(S, {x}) IN
                <<CHOOSE a \in {g[1] : g \in G} : \A g \in G : a <= g[1],
                  CHOOSE b \in {g[2] : g \in G} : \A g \in G : b >= g[2]>> : x \in S}
SNear(A, B, slop, ordered, mindist) ==
  {SJoin(x, y) : <<x, y>> \in {p \in A \X B : /\ SDist(p[1], p[2]) >= mindist /\ SDist(p[1], p[2]) <= slop
                                               /\ (ordered => p[1][1] <= p[2][1])}}
RECURSIVE Spans(_, _, _), SFold(_, _, _, _, _), SeqTree(_, _, _, _, _)
\* Sequence: the sub-queries are paired up as a balanced binary tree of "near" constraints
SeqTree(idx, d, q, lo, hi) ==
  IF lo = hi THEN Spans(idx, d, q.kids[lo])
  ELSE LET half == (hi - lo + 1) \div 2
       IN SNear(SeqTree(idx, d, q, lo, lo + half - 1), SeqTree(idx, d, q, lo + half, hi), q.slop, q.ordered, 1)
SFold(idx, d, q, i, acc) ==
  IF i > Len(q.kids) THEN acc
  ELSE SFold(idx, d, q, i + 1, SNear(acc, Spans(idx, d, q.kids[i]), q.slop, q.ordered, q.mindist))
Spans(idx, d, q) ==
  CASE q.op = "term" -> {<<p, p>> : p \in Positions(idx, d, q.f, q.t)}
    [] q.op = "or" -> UNION {Spans(idx, d, q.kids[i]) : i \in DOMAIN q.kids}
    \* (with a single sub-query there is nothing to merge with: its spans are passed through)
    [] q.op = "spanor" -> IF Len(q.kids) = 1 THEN Spans(idx, d, q.kids[1])
                          ELSE SMerge(UNION {Spans(idx, d, q.kids[i]) : i \in DOMAIN q.kids})
    [] q.op = "spanfirst" -> {x \in Spans(idx, d, q.q) : x[2] <= q.limit}
    [] q.op = "spannear" -> SNear(Spans(idx, d, q.a), Spans(idx, d, q.b), q.slop, q.ordered, q.mindist)
    [] q.op = "spannear2" -> IF q.kids = <<>> THEN {} ELSE SFold(idx, d, q, 2, Spans(idx, d, q.kids[1]))
    [] q.op = "sequence" -> IF q.kids = <<>> THEN {} ELSE SeqTree(idx, d, q, 1, Len(q.kids))
    [] q.op = "spannot" -> LET B == Spans(idx, d, q.b) IN {x \in Spans(idx, d, q.a) : \A y \in B : ~SOverlaps(x, y)}
    [] q.op = "spancontains" -> LET B == Spans(idx, d, q.b) IN
                                {x \in Spans(idx, d, q.a) : \E y \in B : y[1] >= x[1] /\ y[2] <= x[2]}
    [] q.op = "spanbefore" -> LET B == Spans(idx, d, q.b) IN
                              IF B = {} THEN {} ELSE {x \in Spans(idx, d, q.a) : \A y \in B : x[2] < y[1]}
    [] q.op = "spancond" -> IF Spans(idx, d, q.b) = {} THEN {} ELSE Spans(idx, d, q.a)
SpanOps == {"spanor", "spanfirst", "spannear", "spannear2", "spannot", "spancontains", "spanbefore", "spancond",
            "sequence"}

\* ---- nested (hierarchical) documents ------------------------------------------------
\* Documents of a group sit next to one another inside one segment (doc.seg); the documents matching
\* the "parents" query mark where groups start.
SameSeg(idx, a, b) == Doc(idx, a).seg = Doc(idx, b).seg
\* the parent of d: the nearest parent at or before d in d's segment (if any)
ParentsUpTo(idx, P, d) == {p \in P : p <= d /\ SameSeg(idx, p, d)}
ParentOf(idx, P, d) == CHOOSE p \in ParentsUpTo(idx, P, d) : \A x \in ParentsUpTo(idx, P, d) : x <= p
\* the children of x: the live documents after x, in its segment, before the next parent
ChildrenOf(idx, P, x) == {c \in Live(idx) : /\ c > x /\ SameSeg(idx, x, c)
                                            /\ ~\E p \in P : x < p /\ p <= c /\ SameSeg(idx, x, p)}

RECURSIVE Denote(_, _)
Denote(idx, q) ==
  CASE q.op = "term" -> TermM(idx, q.f, q.t, q.b4)
    [] q.op = "nestedparent" ->
         LET P == DOMAIN Denote(idx, q.p)
             kids == {d \in DOMAIN Denote(idx, q.q) : ParentsUpTo(idx, P, d) # {}}
         IN Const({ParentOf(idx, P, d) : d \in kids}, Unit)
    [] q.op = "nestedchildren" ->
         LET P == DOMAIN Denote(idx, q.p)
         IN Const(UNION {ChildrenOf(idx, P, x) : x \in DOMAIN Denote(idx, q.q)}, Unit)
    [] q.op \in SpanOps -> Const({d \in Live(idx) : Spans(idx, d, q) # {}}, Unit)
    [] q.op = "null" -> Empty
    [] q.op = "every" ->
         IF q.f = "" THEN Const(Live(idx), Scale(Unit, q.b4))
         ELSE Const({d \in Live(idx) : ToSet(Toks(idx, d, q.f)) \ {Gap} # {} \/ Nums(idx, d, q.f) # <<>>},
                    Scale(Unit, q.b4))
    [] q.op \in {"and", "or", "dismax"} ->
         LET ms == [i \in DOMAIN q.kids |-> Denote(idx, q.kids[i])]
             doms == {DOMAIN ms[i] : i \in DOMAIN ms}
             S == IF Len(q.kids) = 0 THEN {}
                  ELSE IF q.op = "and" THEN {d \in DOMAIN ms[1] : \A D \in doms : d \in D}
                  ELSE UNION doms
         IN [d \in S |-> Scale(IF q.op = "dismax" THEN MaxOver(ms, d) ELSE SumOver(ms, d), q.b4)]
    [] q.op = "not" -> Const(Live(idx) \ DOMAIN Denote(idx, q.q), Unit)
    [] q.op = "andnot" ->
         LET a == Denote(idx, q.a) IN Restrict(a, DOMAIN a \ DOMAIN Denote(idx, q.b))
    [] q.op = "andmaybe" ->
         LET a == Denote(idx, q.a)
             b == Denote(idx, q.b)
         IN [d \in DOMAIN a |-> IF d \in DOMAIN b THEN a[d] + b[d] ELSE a[d]]
    [] q.op = "require" ->
         LET a == Denote(idx, q.a) IN Restrict(a, DOMAIN a \cap DOMAIN Denote(idx, q.b))
    [] q.op = "const" -> Const(DOMAIN Denote(idx, q.q), q.score)
    [] q.op = "phrase" ->
         Const({d \in Live(idx) : PhraseMatch(idx, d, q.f, q.words, q.slop)}, Unit)
    [] q.op = "prefix" -> TermsM(idx, q.f, {t \in Lexicon(idx, q.f) : IsPrefixOf(q.t, t)}, q.b4)
    [] q.op = "wildcard" -> TermsM(idx, q.f, {t \in Lexicon(idx, q.f) : Glob(q.t, t)}, q.b4)
    [] q.op \in {"fuzzy", "fuzzylev"} ->
         TermsM(idx, q.f, {t \in Lexicon(idx, q.f) :
                             /\ (IF q.op = "fuzzy" THEN DL(q.t, t) ELSE Lev(q.t, t)) <= q.maxdist
                             /\ Len(t) >= Min2(q.prefix, Len(q.t))
                             /\ SubSeq(t, 1, Min2(q.prefix, Len(q.t))) = SubSeq(q.t, 1, Min2(q.prefix, Len(q.t)))},
                q.b4)
    [] q.op = "regex" -> TermsM(idx, q.f, {t \in Lexicon(idx, q.f) : RxM(q.atoms, 1, t, 1)}, q.b4)
    [] q.op = "termrange" -> TermsM(idx, q.f, {t \in Lexicon(idx, q.f) : TermInRange(t, q)}, q.b4)
    [] q.op = "numrange" ->
         Const({d \in Live(idx) : \E i \in DOMAIN Nums(idx, d, q.f) : InRange(Nums(idx, d, q.f)[i], q)},
               Scale(Unit, q.b4))
    \* ColumnQuery: the documents whose (first) per-document value satisfies the condition; constant score 1.
    \* (Only conditions that the value standing in for "no value" cannot satisfy are asked: = v and <= v.)
    [] q.op = "colq" ->
         Const({d \in Live(idx) : /\ Nums(idx, d, q.f) # <<>>
                                   /\ IF q.rel = "eq" THEN Nums(idx, d, q.f)[1] = q.v ELSE Nums(idx, d, q.f)[1] <= q.v},
               Unit)

\* queries whose score the documentation fixes (C09): everything built from
\* term / every / const / multi-term (constant: the boost) leaves with and/or/dismax/andnot/andmaybe/require;
\* a Not, phrase or fuzzy clause in a *scoring* position is not asserted.
RECURSIVE Scored(_)
Scored(q) ==
  CASE q.op \in {"term", "every", "const", "null"} -> TRUE
    \* multi-term queries score a constant, the boost (constantscore=True is their default)
    [] q.op \in {"prefix", "wildcard", "termrange", "numrange", "colq", "regex"} -> TRUE
    [] q.op \in {"and", "or", "dismax"} -> \A i \in DOMAIN q.kids : Scored(q.kids[i])
    [] q.op \in {"andnot", "require"} -> Scored(q.a)
    [] q.op = "andmaybe" -> Scored(q.a) /\ Scored(q.b)
    [] OTHER -> FALSE

\* ---- rankings ------------------------------------------------------------------
Ids(m) == SetToSortSeq(DOMAIN m, <)
Better(m, x, y) == m[x] > m[y] \/ (m[x] = m[y] /\ x < y)
Rank(m) == SetToSortSeq(DOMAIN m, LAMBDA x, y : Better(m, x, y))
TopK(m, k) == LET r == Rank(m) IN IF k = 0 \/ k >= Len(r) THEN r ELSE SubSeq(r, 1, k)
Hits(m, seq) == [i \in DOMAIN seq |-> <<seq[i], m[seq[i]]>>]
=============================================================================
