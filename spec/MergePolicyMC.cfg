CONSTANTS Sizes = {0, 1, 3, 9, 40}  MaxSegs = 6
INIT Init
NEXT Next
INVARIANT Partition
INVARIANT SmallestMerged
INVARIANT FewSegmentsUntouched
INVARIANT Export
CHECK_DEADLOCK FALSE
