CONSTANTS U = 5  NObj = 2  MaxOps = 3
SPECIFICATION Spec
INVARIANT TypeOK
INVARIANT NeighbourLaw
INVARIANT IterAscending
INVARIANT InvertInvolution
PROPERTY QueriesPure
VIEW View
CHECK_DEADLOCK FALSE
