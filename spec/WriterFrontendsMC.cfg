CONSTANTS Threads = {"t1", "t2"}  Keys = {"k1", "k2", "k3"}  Limit = 2  MaxOps = 5  NoOne = "none"
          HoldMutex = TRUE  InitKeys = {"k1"}
SPECIFICATION Spec
INVARIANT NoRaceError
INVARIANT QuiescentView
INVARIANT NothingLost
INVARIANT SearchBounds
INVARIANT InnerOpenWhenFree
INVARIANT CountBounds
CHECK_DEADLOCK FALSE
