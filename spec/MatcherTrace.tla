---------------------------- MODULE MatcherTrace ----------------------------
(* A matcher is a forward cursor over one fixed ascending list of            *)
(* <<docnum, score>> entries (C11), and its quality figures are upper bounds  *)
(* on the scores still ahead (C12).                                            *)
(*                                                                             *)
(* State: R[m] = the entries matcher object m has still to deliver (the head   *)
(* is the current entry), F[m] = its full list (what reset() returns to).      *)
(* Every recorded call must be explained by the cursor model; events:          *)
(*   new(m, ref)            ref: the full list, taken by plain stepping        *)
(*   next(m) / skip_to(m,t) / reset(m) / copy(m,r)                             *)
(*   skipq(m,q,rest)        skip_to_quality(q); rest = entries still ahead     *)
(*   replace(m,q,r,rest)    r = m.replace(q); rest = entries r still delivers  *)
(*   state(m,active,id,score)   what is_active()/id()/score() answered         *)
(*   quality(m,bq,mq)       block_quality()/max_quality() at this position     *)
(*   blockscan(m,bq,scores) scores of the entries of the current posting block *)
(*   allids(m,ids)          all_ids() of a fresh matcher                       *)
(*   error(...)             any exception raised by a call                     *)
(* Scores/qualities are integers (exact scaled values or order-preserving      *)
(* ranks of the floats in the trace).                                          *)
EXTENDS Naturals, Integers, Sequences, FiniteSets, SequencesExt, TLC, Json, IOUtils

Traces == JsonDeserialize(IOEnv.TRACE_FILE)
VARIABLES tid, l, R, F
vars == <<tid, l, R, F>>

Put(f, k, v) == IF k \in DOMAIN f THEN [f EXCEPT ![k] = v] ELSE f @@ (k :> v)

RECURSIVE DropBelow(_, _)
DropBelow(s, t) == IF s = <<>> \/ s[1][1] >= t THEN s ELSE DropBelow(Tail(s), t)

Ascending(s) == \A i \in 1 .. Len(s) - 1 : s[i][1] < s[i + 1][1]
Ids(s) == [i \in DOMAIN s |-> s[i][1]]
Scores(s) == [i \in DOMAIN s |-> s[i][2]]

\* [ok |-> the event is allowed, R |-> new R, F |-> new F, why |-> failed clause]
Step(e) ==
  LET cur == IF e.m \in DOMAIN R THEN R[e.m] ELSE <<>>
      same == [ok |-> TRUE, R |-> R, F |-> F, why |-> ""]
      bad(w) == [ok |-> FALSE, R |-> R, F |-> F, why |-> w]
  IN CASE e.ev = "new" ->
            IF Ascending(e.ref) THEN [same EXCEPT !.R = Put(R, e.m, e.ref), !.F = Put(F, e.m, e.ref)]
            ELSE bad("ids-not-strictly-ascending")
       [] e.ev = "next" ->
            IF cur = <<>> THEN bad("next-on-inactive") ELSE [same EXCEPT !.R = Put(R, e.m, Tail(cur))]
       [] e.ev = "skip_to" ->
            IF cur = <<>> THEN bad("skip_to-on-inactive")
            ELSE [same EXCEPT !.R = Put(R, e.m, DropBelow(cur, e.t))]
       [] e.ev = "reset" -> [same EXCEPT !.R = Put(R, e.m, F[e.m])]
       [] e.ev = "copy" -> [same EXCEPT !.R = Put(R, e.r, cur), !.F = Put(F, e.r, F[e.m])]
       [] e.ev \in {"skipq", "replace"} ->
            \* C12: skip_to_quality(q) / replace(q) never lose an entry that scores more
            \* than q.  Entries scoring at most q are of no interest to a top-N search:
            \* a composite may drop them, or keep them with part of their score (one
            \* operand skipped ahead, the other did not) - never with a higher one.
            LET tgt == IF e.ev = "replace" THEN e.r ELSE e.m
                ScoreIn(s, id) == LET i == CHOOSE j \in DOMAIN s : s[j][1] = id IN s[i][2]
                curids == ToSet(Ids(cur))
            \* A rewritten composite may even deliver documents that are not in the list (a required
            \* operand turned optional) - again only with a score of at most q.
            IN IF ~Ascending(e.rest) THEN bad(e.ev \o "-reordered-entries")
               ELSE IF \E y \in ToSet(e.rest) : y[1] \notin curids /\ y[2] > e.q
                 THEN bad(e.ev \o "-invented-an-entry-scoring-above-the-threshold")
               ELSE IF \E x \in ToSet(cur) : x[2] > e.q /\ x \notin ToSet(e.rest)
                 THEN bad(e.ev \o "-lost-or-changed-better-entry")
               ELSE IF \E y \in ToSet(e.rest) : y[1] \in curids /\ y[2] > ScoreIn(cur, y[1])
                 THEN bad(e.ev \o "-raised-a-score")
               ELSE [same EXCEPT !.R = Put(R, tgt, e.rest),
                                 !.F = IF e.ev = "replace" THEN Put(F, tgt, e.rest) ELSE F]
       [] e.ev = "state" ->
            IF e.active # (cur # <<>>) THEN bad("is_active")
            ELSE IF cur # <<>> /\ e.id # cur[1][1] THEN bad("id")
            ELSE IF cur # <<>> /\ e.score # cur[1][2] THEN bad("score")
            ELSE same
       [] e.ev = "quality" ->
            IF cur = <<>> THEN same
            ELSE IF e.bq < cur[1][2] THEN bad("block_quality-below-current-score")
            ELSE IF \E i \in DOMAIN cur : e.mq < cur[i][2] THEN bad("max_quality-below-a-remaining-score")
            ELSE same
       [] e.ev = "blockscan" ->
            IF Len(e.scores) > Len(cur) \/ SubSeq(Scores(cur), 1, Len(e.scores)) # e.scores
              THEN bad("blockscan-not-a-prefix")
            ELSE IF \E i \in DOMAIN e.scores : e.bq < e.scores[i] THEN bad("block_quality-below-a-score-in-block")
            ELSE same
       [] e.ev = "allids" -> IF e.ids = Ids(F[e.m]) THEN same ELSE bad("all_ids")
       [] e.ev = "error" -> bad("raised")

TInit == /\ tid \in 1 .. Len(Traces)
         /\ l = 1
         /\ R = <<>>
         /\ F = <<>>

TNext ==
  /\ l <= Len(Traces[tid])
  /\ LET e == Traces[tid][l]
         s == Step(e)
     IN IF s.ok
        THEN /\ R' = s.R /\ F' = s.F /\ l' = l + 1
             /\ (l' > Len(Traces[tid]) => PrintT(<<"DONE", tid>>))
        ELSE /\ PrintT(<<"REJECT", ToJson([tid |-> tid, l |-> l, why |-> s.why,
                                            cur |-> IF e.m \in DOMAIN R THEN SubSeq(R[e.m], 1, IF Len(R[e.m]) < 4 THEN Len(R[e.m]) ELSE 4) ELSE <<>>])>>)
             /\ l' = Len(Traces[tid]) + 2 /\ R' = R /\ F' = F
  /\ UNCHANGED tid
=============================================================================
