------------------------------- MODULE IdSet -------------------------------
(* Abstract type behind whoosh.idsets.*: a finite set of naturals with the   *)
(* DocIdSet API.  W: src/whoosh/idsets.py                                      *)
(*                                                                             *)
(* The whole semantics is the pure operator Step(S, e): given the object table *)
(* S (object id -> set) and a call e it yields the post table and the value    *)
(* the call must return.  The same operator drives                             *)
(*   - the design model (Next picks any call; invariants over all programs),   *)
(*   - behaviour export for replay into the code (IdSetGen.cfg),               *)
(*   - trace validation of calls recorded from the code (IdSetTrace.tla).      *)
EXTENDS Naturals, Integers, Sequences, FiniteSets, FiniteSetsExt, SequencesExt, TLC

CONSTANTS U,        \* ids are 0..U-1
          NObj,     \* objects 1..NObj
          MaxOps    \* bound on program length in the model

None == -1          \* "no such element" result of first/last/before/after

Sorted(S) == SetToSortSeq(S, <)
MinOr(S) == IF S = {} THEN None ELSE Min(S)
MaxOr(S) == IF S = {} THEN None ELSE Max(S)

\* ---- the calls ------------------------------------------------------------
\* e = [op, o, p, n, xs, r]; o: receiver, p: other object, n: int argument,
\* xs: sequence of ints (iterable argument), r: id bound to a returned object.
Mutators  == {"add", "discard", "update", "intersection_update",
              "difference_update", "invert_update", "clear"}
Builders  == {"union", "intersection", "difference", "invert", "copy"}
Queries   == {"contains", "len", "iter", "first", "last", "before", "after",
              "isdisjoint", "bool", "eq"}

Put(S, r, V) == IF r \in DOMAIN S THEN [S EXCEPT ![r] = V] ELSE S @@ (r :> V)

Post(S, e) ==
  LET A == IF e.o \in DOMAIN S THEN S[e.o] ELSE {}
      B == IF e.p \in DOMAIN S THEN S[e.p] ELSE {}
      X == ToSet(e.xs)
  IN CASE e.op = "add"                 -> [S EXCEPT ![e.o] = A \cup {e.n}]
       [] e.op = "discard"             -> [S EXCEPT ![e.o] = A \ {e.n}]
       [] e.op = "update"              -> [S EXCEPT ![e.o] = A \cup X]
       [] e.op = "intersection_update" -> [S EXCEPT ![e.o] = A \cap B]
       [] e.op = "difference_update"   -> [S EXCEPT ![e.o] = A \ B]
       [] e.op = "invert_update"       -> [S EXCEPT ![e.o] = (0 .. e.n - 1) \ A]
       [] e.op = "clear"               -> [S EXCEPT ![e.o] = {}]
       [] e.op = "union"               -> Put(S, e.r, A \cup B)
       [] e.op = "intersection"        -> Put(S, e.r, A \cap B)
       [] e.op = "difference"          -> Put(S, e.r, A \ B)
       [] e.op = "invert"              -> Put(S, e.r, (0 .. e.n - 1) \ A)
       [] e.op = "copy"                -> Put(S, e.r, A)
       \* constructors: from an iterable; a complement view of p below limit n
       \* (ReverseIdSet); a concatenation of objects ps shifted by offsets xs
       \* (MultiIdSet)
       [] e.op = "new"                 -> Put(S, e.r, X)
       [] e.op = "new_reverse"         -> Put(S, e.r, (0 .. e.n - 1) \ B)
       [] e.op = "new_multi"           -> Put(S, e.r,
                                            UNION {{x + e.xs[i] : x \in S[e.ps[i]]} : i \in DOMAIN e.ps})
       [] OTHER                        -> S

\* value returned by a query (mutators/builders return nothing observable:
\* builders are observed through later calls on e.r)
Res(S, e) ==
  LET A == IF e.o \in DOMAIN S THEN S[e.o] ELSE {}
      B == IF e.p \in DOMAIN S THEN S[e.p] ELSE {}
  IN CASE e.op = "contains"   -> (e.n \in A)
       [] e.op = "len"        -> Cardinality(A)
       [] e.op = "iter"       -> Sorted(A)
       [] e.op = "first"      -> MinOr(A)
       [] e.op = "last"       -> MaxOr(A)
       [] e.op = "before"     -> MaxOr({x \in A : x < e.n})
       [] e.op = "after"      -> MinOr({x \in A : x > e.n})
       [] e.op = "isdisjoint" -> (A \cap B = {})
       [] e.op = "eq"         -> (A = B)             \* two id sets are equal iff they hold the same ids
       [] e.op = "bool"       -> (A # {})
       [] OTHER               -> 0

\* Preconditions under which the API has a defined meaning (generators respect
\* them; nothing is asserted outside them):
\*  - invert(size): the set lies inside 0..size-1 (size = number of documents)
\*  - first/last: the set is not empty
Pre(S, e) ==
  /\ e.op \notin {"new", "new_reverse", "new_multi"} => e.o \in DOMAIN S
  /\ e.op \in {"invert", "invert_update"} => S[e.o] \subseteq 0 .. e.n - 1
  /\ e.op \in {"first", "last"} => S[e.o] # {}
  /\ e.op \in {"intersection_update", "difference_update", "union", "intersection",
               "difference", "isdisjoint", "eq"} => e.p \in DOMAIN S

\* ---- design model ------------------------------------------------------------
VARIABLES s, ev, k
vars == <<s, ev, k>>

Blank == [op |-> "init", o |-> 0, p |-> 0, n |-> 0, xs |-> <<>>, r |-> 0]

Init == /\ s = [o \in {1} |-> {}]
        /\ ev = Blank
        /\ k = 0

Calls(S) ==
  LET objs == DOMAIN S
      fresh == IF Cardinality(objs) < NObj THEN {Cardinality(objs) + 1} ELSE {}
  IN    [op : {"add", "discard", "contains", "before", "after"}, o : objs, p : {0},
         n : 0 .. U - 1, xs : {<<>>}, r : {0}]
   \cup [op : {"update"}, o : objs, p : {0}, n : {0},
         xs : {<<>>, <<0>>, <<U - 1, 1>>, <<2, 2, 0>>}, r : {0}]
   \cup [op : {"intersection_update", "difference_update", "isdisjoint", "eq"}, o : objs,
         p : objs, n : {0}, xs : {<<>>}, r : {0}]
   \cup [op : {"invert_update"}, o : objs, p : {0}, n : {0, U - 1, U}, xs : {<<>>}, r : {0}]
   \cup [op : {"clear", "len", "iter", "first", "last", "bool"}, o : objs, p : {0},
         n : {0}, xs : {<<>>}, r : {0}]
   \cup [op : {"union", "intersection", "difference"}, o : objs, p : objs, n : {0},
         xs : {<<>>}, r : fresh]
   \cup [op : {"invert"}, o : objs, p : {0}, n : {U}, xs : {<<>>}, r : fresh]
   \cup [op : {"copy"}, o : objs, p : {0}, n : {0}, xs : {<<>>}, r : fresh]

Next == /\ k < MaxOps
        /\ \E e \in Calls(s) :
             /\ Pre(s, e)
             /\ s' = Post(s, e)
             /\ ev' = e @@ [res |-> Res(s, e)]
        /\ k' = k + 1

Spec == Init /\ [][Next]_vars

\* ---- properties of the design (set-algebra laws the API must satisfy) --------
TypeOK == \A o \in DOMAIN s : s[o] \subseteq 0 .. U - 1

\* a copy / builder result is independent of its source: no aliasing in the table
QueriesPure == [][ev'.op \in Queries => s' = s]_vars

\* before/after are inverse neighbours; iteration is strictly ascending
NeighbourLaw ==
  \A o \in DOMAIN s : \A x \in s[o] :
     LET e == [Blank EXCEPT !.o = o, !.n = x]
         a == Res(s, [e EXCEPT !.op = "after"])
     IN a # None => Res(s, [e EXCEPT !.op = "before", !.n = a]) = x

IterAscending ==
  \A o \in DOMAIN s :
     LET q == Res(s, [Blank EXCEPT !.op = "iter", !.o = o])
     IN \A i \in 1 .. Len(q) - 1 : q[i] < q[i + 1]

InvertInvolution ==
  \A o \in DOMAIN s : s[o] \subseteq 0 .. U - 1 =>
     LET e == [Blank EXCEPT !.op = "invert_update", !.o = o, !.n = U]
     IN Post(Post(s, e), e) = s

View == <<s, k>>
=============================================================================
