------------------------------ MODULE Collector ------------------------------
(* Design model of top-N collection with score thresholds (ScoredCollector /    *)
(* TopCollector / CollapseCollector.remove in collectors.py).                    *)
(*                                                                              *)
(* A posting list is a function doc -> score (0: the document does not match).   *)
(* The collector walks it in document order.  It keeps at most K entries and a    *)
(* threshold `minscore` that it hands to the matcher (replace / skip_to_quality); *)
(* a sound matcher may then pass over any not yet delivered document scoring at   *)
(* most that threshold.  Collapsing may remove a kept entry again.                *)
(*                                                                              *)
(*   Collect   collectors.py TopCollector._collect                                *)
(*   Prune     ScoredCollector.matches: matcher.replace(minscore) /                *)
(*             matcher.skip_to_quality(minscore)                                   *)
(*   Remove    TopCollector.remove (called by CollapseCollector)                   *)
(*                                                                              *)
(* Checked: the threshold never exceeds what a newcomer must beat; without         *)
(* removals the kept entries are exactly the K best (score descending, document    *)
(* ascending) of everything that matches; the running total is the number of       *)
(* matches unless something was pruned (then `pruned` says so).                    *)
EXTENDS Naturals, Integers, FiniteSets, Sequences
CONSTANTS Docs, MaxScore, K, AllowRemove

VARIABLES score,      \* the posting list, chosen arbitrarily at the start
          rest,       \* documents not yet delivered or passed over
          kept,       \* set of <<score, doc>>
          minscore, total, pruned, removed
vars == <<score, rest, kept, minscore, total, pruned, removed>>

Matching == {d \in Docs : score[d] > 0}

\* ---- the transition functions (shared with CollectorTrace.tla) ---------------------
MinScore(S) == CHOOSE s \in {e[1] : e \in S} : \A e \in S : s <= e[1]
\* heapq on (score, -docnum): the entry popped is the lowest score, highest document
Least(S) == CHOOSE e \in S : /\ e[1] = MinScore(S)
                             /\ \A f \in S : f[1] = e[1] => f[2] <= e[2]
\* what a newcomer must beat: nothing while there is room
ThresholdOf(S, k) == IF Cardinality(S) >= k THEN MinScore(S) ELSE 0
\* TopCollector._collect: the kept entries after document d with score s was delivered
KeptAfterCollect(S, k, s, d) ==
  IF Cardinality(S) < k THEN S \cup {<<s, d>>}
  ELSE IF s > MinScore(S) THEN (S \ {Least(S)}) \cup {<<s, d>>}
  ELSE S
\* ... and the threshold the collector then announces (it only moves when an entry is replaced)
MinAfterCollect(S, k, s, d, m) ==
  IF Cardinality(S) >= k /\ s > MinScore(S) THEN MinScore(KeptAfterCollect(S, k, s, d)) ELSE m
\* TopCollector.remove
KeptAfterRemove(S, d) == {e \in S : e[2] # d}
MinAfterRemove(S, k, d) == ThresholdOf(KeptAfterRemove(S, d), k)
Better(a, b) == a[1] > b[1] \/ (a[1] = b[1] /\ a[2] < b[2])
TopKOf(A, k) == {e \in A : Cardinality({f \in A : Better(f, e)}) < k}

Threshold == ThresholdOf(kept, K)

Init == /\ score \in [Docs -> 0 .. MaxScore]
        /\ rest = {d \in Docs : score[d] > 0}
        /\ kept = {} /\ minscore = 0 /\ total = 0 /\ pruned = FALSE /\ removed = FALSE

Next1(d) == \A e \in rest : d <= e
Collect == \E d \in rest :
  /\ Next1(d)
  /\ rest' = rest \ {d}
  /\ total' = total + 1
  /\ kept' = KeptAfterCollect(kept, K, score[d], d)
  /\ minscore' = MinAfterCollect(kept, K, score[d], d, minscore)
  /\ UNCHANGED <<score, pruned, removed>>

\* the matcher, told minscore, passes over some documents that cannot beat it
Prune == \E S \in SUBSET rest :
  /\ S # {}
  /\ \A d \in S : score[d] <= minscore
  /\ rest' = rest \ S
  /\ pruned' = TRUE
  /\ UNCHANGED <<score, kept, minscore, total, removed>>

Remove == /\ AllowRemove
          /\ \E e \in kept :
               /\ kept' = KeptAfterRemove(kept, e[2])
               /\ minscore' = MinAfterRemove(kept, K, e[2])
          /\ removed' = TRUE
          /\ UNCHANGED <<score, rest, total, pruned>>

Next == Collect \/ Prune \/ Remove
Spec == Init /\ [][Next]_vars

\* ---- properties ------------------------------------------------------------------
ThresholdSound == minscore <= Threshold
All == {<<score[d], d>> : d \in Matching}
TopK == TopKOf(All, K)
Done == rest = {}
ExactTopK == (Done /\ ~removed) => kept = TopK
CountExact == (Done /\ ~pruned) => total = Cardinality(Matching)
\* a removal never leaves a threshold that a document able to enter could not beat
NoStaleThreshold == Cardinality(kept) < K => minscore = 0 \/ ~removed
=============================================================================
