-------------------------- MODULE NumericTiersTrace --------------------------
(* Judges the sub-ranges the real split_ranges()/tiered_ranges() returned:    *)
(* TRACE_FILE = array of [bits, s, e, ranges: [[a, b, shift]..]] (s > e: the  *)
(* empty interval).  The matched values must be exactly s..e.                 *)
EXTENDS Naturals, Integers, Sequences, FiniteSets, TLC, Json, IOUtils
Cases == JsonDeserialize(IOEnv.TRACE_FILE)
VARIABLE c
Init == c \in 1 .. Len(Cases)
Next == UNCHANGED c
Pow2(n) == 2 ^ n
Shr(x, n) == x \div Pow2(n)
Covers(rs, v) == \E i \in DOMAIN rs : /\ Shr(rs[i][1], rs[i][3]) <= Shr(v, rs[i][3])
                                     /\ Shr(v, rs[i][3]) <= Shr(rs[i][2], rs[i][3])
\* only the values around the interval and around every sub-range end point can differ
Probe(cs) == LET pts == {cs.s, cs.e} \cup UNION {{cs.ranges[i][1], cs.ranges[i][2]} : i \in DOMAIN cs.ranges}
                 near == UNION {{p - 1, p, p + 1} : p \in pts} \cup {0, Pow2(cs.bits) - 1}
             IN IF cs.bits <= 8 THEN 0 .. Pow2(cs.bits) - 1
                ELSE {v \in near : v >= 0 /\ v < Pow2(cs.bits)}
Wrong(cs) == {v \in Probe(cs) : Covers(cs.ranges, v) # (cs.s <= v /\ v <= cs.e)}
Inv == LET cs == Cases[c] IN
         Wrong(cs) = {} \/ PrintT(<<"REJECT", ToJson([tid |-> c, wrong |-> Wrong(cs)])>>)
=============================================================================
