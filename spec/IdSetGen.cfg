CONSTANTS U = 18  NObj = 3  MaxOps = 10
INIT GenInit
NEXT GenNext
CHECK_DEADLOCK FALSE
