CONSTANTS U = 0  NObj = 0  MaxOps = 0
INIT TInit
NEXT TNext
CHECK_DEADLOCK FALSE
