------------------------------ MODULE QueryLang ------------------------------
(* The documented query language (C16).                                        *)
(*                                                                             *)
(* An expression is a tree e:                                                   *)
(*   [op |-> "word", f, t]            f = "" : no field prefix; t letter codes   *)
(*   [op |-> "stop", f]               a word the field's analyzer removes ("the"): *)
(*                                    it is gone from the query, and so is a group  *)
(*                                    nothing else is left of                       *)
(*   [op |-> "phrase", f, words, slop]  slop = 0: none written (default 1)      *)
(*   [op |-> "multi", f, parts]       one typed word that the field's analyzer    *)
(*                                    breaks into several tokens (written with    *)
(*                                    hyphens; f is a field that splits there)    *)
(*   [op |-> "prefix", f, t]          t*                                         *)
(*   [op |-> "wild", f, t]            letter code -1 is ?, -2 is *               *)
(*   [op |-> "range", f, lo, hi, haslo, hashi, loexcl, hiexcl]   [lo TO hi] ...  *)
(*   [op |-> "nrange", f, lo, hi, ...]   the same on the numeric field           *)
(*   [op |-> "cmp", f, rel, n]        f:<n  f:<=n  f:=<n  f:>n  f:>=n  f:=>n  (GtLtPlugin, numeric field) *)
(*   [op |-> "boost", e, n]           e^n                                        *)
(*   [op |-> "fgroup", f, e]          f:(e)                                      *)
(*   [op |-> "not", e]  [op |-> "and", kids]  [op |-> "or", kids]                *)
(*   [op |-> "andnot" | "andmaybe" | "require", a, b]                            *)
(*   [op |-> "group", kids]           clauses written side by side               *)
(*   [op |-> "pm", items]             items = [sign |-> "+" | "-" | "", e]: the   *)
(*                                    +required -prohibited optional language of  *)
(*                                    SimpleParser / DisMaxParser                 *)
(*                                                                             *)
(* Render(e) is the text of the expression: NOT binds tightest, then AND, then   *)
(* OR, then the binary operators (parenthesised when mixed with one another),    *)
(* then juxtaposition; anything else is parenthesised.                           *)
(* Meaning(e, cfg, f) is the query it is documented to denote, as a QuerySem     *)
(* query, under a parser configuration cfg = [group |-> "and"|"or",              *)
(* fields |-> the fields an unprefixed clause is searched in, multi |-> "or" |    *)
(* "dismax"] with f the field prefix in force ("" = none).                       *)
EXTENDS QuerySem

Letter(c) == CASE c = 1 -> "a" [] c = 2 -> "b" [] c = 3 -> "c" [] c = 7 -> "t" [] c = 8 -> "o" [] c = -1 -> "?" [] c = -2 -> "*"
RECURSIVE Word(_)
Word(t) == IF t = <<>> THEN "" ELSE Letter(Head(t)) \o Word(Tail(t))
Num(n) == IF n < 0 THEN "-" \o ToString(0 - n) ELSE ToString(n)

\* binding strength of the expression's outermost construct
Level(e) ==
  CASE e.op \in {"word", "stop", "multi", "phrase", "prefix", "wild", "range", "nrange", "boost", "fgroup", "cmp"} -> 4
    [] e.op = "not" -> 3
    [] e.op = "and" -> 2
    [] e.op = "or" -> 1
    [] e.op \in {"andnot", "andmaybe", "require"} -> 0
    [] e.op \in {"group", "pm"} -> -1

RECURSIVE Render(_), Join(_, _, _), Sub(_, _)
FieldPrefix(f) == IF f = "" THEN "" ELSE f \o ":"
\* operand of a construct that needs binding strength at least lv
Sub(e, lv) == IF Level(e) >= lv THEN Render(e) ELSE "(" \o Render(e) \o ")"
Join(kids, sep, lv) == IF Len(kids) = 1 THEN Sub(kids[1], lv)
                       ELSE Sub(Head(kids), lv) \o sep \o Join(Tail(kids), sep, lv)
Render(e) ==
  CASE e.op = "word" -> FieldPrefix(e.f) \o Word(e.t)
    [] e.op = "stop" -> FieldPrefix(e.f) \o "the"
    [] e.op = "multi" -> FieldPrefix(e.f) \o Join([i \in DOMAIN e.parts |-> [op |-> "word", f |-> "", t |-> e.parts[i]]], "-", 4)
    [] e.op = "prefix" -> FieldPrefix(e.f) \o Word(e.t) \o "*"
    [] e.op = "wild" -> FieldPrefix(e.f) \o Word(e.t)
    [] e.op = "phrase" -> FieldPrefix(e.f) \o "\"" \o Join([i \in DOMAIN e.words |-> [op |-> "word", f |-> "", t |-> e.words[i]]], " ", 4)
                          \o "\"" \o (IF e.slop = 0 THEN "" ELSE "~" \o ToString(e.slop))
    [] e.op = "range" -> FieldPrefix(e.f) \o (IF e.loexcl THEN "{" ELSE "[")
                         \o (IF e.haslo THEN Word(e.lo) \o " " ELSE "") \o "TO"
                         \o (IF e.hashi THEN " " \o Word(e.hi) ELSE "") \o (IF e.hiexcl THEN "}" ELSE "]")
    [] e.op = "nrange" -> FieldPrefix(e.f) \o (IF e.loexcl THEN "{" ELSE "[")
                         \o (IF e.haslo THEN Num(e.lo) \o " " ELSE "") \o "TO"
                         \o (IF e.hashi THEN " " \o Num(e.hi) ELSE "") \o (IF e.hiexcl THEN "}" ELSE "]")
    [] e.op = "cmp" -> FieldPrefix(e.f) \o e.rel \o Num(e.n)
    [] e.op = "boost" -> Sub(e.e, 5 - (IF e.e.op \in {"word", "phrase", "prefix", "wild"} THEN 1 ELSE 0)) \o "^" \o ToString(e.n)
    [] e.op = "fgroup" -> e.f \o ":(" \o Render(e.e) \o ")"
    [] e.op = "not" -> "NOT " \o Sub(e.e, 3)
    [] e.op = "and" -> Join(e.kids, " AND ", 3)
    [] e.op = "or" -> Join(e.kids, " OR ", 2)
    \* a chain of one and the same binary operator associates to the left and needs no parentheses there
    [] e.op = "andnot" -> Sub(e.a, IF e.a.op = "andnot" THEN 0 ELSE 1) \o " ANDNOT " \o Sub(e.b, 1)
    [] e.op = "andmaybe" -> Sub(e.a, IF e.a.op = "andmaybe" THEN 0 ELSE 1) \o " ANDMAYBE " \o Sub(e.b, 1)
    [] e.op = "require" -> Sub(e.a, IF e.a.op = "require" THEN 0 ELSE 1) \o " REQUIRE " \o Sub(e.b, 1)
    [] e.op = "group" -> Join(e.kids, " ", 0)
    [] e.op = "pm" -> LET RECURSIVE R(_)
                          R(i) == IF i > Len(e.items) THEN ""
                                  ELSE (IF i = 1 THEN "" ELSE " ") \o e.items[i].sign \o Render(e.items[i].e) \o R(i + 1)
                      IN R(1)

\* ---- documented meaning --------------------------------------------------------
\* a clause without a field prefix is searched in cfg.fields (one field: that field;
\* several: any of them - Or for MultifieldParser, DisjunctionMax for DisMaxParser)
Spread(cfg, f, mk(_)) ==
  IF f # "" THEN mk(f)
  ELSE IF Len(cfg.fields) = 1 THEN mk(cfg.fields[1])
  ELSE [op |-> cfg.multi, kids |-> [i \in DOMAIN cfg.fields |-> mk(cfg.fields[i])], b4 |-> 4]

\* nothing is left of a removed word, nor of a group of removed words
RECURSIVE Gone(_)
Gone(e) == \/ e.op = "stop"
           \/ e.op = "group" /\ \A i \in DOMAIN e.kids : Gone(e.kids[i])
           \/ e.op = "fgroup" /\ Gone(e.e)

RECURSIVE Meaning(_, _, _)
Meaning(e, cfg, f) ==
  LET fld == IF "f" \in DOMAIN e /\ e.f # "" THEN e.f ELSE f
      kids(op) == [op |-> op, kids |-> [i \in DOMAIN e.kids |-> Meaning(e.kids[i], cfg, f)], b4 |-> 4]
  IN CASE e.op = "word" -> Spread(cfg, fld, LAMBDA g : [op |-> "term", f |-> g, t |-> e.t, b4 |-> 4])
       \* the tokens of one typed word are joined the way the parser joins clauses (multitoken_query "default")
       [] e.op = "multi" -> [op |-> cfg.group, b4 |-> 4,
                             kids |-> [i \in DOMAIN e.parts |-> [op |-> "term", f |-> e.f, t |-> e.parts[i], b4 |-> 4]]]
       [] e.op = "prefix" -> Spread(cfg, fld, LAMBDA g : [op |-> "prefix", f |-> g, t |-> e.t, b4 |-> 4])
       [] e.op = "wild" -> Spread(cfg, fld, LAMBDA g : [op |-> "wildcard", f |-> g, t |-> e.t, b4 |-> 4])
       [] e.op = "phrase" -> Spread(cfg, fld, LAMBDA g :
            IF Len(e.words) = 1 THEN [op |-> "term", f |-> g, t |-> e.words[1], b4 |-> 4]
            ELSE [op |-> "phrase", f |-> g, words |-> e.words, slop |-> IF e.slop = 0 THEN 1 ELSE e.slop, b4 |-> 4])
       [] e.op = "range" -> Spread(cfg, fld, LAMBDA g :
            [op |-> "termrange", f |-> g, lo |-> e.lo, hi |-> e.hi, haslo |-> e.haslo, hashi |-> e.hashi,
             loexcl |-> e.loexcl, hiexcl |-> e.hiexcl, b4 |-> 4])
       [] e.op = "nrange" -> [op |-> "numrange", f |-> e.f, lo |-> e.lo, hi |-> e.hi, haslo |-> e.haslo,
                              hashi |-> e.hashi, loexcl |-> e.loexcl, hiexcl |-> e.hiexcl, b4 |-> 4]
       \* greater / less than: an open range; with an equals sign (on either side of the angle) the bound is included
       [] e.op = "cmp" -> LET lower == e.rel \in {">", ">=", "=>"}
                              incl == e.rel \in {">=", "=>", "<=", "=<"}
                          IN [op |-> "numrange", f |-> e.f, lo |-> e.n, hi |-> e.n, haslo |-> lower, hashi |-> ~lower,
                              loexcl |-> ~incl, hiexcl |-> ~incl, b4 |-> 4]
       [] e.op = "boost" -> Meaning(e.e, cfg, f)          \* a boost changes scores, not membership
       [] e.op = "fgroup" -> Meaning(e.e, cfg, e.f)
       [] e.op = "not" -> [op |-> "not", q |-> Meaning(e.e, cfg, f)]
       [] e.op = "and" -> kids("and")
       [] e.op = "or" -> kids("or")
       [] e.op = "group" -> LET live == SelectSeq(e.kids, LAMBDA x : ~Gone(x))
                            IN IF live = <<>> THEN [op |-> "null"]
                               ELSE [op |-> cfg.group, kids |-> [i \in DOMAIN live |-> Meaning(live[i], cfg, f)], b4 |-> 4]
       [] e.op = "stop" -> [op |-> "null"]
       [] e.op \in {"andnot", "andmaybe", "require"} ->
            [op |-> e.op, a |-> Meaning(e.a, cfg, f), b |-> Meaning(e.b, cfg, f)]
       [] e.op = "pm" ->
            \* required clauses must match, prohibited ones must not, the others only add to the score;
            \* without a required clause at least one of the others must match
            LET sel(sg) == SelectSeq(e.items, LAMBDA it : it.sign = sg)
                qs(sg) == [i \in DOMAIN sel(sg) |-> Meaning(sel(sg)[i].e, cfg, f)]
                opt == [op |-> "or", kids |-> qs(""), b4 |-> 4]
                pos == IF sel("+") = <<>> THEN opt
                       ELSE [op |-> "andmaybe", a |-> [op |-> "and", kids |-> qs("+"), b4 |-> 4], b |-> opt]
            IN IF sel("-") = <<>> THEN pos
               ELSE [op |-> "andnot", a |-> pos, b |-> [op |-> "or", kids |-> qs("-"), b4 |-> 4]]
=============================================================================
