----------------------------- MODULE ResultsCheck -----------------------------
(* Results are exact views of the matched set (C14).                            *)
(* The abstract index is QuerySem's, each document extended by                  *)
(*   k : [facet field -> Seq(rank)]   the document's value(s) for the field, as  *)
(*        ranks in the field's order (<<>>: no value; several: overlapping)      *)
(* TRACE_FILE: array of [idx, qs: array of [q, obs]]; kinds:                     *)
(*   sorted   keys = [[f, rev]..], grev, k, docs     search(sortedby=..., reverse=grev, limit=k) *)
(*            a key is a field (FieldFacet / StoredFieldFacet), "_score", ["_range", rev, buckets] *)
(*            (RangeFacet on num; buckets = [[lo, hi)..]) or ["_query", rev, qs] (QueryFacet whose  *)
(*            queries the driver keeps disjoint; the key is the query's place in name order)      *)
(*   groups   f, overlap, groups = [[key, [docnum..]]..]   Results.groups()  (key 0 = None)      *)
(*            f = "_range" with buckets / "_query" with qs: keys are bucket / query numbers       *)
(*   groupview f, overlap, maptype, sort, groups     the FacetMap views of an unlimited search's groups *)
(*   limited  k, rev, docs                           search(limit=k, reverse=rev[, groupedby=...]) by score *)
(*   resultsop op, q2, k1, k2, docs, n               r1.extend / filter / upgrade / upgrade_and_extend (r2) *)
(*   collapse f, n, k, sort, order, docs, collapsed   search(collapse=f, collapse_limit=n, limit=k[, sortedby][, collapse_order]) *)
(*   filtered filt, mask (queries or null), k, hits   search(filter=, mask=, limit=k)            *)
(*   filteredlen  ..., n                              len() of those results                     *)
(*   page     pagenum, pagelen, total, pagecount, offset, plen, docs   search_page              *)
(*   len      n                                       len(results)                               *)
EXTENDS QuerySem, Json, IOUtils
Cases == JsonDeserialize(IOEnv.TRACE_FILE)
VARIABLE c
Init == \E ci \in 1 .. Len(Cases) : \E qi \in 1 .. Len(Cases[ci].qs) : c = <<ci, qi>>
Next == FALSE /\ c' = c

Vals(idx, d, f) == IF f \in DOMAIN Doc(idx, d).k THEN Doc(idx, d).k[f] ELSE <<>>
HasVal(idx, d, f) == Vals(idx, d, f) # <<>>
Key1(idx, d, f) == Vals(idx, d, f)[1]          \* sort key of a single-valued field

\* ---- facet keys: rank (>= 1) of a document's key under a sort key, 0 when it has none ------------
\* (numeric values of the document: n.num for RangeFacet, n.whenv - seconds since 1999 - for DateRangeFacet)
BucketOfIn(idx, d, bs, nf) ==
  LET v == Doc(idx, d).n[nf]
      hit == {i \in DOMAIN bs : v # <<>> /\ bs[i][1] <= v[1] /\ v[1] < bs[i][2]}
  IN IF hit = {} THEN 0 ELSE CHOOSE i \in hit : \A j \in hit : i <= j
BucketOf(idx, d, bs) ==
  LET v == Doc(idx, d).n.num
      hit == {i \in DOMAIN bs : v # <<>> /\ bs[i][1] <= v[1] /\ v[1] < bs[i][2]}      \* start inclusive, end exclusive
  IN IF hit = {} THEN 0 ELSE CHOOSE i \in hit : \A j \in hit : i <= j
QueryKeys(idx, d, qs) == {i \in DOMAIN qs : d \in DOMAIN Denote(idx, qs[i])}
KeyRank(idx, key, d) ==
  CASE key[1] = "_range" -> BucketOf(idx, d, key[3])
    [] key[1] = "_query" -> LET ks == QueryKeys(idx, d, key[3]) IN IF ks = {} THEN 0 ELSE CHOOSE i \in ks : \A j \in ks : i <= j
    [] OTHER -> IF HasVal(idx, d, key[1]) THEN Key1(idx, d, key[1]) ELSE 0

\* lexicographic comparison over the requested keys, each ascending or reversed; document order on ties.
\* "_score" sorts by score, best first.
\* Documents without a value for a key all carry the same (absent) value: they tie with one another, and
\* the absent value has one place in the key's order.  The property does not say which place, so miss[i]
\* (an odd number; values are doubled ranks) is chosen existentially per key in SortedOK.
RECURSIVE KeyLess(_, _, _, _, _, _, _)
KeyLess(idx, m, keys, miss, i, a, b) ==
  IF i > Len(keys) THEN a < b
  ELSE LET f == keys[i][1]
           rev == keys[i][2]
           kv(d) == IF f = "_score" THEN 0 - m[d]
                    ELSE LET r == KeyRank(idx, keys[i], d) IN IF r > 0 THEN 2 * r ELSE miss[i]
           ka == kv(a)
           kb == kv(b)
       IN IF ka = kb THEN KeyLess(idx, m, keys, miss, i + 1, a, b)
          ELSE IF rev THEN ka > kb ELSE ka < kb
NoMiss(keys) == [i \in DOMAIN keys |-> 1]
SortSpec(idx, m, S, keys) == SetToSortSeq(S, LAMBDA a, b : KeyLess(idx, m, keys, NoMiss(keys), 1, a, b))
SortSpecM(idx, m, S, keys, miss) == SetToSortSeq(S, LAMBDA a, b : KeyLess(idx, m, keys, miss, 1, a, b))
MaxRank == 8
MissChoices(idx, S, keys) ==
  [i \in DOMAIN keys |-> IF keys[i][1] = "_score" \/ \A d \in S : KeyRank(idx, keys[i], d) > 0 THEN {1}
                         ELSE {2 * j + 1 : j \in 0 .. MaxRank}]
HasAll(idx, d, keys) == \A i \in DOMAIN keys : keys[i][1] = "_score" \/ KeyRank(idx, keys[i], d) > 0
Rev(s) == [i \in DOMAIN s |-> s[Len(s) + 1 - i]]
Prefix(s, k) == IF k = 0 \/ k >= Len(s) THEN s ELSE SubSeq(s, 1, k)

SortedOK(idx, m, o) ==
  LET S == DOMAIN m
      full == {d \in S : HasAll(idx, d, o.keys)}
      spec == SortSpec(idx, m, full, o.keys)
      want == IF o.grev THEN Rev(spec) ELSE spec
      ch == MissChoices(idx, S, o.keys)
  IN IF full = S
     THEN o.docs = Prefix(want, o.k)
     ELSE \E miss \in {f \in [DOMAIN o.keys -> UNION {ch[i] : i \in DOMAIN o.keys}] : \A i \in DOMAIN o.keys : f[i] \in ch[i]} :
            LET sp == SortSpecM(idx, m, S, o.keys, miss)
            IN o.docs = Prefix(IF o.grev THEN Rev(sp) ELSE sp, o.k)

\* groups: each matched document under each of its values (overlap) / its first value; no value -> key 0
GroupKeys(idx, d, f, overlap) == IF ~HasVal(idx, d, f) THEN {0}
                                 ELSE IF overlap THEN ToSet(Vals(idx, d, f)) ELSE {Key1(idx, d, f)}
GroupsSpec(idx, S, f, overlap) ==
  LET ks == UNION {GroupKeys(idx, d, f, overlap) : d \in S}
  IN [key \in ks |-> {d \in S : key \in GroupKeys(idx, d, f, overlap)}]
\* the keys a document may be grouped under: a range facet's bucket, the queries of a query facet it matches
\* (all of them when overlapping, otherwise one of them - the property does not say which), a field's value(s)
AllowedKeys(idx, d, o) ==
  CASE o.f = "_range" -> {BucketOf(idx, d, o.buckets)}
    [] o.f = "_drange" -> {BucketOfIn(idx, d, o.buckets, "whenv")}
    [] o.f = "_query" -> LET ks == QueryKeys(idx, d, o.qs) IN IF ks = {} THEN {0} ELSE ks
    [] o.f = "_multi1" -> GroupKeys(idx, d, "multi", TRUE)
    [] OTHER -> GroupKeys(idx, d, o.f, o.overlap)
GroupsOK(idx, m, o) ==
  LET S == DOMAIN m
      got == [i \in DOMAIN o.groups |-> o.groups[i][1]]
      under(d) == {o.groups[i][1] : i \in {j \in DOMAIN o.groups : d \in ToSet(o.groups[j][2])}}
  IN /\ Cardinality(ToSet(got)) = Len(got)
     /\ \A i \in DOMAIN o.groups : /\ ToSet(o.groups[i][2]) \subseteq S /\ o.groups[i][2] # <<>>
                                   /\ Cardinality(ToSet(o.groups[i][2])) = Len(o.groups[i][2])
     /\ \A d \in S : IF o.overlap \/ o.f \notin {"_query", "_multi1"} THEN under(d) = AllowedKeys(idx, d, o)
                     ELSE Cardinality(under(d)) = 1 /\ under(d) \subseteq AllowedKeys(idx, d, o)

\* collapse: walk the ranking, keep at most n documents per key; documents without a key are never collapsed
\* shared == TRUE is NOT the property: it describes the recorded finding "documents without a value
\* share the column default as their key" so that exactly that deviation can be recognised
RECURSIVE CollapseSeq(_, _, _, _, _, _)
CollapseSeq(idx, rank, f, n, i, shared) ==
  IF i = 0 THEN <<>>
  ELSE LET prev == CollapseSeq(idx, rank, f, n, i - 1, shared)
           d == rank[i]
           keyof(x) == IF HasVal(idx, x, f) THEN Key1(idx, x, f) ELSE 0
           same == Cardinality({j \in DOMAIN prev : (shared \/ (HasVal(idx, prev[j], f) /\ HasVal(idx, d, f)))
                                                    /\ keyof(prev[j]) = keyof(d)})
       IN IF (shared \/ HasVal(idx, d, f)) /\ same >= n THEN prev ELSE Append(prev, d)
\* the ranking that is collapsed: by score, or by the requested field (driver: every document has it)
\* (search(reverse=True) turns the whole ranking round; the best of a key are then the first in that direction)
CollapseRank(idx, m, o) == LET r == IF o.sort = <<>> THEN Rank(m) ELSE SortSpec(idx, m, DOMAIN m, o.sort)
                           IN IF "grev" \in DOMAIN o /\ o.grev THEN Rev(r) ELSE r
\* with a collapse order (driver: every document has the order key) the n best of a key are the first n of
\* its documents in that order (document order on ties); the ranking itself is not reordered
CollapseKept(idx, m, o) ==
  LET rank == CollapseRank(idx, m, o)
  IN IF o.order = <<>> THEN CollapseSeq(idx, rank, o.f, o.n, Len(rank), FALSE)
     ELSE LET S == DOMAIN m
              ord == SortSpec(idx, m, S, o.order)
              pos(d) == CHOOSE i \in DOMAIN ord : ord[i] = d
              keep(d) == \/ ~HasVal(idx, d, o.f)
                         \/ Cardinality({e \in S : /\ HasVal(idx, e, o.f) /\ Key1(idx, e, o.f) = Key1(idx, d, o.f)
                                                   /\ pos(e) < pos(d)}) < o.n
          IN SelectSeq(rank, keep)
CollapseOK(idx, m, o) ==
  LET kept == CollapseKept(idx, m, o)
  IN /\ o.docs = Prefix(kept, o.k)
     \* Results.collapsed_counts (recorded for unlimited searches): how many documents were left out
     /\ o.collapsed >= 0 => o.collapsed = Cardinality(DOMAIN m) - Len(kept)
     \* len() of collapsed results: the documents that remain, whatever the limit
     /\ o.len = Len(kept)

\* the other views of the groups (FacetMap types), over the unlimited ranking: each group's documents in result
\* order (OrderedList), as a set (UnorderedList), their number (Count), the first of them (Best)
GroupMembers(idx, m, o, key) ==
  LET spec == GroupsSpec(idx, DOMAIN m, o.f, o.overlap)
  IN SelectSeq(CollapseRank(idx, m, o), LAMBDA d : d \in spec[key])
GroupViewOK(idx, m, o) ==
  LET spec == GroupsSpec(idx, DOMAIN m, o.f, o.overlap)
      got == [i \in DOMAIN o.groups |-> o.groups[i][1]]
  IN /\ ToSet(got) = DOMAIN spec /\ Cardinality(ToSet(got)) = Len(got)
     /\ \A i \in DOMAIN o.groups :
          LET mem == GroupMembers(idx, m, o, o.groups[i][1])
              v == o.groups[i][2]
          IN CASE o.maptype = "list" -> v = mem
               [] o.maptype = "set" -> ToSet(v) = ToSet(mem) /\ Len(v) = Len(mem)
               [] o.maptype = "count" -> v = Len(mem)
               [] o.maptype = "best" -> v = mem[1]

\* combining two Results objects: r1 = search(q, limit=k1), r2 = search(q2, limit=k2)
ResultsOpFacts(idx, m, o) ==
  LET m2 == Denote(idx, o.q2)
      S1 == DOMAIN m
      S2 == DOMAIN m2
      top1 == Prefix(Rank(m), o.k1)
      top2 == Prefix(Rank(m2), o.k2)
      arein == SelectSeq(top1, LAMBDA d : d \in S2)
      notin == SelectSeq(top1, LAMBDA d : d \notin S2)
      other == SelectSeq(top2, LAMBDA d : d \notin S1)
  IN CASE o.op = "extend" -> [docs |-> top1 \o other, n |-> Cardinality(S1 \cup S2)]
       [] o.op = "filter" -> [docs |-> arein, n |-> Cardinality(S1 \cap S2)]
       [] o.op = "upgrade" -> [docs |-> arein \o notin, n |-> Cardinality(S1)]
       [] o.op = "downgrade" -> [docs |-> notin \o arein, n |-> Cardinality(S1)]
       [] o.op = "upgrade_and_extend" -> [docs |-> arein \o notin \o other, n |-> Cardinality(S1 \cup S2)]
ResultsOpOK(idx, m, o) == LET F == ResultsOpFacts(idx, m, o) IN o.docs = F.docs /\ o.n = F.n

\* the matches that a filter / mask given with the observation leave over (the matches themselves when none is given)
MaskedM(idx, m, o) ==
  IF "hasfilt" \notin DOMAIN o THEN m
  ELSE LET allow == IF o.hasfilt THEN DOMAIN Denote(idx, o.filt) ELSE DOMAIN m
           deny == IF o.hasmask THEN DOMAIN Denote(idx, o.mask) ELSE {}
       IN Restrict(m, (DOMAIN m \cap allow) \ deny)

FilteredOK(idx, m, o) ==
  LET allow == IF o.hasfilt THEN DOMAIN Denote(idx, o.filt) ELSE DOMAIN m
      deny == IF o.hasmask THEN DOMAIN Denote(idx, o.mask) ELSE {}
      m2 == Restrict(m, (DOMAIN m \cap allow) \ deny)
  IN IF o.kind = "filtered" THEN o.hits = Hits(m2, TopK(m2, o.k))
     ELSE o.n = Cardinality(DOMAIN m2)          \* "filteredlen": len() of the restricted results

CeilDiv(a, b) == (a + b - 1) \div b
PageFacts(m, o) ==
  LET total == Cardinality(DOMAIN m)
      pagecount == CeilDiv(total, o.pagelen)
      pn == IF pagecount = 0 THEN 1 ELSE IF o.pagenum < pagecount THEN o.pagenum ELSE pagecount
      offset == (pn - 1) * o.pagelen
      plen == IF offset + o.pagelen > total THEN total - offset ELSE o.pagelen
      rank == Rank(m)
  IN [total |-> total, pagecount |-> pagecount, offset |-> offset, plen |-> plen,
      docs |-> IF plen <= 0 THEN <<>> ELSE SubSeq(rank, offset + 1, offset + plen)]
PageOK(m, o) == LET F == PageFacts(m, o) IN
  /\ o.total = F.total /\ o.pagecount = F.pagecount /\ o.offset = F.offset /\ o.plen = F.plen /\ o.docs = F.docs

ObsOK(idx, m, q, o) ==
  CASE o.kind = "sorted" -> SortedOK(idx, m, o)
    [] o.kind = "groups" -> GroupsOK(idx, m, o)
    [] o.kind = "collapse" -> CollapseOK(idx, MaskedM(idx, m, o), o)    \* (collapsing what a filter / mask let through)
    [] o.kind = "groupview" -> GroupViewOK(idx, m, o)
    \* the hits of a limited, score-ranked search whatever else it computes (groups) and in either direction
    [] o.kind = "limited" -> o.docs = Prefix(IF o.rev THEN Rev(Rank(m)) ELSE Rank(m), o.k)
    [] o.kind = "resultsop" -> ResultsOpOK(idx, m, o)
    [] o.kind \in {"filtered", "filteredlen"} -> FilteredOK(idx, m, o)
    [] o.kind = "page" -> PageOK(m, o)
    [] o.kind = "len" -> o.n = Cardinality(DOMAIN m)
    [] o.kind = "flag" -> o.value
    [] o.kind = "error" -> FALSE

Expected(idx, m, q, o) ==
  CASE o.kind = "sorted" -> [order_of_documents_with_values |->
                               LET full == {d \in DOMAIN m : HasAll(idx, d, o.keys)}
                                   spec == SortSpec(idx, m, full, o.keys)
                               IN IF o.grev THEN Rev(spec) ELSE spec,
                             matched |-> Cardinality(DOMAIN m)]
    [] o.kind = "groups" -> IF o.f \in {"_range", "_query", "_drange", "_multi1"}
                            THEN [allowed_keys |-> [d \in DOMAIN m |-> AllowedKeys(idx, d, o)]]
                            ELSE [groups |-> GroupsSpec(idx, DOMAIN m, o.f, o.overlap)]
    [] o.kind = "collapse" -> LET mm == MaskedM(idx, m, o)
                                  rk == CollapseRank(idx, mm, o) IN
                              [docs |-> Prefix(CollapseKept(idx, mm, o), o.k),
                               collapsed |-> Cardinality(DOMAIN mm) - Len(CollapseKept(idx, mm, o)),
                               len |-> Len(CollapseKept(idx, mm, o)),
                               docs_if_valueless_documents_share_a_key |->
                                  Prefix(CollapseSeq(idx, rk, o.f, o.n, Len(rk), TRUE), o.k),
                               len_if_valueless_documents_share_a_key |-> Len(CollapseSeq(idx, rk, o.f, o.n, Len(rk), TRUE))]
    [] o.kind = "groupview" -> LET spec == GroupsSpec(idx, DOMAIN m, o.f, o.overlap) IN
                               [groups_in_result_order |-> [key \in DOMAIN spec |-> GroupMembers(idx, m, o, key)]]
    [] o.kind = "limited" -> [docs |-> Prefix(IF o.rev THEN Rev(Rank(m)) ELSE Rank(m), o.k)]
    [] o.kind = "resultsop" -> ResultsOpFacts(idx, m, o)
    [] o.kind = "page" -> PageFacts(m, o)
    [] o.kind = "len" -> [n |-> Cardinality(DOMAIN m)]
    [] o.kind \in {"filtered", "filteredlen"} ->
         LET allow == IF o.hasfilt THEN DOMAIN Denote(idx, o.filt) ELSE DOMAIN m
             deny == IF o.hasmask THEN DOMAIN Denote(idx, o.mask) ELSE {}
             m2 == Restrict(m, (DOMAIN m \cap allow) \ deny)
         IN [hits |-> Hits(m2, TopK(m2, o.k)), n |-> Cardinality(DOMAIN m2)]
    [] OTHER -> [ranking |-> Hits(m, Rank(m))]

Inv ==
  LET cs == Cases[c[1]]
      qo == cs.qs[c[2]]
      m == Denote(cs.idx, qo.q)
  IN \A j \in DOMAIN qo.obs :
       \/ ObsOK(cs.idx, m, qo.q, qo.obs[j])
       \/ PrintT(<<"REJECT", ToJson([tid |-> c[1], qi |-> c[2], oi |-> j,
                                      expected |-> Expected(cs.idx, m, qo.q, qo.obs[j])])>>)
=============================================================================
