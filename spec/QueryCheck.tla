----------------------------- MODULE QueryCheck -----------------------------
(* Judges observations recorded from real searches against QuerySem.          *)
(* TRACE_FILE: array of cases [idx, qs: array of [q, obs: array of obs]].     *)
(* obs kinds:                                                                  *)
(*   ids    : ids    = ascending docnums some access path returned            *)
(*   count  : n      = len(results) / count reported by an access path        *)
(*   flag   : value  = a boolean fact about the code that must hold            *)
(*   atleast: n      = a reported upper bound on the number of matches         *)
(*   ranked : k, hits = [[docnum, score]..] of search(limit=k) (k=0: None)    *)
(*            cmp = "full": documents, scores and order must be the spec's     *)
(*            cmp = "members": only which/how many documents (C01)             *)
(* A REJECT line carries what the specification expected instead.             *)
EXTENDS QuerySem, Json, IOUtils
Cases == JsonDeserialize(IOEnv.TRACE_FILE)
VARIABLE c
Init == \E ci \in 1 .. Len(Cases) : \E qi \in 1 .. Len(Cases[ci].qs) : c = <<ci, qi>>
Next == FALSE /\ c' = c

DocsOf(hits) == [i \in DOMAIN hits |-> hits[i][1]]

Expected(m, q, o) ==
  CASE o.kind = "ids" -> [ids |-> Ids(m)]
    [] o.kind = "count" -> [n |-> Cardinality(DOMAIN m)]
    [] o.kind = "ranked" -> [hits |-> Hits(m, TopK(m, o.k)), scored |-> Scored(q)]
    [] o.kind = "error" -> [noerror |-> TRUE]
    [] o.kind = "list" -> [list |-> Hits(m, Ids(m)), scored |-> Scored(q)]
    [] o.kind = "flag" -> [value |-> TRUE]
    [] o.kind = "atleast" -> [n |-> Cardinality(DOMAIN m)]

ObsOK(m, q, o) ==
  CASE o.kind = "ids" -> o.ids = Ids(m)
    [] o.kind = "count" -> o.n = Cardinality(DOMAIN m)
    [] o.kind = "error" -> FALSE      \* a search of a well-formed query never raises
    [] o.kind = "flag" -> o.value      \* a boolean fact observed on the code that must be true (e.g. idempotence)
    [] o.kind = "atleast" -> o.n >= Cardinality(DOMAIN m)     \* estimate_size() is an upper bound
    [] o.kind = "list" ->             \* what stepping a top-level matcher delivered, in docnum order
         IF Scored(q) /\ o.cmp = "full" THEN o.list = Hits(m, Ids(m))
         ELSE [i \in DOMAIN o.list |-> o.list[i][1]] = Ids(m)
    [] o.kind = "ranked" ->
         IF Scored(q) /\ o.cmp = "full" THEN o.hits = Hits(m, TopK(m, o.k))
         ELSE \* scores not fixed by the documentation: membership and size only
              /\ ToSet(DocsOf(o.hits)) \subseteq DOMAIN m
              /\ Len(o.hits) = Len(TopK(m, o.k))
              /\ Cardinality(ToSet(DocsOf(o.hits))) = Len(o.hits)

Inv ==
  LET cs == Cases[c[1]]
      qo == cs.qs[c[2]]
      m == Denote(cs.idx, qo.q)
  IN \A j \in DOMAIN qo.obs :
       \/ ObsOK(m, qo.q, qo.obs[j])
       \/ PrintT(<<"REJECT", ToJson([tid |-> c[1], qi |-> c[2], oi |-> j,
                                      expected |-> Expected(m, qo.q, qo.obs[j])])>>)
=============================================================================
