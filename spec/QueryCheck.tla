----------------------------- MODULE QueryCheck -----------------------------
(* Judges observations recorded from real searches against QuerySem.          *)
(* TRACE_FILE: array of cases [idx, qs: array of [q, obs: array of obs]].     *)
(* obs kinds:                                                                  *)
(*   ids    : ids    = ascending docnums some access path returned            *)
(*   count  : n      = len(results) / count reported by an access path        *)
(*   flag   : value  = a boolean fact about the code that must hold            *)
(*   atleast: n      = a reported upper bound on the number of matches         *)
(*   ranked : k, hits = [[docnum, score]..] of search(limit=k) (k=0: None)    *)
(*            cmp = "full": documents, scores and order must be the spec's     *)
(*            cmp = "members": only which/how many documents (C01)             *)
(*   layouts: maps = per segment layout of one deletion-free corpus, the hits   *)
(*            [[document, score rank]..] of the same query (documents named by  *)
(*            their docnum in the first layout): all layouts must agree (C09)    *)
(*   matchedterms: hits = [[docnum, [[field, term]..]]..] of search(terms=True):  *)
(*            Hit.matched_terms() contains the terms of the matching sub-clauses    *)
(*            and only terms of the query that occur in the document               *)
(*   scoresub: hits = [[docnum, score]..] some search returned: each score must   *)
(*            be the documented one, whatever else was or was not returned (C09)  *)
(*   termstats: f, t, n, df, cf4, totlen, docs = [[docnum, weight*4, length]..]  *)
(*            the statistics the weighting formulas are fed with (C09)           *)
(* A REJECT line carries what the specification expected instead.             *)
EXTENDS QuerySem, Json, IOUtils
Cases == JsonDeserialize(IOEnv.TRACE_FILE)
VARIABLE c
Init == \E ci \in 1 .. Len(Cases) : \E qi \in 1 .. Len(Cases[ci].qs) : c = <<ci, qi>>
Next == FALSE /\ c' = c

DocsOf(hits) == [i \in DOMAIN hits |-> hits[i][1]]

\* ---- spelling suggestions (C19) -----------------------------------------------
\* o = [f, word, k, p, limit, list]: list = the suggested terms in the order returned.
\* A suggestion is an existing term within distance k sharing the prefix, never the word
\* itself; closer terms come first, more frequent ones first among equally close ones;
\* a limit cuts the list without dropping a strictly better candidate.
TermFreq(idx, f, t) == LET RECURSIVE S(_)
                           S(d) == IF d < 0 THEN 0 ELSE S(d - 1) + Tf(idx, d, f, t)
                       IN S(Len(idx.docs) - 1)
\* (o.lev = TRUE is NOT the property: plain Levenshtein distance, used only to recognise the recorded finding
\* "segment readers expand without transpositions" precisely)
SugDist(o, a, b) == IF "lev" \in DOMAIN o /\ o.lev THEN Lev(a, b) ELSE DL(a, b)
SugCand(idx, o) == {t \in Lexicon(idx, o.f) : /\ SugDist(o, o.word, t) <= o.k
                                              /\ Len(t) >= Min2(o.p, Len(o.word))
                                              /\ SubSeq(t, 1, Min2(o.p, Len(o.word))) = SubSeq(o.word, 1, Min2(o.p, Len(o.word)))}
\* (o.byfreq = TRUE is NOT the property either: the ranking of the recorded finding "suggestions are ranked with
\* the constant maxdist, so by frequency only, and include the word itself" - used only to recognise that finding
\* precisely: an observation is an instance of it iff it is exactly right under this ranking)
ByFreq(o) == "byfreq" \in DOMAIN o /\ o.byfreq
SugBetter(idx, o, a, b) ==      \* a is strictly better than b
  IF ByFreq(o) THEN TermFreq(idx, o.f, a) > TermFreq(idx, o.f, b)
  ELSE \/ SugDist(o, o.word, a) < SugDist(o, o.word, b)
       \/ (SugDist(o, o.word, a) = SugDist(o, o.word, b) /\ TermFreq(idx, o.f, a) > TermFreq(idx, o.f, b))
SuggestFacts(idx, o) ==
  LET L == o.list
      cand == SugCand(idx, o)
      LS == ToSet(L)
  IN [existing_within_distance |-> LS \subseteq cand /\ Cardinality(LS) = Len(L),
      not_the_word_itself |-> ByFreq(o) \/ o.word \notin LS,
      closer_then_more_frequent_first |-> \A i, j \in DOMAIN L : i < j => ~SugBetter(idx, o, L[j], L[i]),
      \* a list shorter than the limit was not cut: it names every candidate
      nothing_missing_below_the_limit |-> Len(L) < o.limit => (cand \ {o.word}) \subseteq LS,
      limit_keeps_the_best |-> /\ Len(L) <= o.limit
                               /\ \A t \in (cand \ (IF ByFreq(o) THEN {} ELSE {o.word})) \ LS :
                                       /\ Len(L) >= o.limit
                                       /\ \A x \in LS \ (IF ByFreq(o) THEN {} ELSE {o.word}) : ~SugBetter(idx, o, t, x)]

\* ---- query correction (Searcher.correct_query; C19) -------------------------------------
\* o = [f, words, k, p, qterms, sterms]: words = the terms of the typed query in order, qterms = the terms of
\* the corrected query, sterms = the words of the corrected string.  A word that is a term of the field is
\* left alone; any other word is replaced by an existing term within the distance (sharing the prefix) when
\* there is one, and left alone otherwise; the corrected string says what the corrected query says.
CorrectFacts(idx, o) ==
  LET cand(w) == SugCand(idx, [f |-> o.f, word |-> w, k |-> o.k, p |-> o.p]) \ {w}
      wordOK(w, r) == IF w \in Lexicon(idx, o.f) THEN r = w
                      ELSE IF cand(w) = {} THEN r = w ELSE r \in cand(w)
  IN [one_term_per_word |-> Len(o.qterms) = Len(o.words) /\ Len(o.sterms) = Len(o.words),
      words_corrected_as_specified |-> Len(o.qterms) = Len(o.words) =>
                                         \A i \in DOMAIN o.words : wordOK(o.words[i], o.qterms[i]),
      string_agrees_with_query |-> [i \in DOMAIN o.sterms |-> o.sterms[i]] = [i \in DOMAIN o.qterms |-> o.qterms[i]]]

\* ---- matched terms of a hit (search(terms=True); C01/C11) ------------------------
\* The terms a query is made of (multi-term clauses: the terms they expand to), and of those the ones
\* that occur in document d: that is what Hit.matched_terms() must report, no more and no less.
Fuzzy2(q, t) == /\ DL(q.t, t) <= q.maxdist
                /\ Len(t) >= Min2(q.prefix, Len(q.t))
                /\ SubSeq(t, 1, Min2(q.prefix, Len(q.t))) = SubSeq(q.t, 1, Min2(q.prefix, Len(q.t)))
\* A term is reported for a hit when the matcher of that term stands on the document - which is the case
\* exactly for the terms of the sub-clauses that themselves match the document.
RECURSIVE MatchedTerms(_, _, _)
MatchedTerms(idx, q, d) ==
  LET hit(x) == d \in DOMAIN Denote(idx, x)
      occ(f, T) == {<<f, t>> : t \in {u \in T : Tf(idx, d, f, u) > 0}}
  IN CASE q.op = "term" -> occ(q.f, {q.t})
       [] q.op \in {"null", "every", "numrange"} -> {}
       [] q.op = "and" -> IF hit(q) THEN UNION {MatchedTerms(idx, q.kids[i], d) : i \in DOMAIN q.kids} ELSE {}
       [] q.op \in {"or", "dismax"} -> UNION {MatchedTerms(idx, q.kids[i], d) : i \in DOMAIN q.kids}
       [] q.op = "const" -> MatchedTerms(idx, q.q, d)
       [] q.op = "andnot" -> IF hit(q) THEN MatchedTerms(idx, q.a, d) ELSE {}
       [] q.op = "andmaybe" -> IF hit(q.a) THEN MatchedTerms(idx, q.a, d) \cup MatchedTerms(idx, q.b, d) ELSE {}
       \* (the second operand of Require only filters; whether its terms are reported is not fixed)
       [] q.op = "require" -> IF hit(q) THEN MatchedTerms(idx, q.a, d) ELSE {}
       [] q.op = "phrase" -> IF hit(q) THEN {<<q.f, q.words[i]>> : i \in DOMAIN q.words} ELSE {}
       [] q.op = "prefix" -> occ(q.f, {u \in Lexicon(idx, q.f) : IsPrefixOf(q.t, u)})
       [] q.op = "wildcard" -> IF \A i \in DOMAIN q.t : q.t[i] = -2 THEN {}      \* "*" is Every(field)
                               ELSE occ(q.f, {u \in Lexicon(idx, q.f) : Glob(q.t, u)})
       [] q.op = "termrange" -> occ(q.f, {u \in Lexicon(idx, q.f) : TermInRange(u, q)})
\* every term the query is made of (multi-term clauses: the terms they expand to)
RECURSIVE TermLeaves(_, _)
TermLeaves(idx, q) ==
  CASE q.op = "term" -> {<<q.f, q.t>>}
    [] q.op \in {"null", "every", "numrange"} -> {}
    [] q.op \in {"and", "or", "dismax"} -> UNION {TermLeaves(idx, q.kids[i]) : i \in DOMAIN q.kids}
    [] q.op = "const" -> TermLeaves(idx, q.q)
    [] q.op \in {"andnot", "andmaybe", "require"} -> TermLeaves(idx, q.a) \cup TermLeaves(idx, q.b)
    [] q.op = "phrase" -> {<<q.f, q.words[i]>> : i \in DOMAIN q.words}
    [] q.op = "prefix" -> {<<q.f, t>> : t \in {u \in Lexicon(idx, q.f) : IsPrefixOf(q.t, u)}}
    [] q.op = "wildcard" -> {<<q.f, t>> : t \in {u \in Lexicon(idx, q.f) : Glob(q.t, u)}}
    [] q.op = "termrange" -> {<<q.f, t>> : t \in {u \in Lexicon(idx, q.f) : TermInRange(u, q)}}
\* What Hit.matched_terms() reports lies between the terms of the sub-clauses that match the document
\* (their matchers necessarily stand on it) and the query's terms that occur in the document at all
\* (a clause that does not match may or may not have been moved past the document).
MatchedOK(idx, m, q, o) ==
  /\ (o.partial \/ {o.hits[i][1] : i \in DOMAIN o.hits} = DOMAIN m)       \* partial: the hits of a limited search
  /\ {o.hits[i][1] : i \in DOMAIN o.hits} \subseteq DOMAIN m
  /\ \A i \in DOMAIN o.hits :
        LET got == {<<o.hits[i][2][j][1], o.hits[i][2][j][2]>> : j \in DOMAIN o.hits[i][2]}
            d == o.hits[i][1]
        \* (in a limited search, clauses that can no longer change the outcome are skipped ahead and their
        \* terms are then not reported: only the upper bound is asked there)
        IN /\ (o.partial \/ MatchedTerms(idx, q, d) \subseteq got)
           /\ got \subseteq {ft \in TermLeaves(idx, q) : Tf(idx, d, ft[1], ft[2]) > 0}

\* ---- statistics behind the weighting formulas (C09) ---------------------------
FLen(idx, d, f) == Cardinality({i \in DOMAIN Toks(idx, d, f) : Toks(idx, d, f)[i] # Gap})
RECURSIVE SumFn(_, _)
SumFn(F, S) == IF S = {} THEN 0 ELSE LET x == CHOOSE y \in S : TRUE IN F[x] + SumFn(F, S \ {x})
TermStats(idx, f, t) ==
  LET has == {d \in DocIds(idx) : Tf(idx, d, f, t) > 0}
  IN [n |-> Cardinality(DocIds(idx)),
      df |-> Cardinality(has),
      cf4 |-> SumFn([d \in has |-> Tf(idx, d, f, t) * Doc(idx, d).b4], has),
      totlen |-> SumFn([d \in DocIds(idx) |-> FLen(idx, d, f)], DocIds(idx)),
      docs |-> SetToSortSeq({<<d, Tf(idx, d, f, t) * Doc(idx, d).b4, FLen(idx, d, f)>> : d \in has},
                            LAMBDA a, b : a[1] < b[1])]
LayoutsOK(m, o) == /\ \A i \in DOMAIN o.maps : ToSet(o.maps[i]) = ToSet(o.maps[1])
                   /\ {p[1] : p \in ToSet(o.maps[1])} = DOMAIN m
                   /\ \A i \in DOMAIN o.maps : Cardinality(ToSet(o.maps[i])) = Len(o.maps[i])

\* ---- rank regime of C05: any weighting model --------------------------------------------------
\* o.full = the code's own exhaustive ranking [[doc, score rank]..] (scores interned to ranks, higher = better),
\* o.hits = what search(limit = o.k) returned.  The exhaustive ranking lists exactly the matching documents, best
\* first (document order on ties), and a limited search returns its first k entries.
TopPrefixOK(m, o) ==
  LET n == Len(o.full)
      pre == IF o.k >= n THEN o.full ELSE SubSeq(o.full, 1, o.k)
  IN /\ {o.full[i][1] : i \in DOMAIN o.full} = DOMAIN m
     /\ n = Cardinality(DOMAIN m)
     /\ \A i \in 1 .. n - 1 : \/ o.full[i][2] > o.full[i + 1][2]
                              \/ (o.full[i][2] = o.full[i + 1][2] /\ o.full[i][1] < o.full[i + 1][1])
     /\ [i \in DOMAIN o.hits |-> <<o.hits[i][1], o.hits[i][2]>>] = [i \in DOMAIN pre |-> <<pre[i][1], pre[i][2]>>]

Expected(idx, m, q, o) ==
  CASE o.kind = "ids" -> [ids |-> Ids(m)]
    [] o.kind = "layouts" -> [same_in_every_layout |-> TRUE, documents |-> Ids(m)]
    [] o.kind = "scoresub" -> [scores |-> Hits(m, Ids(m))]
    [] o.kind = "matchedterms" -> [hits |-> [i \in DOMAIN Ids(m) |-> <<Ids(m)[i], SetToSeq(MatchedTerms(idx, q, Ids(m)[i]))>>]]
    [] o.kind = "termstats" -> TermStats(idx, o.f, o.t)
    [] o.kind = "count" -> [n |-> Cardinality(DOMAIN m)]
    [] o.kind = "ranked" -> [hits |-> Hits(m, TopK(m, o.k)), scored |-> Scored(q)]
    [] o.kind = "error" -> [noerror |-> TRUE]
    [] o.kind = "list" -> [list |-> Hits(m, Ids(m)), scored |-> Scored(q)]
    [] o.kind = "flag" -> [value |-> TRUE]
    [] o.kind = "suggest" -> SuggestFacts(idx, o)
    [] o.kind = "correct" -> CorrectFacts(idx, o)
    [] o.kind = "atleast" -> [n |-> Cardinality(DOMAIN m)]
    [] o.kind = "topprefix" -> [matching_documents |-> Ids(m),
                                prefix_of_the_exhaustive_ranking |-> IF o.k >= Len(o.full) THEN o.full ELSE SubSeq(o.full, 1, o.k)]

ObsOK(idx, m, q, o) ==
  CASE o.kind = "ids" -> o.ids = Ids(m)
    [] o.kind = "layouts" -> LayoutsOK(m, o)
    [] o.kind = "matchedterms" -> MatchedOK(idx, m, q, o)
    [] o.kind = "scoresub" ->      \* whatever a limited search returned carries the documented score (C09)
         Scored(q) => \A i \in DOMAIN o.hits : o.hits[i][1] \in DOMAIN m /\ m[o.hits[i][1]] = o.hits[i][2]
    [] o.kind = "termstats" -> LET S == TermStats(idx, o.f, o.t) IN
         /\ o.n = S.n /\ o.df = S.df /\ o.cf4 = S.cf4 /\ o.totlen = S.totlen /\ o.docs = S.docs
    [] o.kind = "count" -> o.n = Cardinality(DOMAIN m)
    [] o.kind = "topprefix" -> TopPrefixOK(m, o)
    [] o.kind = "error" -> FALSE      \* a search of a well-formed query never raises
    [] o.kind = "correct" -> LET F == CorrectFacts(idx, o) IN
         F.one_term_per_word /\ F.words_corrected_as_specified /\ F.string_agrees_with_query
    [] o.kind = "suggest" -> LET F == SuggestFacts(idx, o) IN
                                /\ F.existing_within_distance /\ F.not_the_word_itself /\ F.nothing_missing_below_the_limit
                                /\ F.closer_then_more_frequent_first /\ F.limit_keeps_the_best
    [] o.kind = "flag" -> o.value      \* a boolean fact observed on the code that must be true (e.g. idempotence)
    [] o.kind = "atleast" -> o.n >= Cardinality(DOMAIN m)     \* estimate_size() is an upper bound
    [] o.kind = "list" ->             \* what stepping a top-level matcher delivered, in docnum order
         IF Scored(q) /\ o.cmp = "full" THEN o.list = Hits(m, Ids(m))
         ELSE [i \in DOMAIN o.list |-> o.list[i][1]] = Ids(m)
    [] o.kind = "ranked" ->
         IF Scored(q) /\ o.cmp = "full" THEN o.hits = Hits(m, TopK(m, o.k))
         ELSE \* scores not fixed by the documentation: membership and size only
              /\ ToSet(DocsOf(o.hits)) \subseteq DOMAIN m
              /\ Len(o.hits) = Len(TopK(m, o.k))
              /\ Cardinality(ToSet(DocsOf(o.hits))) = Len(o.hits)

Inv ==
  LET cs == Cases[c[1]]
      qo == cs.qs[c[2]]
      m == Denote(cs.idx, qo.q)
  IN \A j \in DOMAIN qo.obs :
       \/ ObsOK(cs.idx, m, qo.q, qo.obs[j])
       \/ PrintT(<<"REJECT", ToJson([tid |-> c[1], qi |-> c[2], oi |-> j,
                                      expected |-> Expected(cs.idx, m, qo.q, qo.obs[j])])>>)
=============================================================================
