----------------------------- MODULE IndexStore -----------------------------
(* The on-disk commit / reader / lock protocol of a Whoosh index directory.    *)
(* W: src/whoosh/writing.py (SegmentWriter), index.py (TOC, clean_files,        *)
(*    FileIndex.reader), filedb/filestore.py, util/filelock.py, codec/base.py   *)
(*                                                                             *)
(* One action per storage operation.  Every action is  Guard /\ Effect; the     *)
(* guards are the protocol rules (what a writer/reader may do when), the        *)
(* invariants are what must be true on disk in every state - in particular      *)
(* after a Crash at any point.  The same actions are used                       *)
(*   - by the design model below (writers/readers run the commit program,       *)
(*     TLC explores all interleavings and crash points), and                    *)
(*   - by IndexStoreTrace.tla, which replays the storage operations recorded    *)
(*     from the real code through exactly these actions.                        *)
(*                                                                             *)
(* File names are tuples: <<"toc",g>>, <<"tmptoc",g,x>> (x: unique per writer -  *)
(* the real name carries a timestamp), <<"seg",s,ext>>.                          *)
EXTENDS Naturals, Integers, Sequences, FiniteSets, FiniteSetsExt, TLC

CONSTANTS Writers, Readers, Keys, MaxGen, MaxSeg, NoOne

VARIABLES
  files,     \* file name -> "open" | "closed"   (present in the directory)
  toc,       \* gen -> [segs: Seq([id, n, del, compound])]  content of each TOC ever committed
  content,   \* gen -> set of live documents <<key, uid>>: the logical state each commit established
             \* (key and uid are the values of two unique fields; uid = 0: field not supplied)
  lock,      \* holder of the write lock, or NoOne
  w,         \* writer -> record (see WInit)
  r,         \* reader -> record (see RInit)
  nseg,      \* segment ids handed out so far (model only)
  clean,     \* TRUE from a completed commit until a writer next creates a file
  todo       \* writer/reader -> remaining program (model only; the trace spec leaves it alone)
vars == <<files, toc, content, lock, w, r, nseg, clean>>
allvars == <<files, toc, content, lock, w, r, nseg, clean, todo>>

\* ---- helpers -----------------------------------------------------------------
IsToc(f) == f[1] = "toc"
IsSeg(f) == f[1] = "seg"
TocGens == {f[2] : f \in {x \in DOMAIN files : IsToc(x)}}
Latest == IF TocGens = {} THEN -1 ELSE Max(TocGens)
SegIds(t) == {t.segs[i].id : i \in DOMAIN t.segs}
LiveCount(t) == LET Sum[i \in 0 .. Len(t.segs)] ==
                      IF i = 0 THEN 0 ELSE Sum[i - 1] + t.segs[i].n - Cardinality(t.segs[i].del)
                IN Sum[Len(t.segs)]
SegComplete(s) ==      \* every file a reader needs for segment s is there and fully written
  IF s.compound THEN <<"seg", s.id, "seg">> \in DOMAIN files /\ files[<<"seg", s.id, "seg">>] = "closed"
  ELSE /\ \A x \in {"trm", "pst"} : <<"seg", s.id, x>> \in DOMAIN files
       /\ \A f \in DOMAIN files : (IsSeg(f) /\ f[2] = s.id) => files[f] = "closed"
Referenced(f) ==       \* f is needed to open the latest committed generation
  \/ (IsToc(f) /\ f[2] = Latest)
  \/ (IsSeg(f) /\ Latest >= 0 /\ f[2] \in SegIds(toc[Latest]))
Put(fn, k, v) == IF k \in DOMAIN fn THEN [fn EXCEPT ![k] = v] ELSE fn @@ (k :> v)
Drop(fn, k) == [x \in DOMAIN fn \ {k} |-> fn[x]]

\* ---- writer --------------------------------------------------------------------
WInit == [pc |-> "idle", gen |-> -1, adds |-> {}, dels |-> {}, mine |-> {}]

G_Lock(p) == lock = NoOne /\ w[p].pc = "idle"
WLock(p) == /\ G_Lock(p)
            /\ lock' = p
            /\ w' = [w EXCEPT ![p] = [WInit EXCEPT !.pc = "locked"]]
            /\ UNCHANGED <<files, toc, content, r, nseg, clean>>

\* a failed attempt: somebody else must be holding the lock
G_LockFail(p) == lock # NoOne /\ lock # p /\ w[p].pc = "idle"
WLockFail(p) == G_LockFail(p) /\ UNCHANGED vars

\* reading the TOC: only with the lock held, and it is the newest generation
G_ReadToc(p, g) == lock = p /\ w[p].pc = "locked" /\ g = Latest /\ g >= 0 /\ files[<<"toc", g>>] = "closed"
WReadToc(p, g) == /\ G_ReadToc(p, g)
                  /\ w' = [w EXCEPT ![p].pc = "writing", ![p].gen = g]
                  /\ UNCHANGED <<files, toc, content, lock, r, nseg, clean>>

\* document-level calls buffered by the writer (from the API, not from storage).
\* Deletions act on the documents committed in the generation the writer read.
Base(p) == content[w[p].gen]
WAdd(p, k) == /\ w[p].pc = "writing"
              /\ w' = [w EXCEPT ![p].adds = @ \cup {<<k, 0>>}]
              /\ UNCHANGED <<files, toc, content, lock, r, nseg, clean>>
\* add_document of a key that may already be live: nothing is deleted, the documents coexist (they are
\* told apart by their second field)
WAddDup(p, k, u) == /\ w[p].pc = "writing"
                    /\ w' = [w EXCEPT ![p].adds = @ \cup {<<k, u>>}]
                    /\ UNCHANGED <<files, toc, content, lock, r, nseg, clean>>
WDel(p, k) == /\ w[p].pc = "writing"
              /\ w' = [w EXCEPT ![p].dels = @ \cup {d \in Base(p) : d[1] = k}]
              /\ UNCHANGED <<files, toc, content, lock, r, nseg, clean>>
\* update_document: delete the committed documents carrying the same value in ANY unique
\* field, then add (C07)
WUpdate(p, k, u) ==
  /\ w[p].pc = "writing"
  /\ w' = [w EXCEPT ![p].dels = @ \cup {d \in Base(p) : d[1] = k \/ (u # 0 /\ d[2] = u)},
                    ![p].adds = @ \cup {<<k, u>>}]
  /\ UNCHANGED <<files, toc, content, lock, r, nseg, clean>>

\* what delete_by_term / delete_by_query must return: the selected documents that are still
\* live for this writer (deletions made earlier by the same writer no longer count)
DeleteCount(p, K) == Cardinality({d \in Base(p) \ w[p].dels : d[1] \in K})
WDelMany(p, K) == /\ w[p].pc = "writing"
                  /\ w' = [w EXCEPT ![p].dels = @ \cup {d \in Base(p) : d[1] \in K}]
                  /\ UNCHANGED <<files, toc, content, lock, r, nseg, clean>>

\* new segment files are created under the lock, under names no TOC refers to
G_Create(p, f) == /\ lock = p /\ w[p].pc = "writing" /\ IsSeg(f) /\ f \notin DOMAIN files
                  /\ \A g \in DOMAIN toc : f[2] \notin SegIds(toc[g])
WCreate(p, f) == /\ G_Create(p, f)
                 /\ files' = Put(files, f, "open")
                 /\ w' = [w EXCEPT ![p].mine = @ \cup {f}]
                 /\ clean' = FALSE
                 /\ UNCHANGED <<toc, content, lock, r, nseg>>

G_Close(p, f) == f \in w[p].mine /\ f \in DOMAIN files /\ files[f] = "open"
WClose(p, f) == /\ G_Close(p, f)
                /\ files' = [files EXCEPT ![f] = "closed"]
                /\ UNCHANGED <<toc, content, lock, w, r, nseg, clean>>

\* a writer reads old segments (merging) or its own finished parts (assembling)
G_WOpen(p, f) == f \in DOMAIN files /\ files[f] = "closed"
WOpen(p, f) == G_WOpen(p, f) /\ UNCHANGED vars

\* before the TOC rename a writer may delete only parts of its own new segment,
\* and only once the compound file holding them is complete
G_DeletePart(p, f) == /\ lock = p /\ w[p].pc = "writing" /\ f \in w[p].mine /\ f \in DOMAIN files
                      /\ f[3] # "seg"
                      /\ <<"seg", f[2], "seg">> \in DOMAIN files /\ files[<<"seg", f[2], "seg">>] = "closed"
WDeletePart(p, f) == /\ G_DeletePart(p, f)
                     /\ files' = Drop(files, f)
                     /\ UNCHANGED <<toc, content, lock, w, r, nseg, clean>>

G_TocTmpCreate(p, f) == /\ lock = p /\ w[p].pc = "writing" /\ f[1] = "tmptoc" /\ f[2] = w[p].gen + 1
                        /\ f \notin DOMAIN files
WTocTmpCreate(p, f) == /\ G_TocTmpCreate(p, f)
                       /\ files' = Put(files, f, "open")
                       /\ w' = [w EXCEPT ![p].pc = "toc", ![p].mine = @ \cup {f}]
                       /\ UNCHANGED <<toc, content, lock, r, nseg, clean>>

\* THE COMMIT POINT.  t is the content of the new TOC.
NewContent(p) == (content[w[p].gen] \ w[p].dels) \cup w[p].adds
Carried(old, t) ==      \* a segment kept by the new TOC keeps its size and never un-deletes
  \A i \in DOMAIN old.segs : \A j \in DOMAIN t.segs :
     old.segs[i].id = t.segs[j].id => /\ t.segs[j].n = old.segs[i].n
                                      /\ old.segs[i].del \subseteq t.segs[j].del
G_TocRename(p, src, g, t) ==
  /\ lock = p /\ w[p].pc = "toc"
  /\ src \in w[p].mine /\ src[1] = "tmptoc" /\ src[2] = g
  /\ src \in DOMAIN files /\ files[src] = "closed"        \* the TOC is complete before it gets its name
  /\ g = Latest + 1 /\ g = w[p].gen + 1                    \* one generation forward, from the newest
  /\ \A i \in DOMAIN t.segs : SegComplete(t.segs[i])        \* nothing half-written is referenced
  /\ Carried(toc[w[p].gen], t)
  /\ LiveCount(t) = Cardinality(NewContent(p))              \* the TOC accounts for every live document
WTocRename(p, src, g, t) ==
                       /\ G_TocRename(p, src, g, t)
                       /\ files' = Put(Drop(files, src), <<"toc", g>>, "closed")
                       /\ toc' = Put(toc, g, t)
                       /\ content' = Put(content, g, NewContent(p))
                       /\ w' = [w EXCEPT ![p].pc = "committed", ![p].gen = g]
                       /\ UNCHANGED <<lock, r, nseg, clean>>

\* clean-up: only after the rename, only files the newest generation does not need
G_CleanDelete(p, f) == lock = p /\ w[p].pc = "committed" /\ f \in DOMAIN files /\ ~Referenced(f)
WCleanDelete(p, f) == /\ G_CleanDelete(p, f)
                      /\ files' = Drop(files, f)
                      /\ UNCHANGED <<toc, content, lock, w, r, nseg, clean>>

\* release: after a commit, or as cancel() from any point before the rename
G_Unlock(p) == lock = p /\ w[p].pc \in {"locked", "writing", "toc", "committed"}
               /\ \A f \in w[p].mine : f \in DOMAIN files => files[f] = "closed"
WUnlock(p) == /\ G_Unlock(p)
              /\ lock' = NoOne
              /\ clean' = (w[p].pc = "committed" \/ (clean /\ w[p].mine = {}))
              /\ w' = [w EXCEPT ![p] = WInit]
              /\ UNCHANGED <<files, toc, content, r, nseg>>

\* the process dies: the OS drops the lock; files it had open stay as they are
Crash(p) == /\ w[p].pc \notin {"idle", "dead"}
            /\ lock' = IF lock = p THEN NoOne ELSE lock
            /\ w' = [w EXCEPT ![p] = [WInit EXCEPT !.pc = "dead"]]
            /\ clean' = FALSE
            /\ UNCHANGED <<files, toc, content, r, nseg>>

\* ---- reader ----------------------------------------------------------------------
RInit == [pc |-> "idle", gen |-> -1, want |-> -1, held |-> {}, failed |-> FALSE, seen |-> {}]

\* list the directory: remembers the newest generation it saw
RList(q) == /\ r' = [r EXCEPT ![q].want = Latest, ![q].pc = IF @ = "idle" THEN "listing" ELSE @,
                                ![q].seen = DOMAIN files]
            /\ UNCHANGED <<files, toc, content, lock, w, nseg, clean>>

\* open the TOC seen by the listing (it may have been cleaned away meanwhile: retry)
G_ROpenToc(q, g) == g = r[q].want /\ <<"toc", g>> \in DOMAIN files
ROpenToc(q, g) == /\ G_ROpenToc(q, g)
                  /\ r' = [r EXCEPT ![q].gen = g, ![q].pc = "opening", ![q].held = {}, ![q].failed = FALSE]
                  /\ UNCHANGED <<files, toc, content, lock, w, nseg, clean>>
G_ROpenFail(q, f) == f \notin DOMAIN files
ROpenFail(q, f) == /\ G_ROpenFail(q, f)
                   \* a genuine race with a cleaning writer: the file was there when q listed the directory
                   /\ r' = [r EXCEPT ![q].failed = @ \/ (f \in r[q].seen)]
                   /\ UNCHANGED <<files, toc, content, lock, w, nseg, clean>>

\* open a segment file: only segments of the reader's own generation, only complete files
G_ROpenSeg(q, f) == /\ r[q].gen >= 0 /\ IsSeg(f) /\ f[2] \in SegIds(toc[r[q].gen])
                    /\ f \in DOMAIN files /\ files[f] = "closed"
ROpenSeg(q, f) == /\ G_ROpenSeg(q, f)
                  /\ r' = [r EXCEPT ![q].held = @ \cup {f}, ![q].pc = "ready"]
                  /\ UNCHANGED <<files, toc, content, lock, w, nseg, clean>>

\* refresh(): a reader that has finished opening lists the directory again and, when there is a newer generation,
\* moves to it: it opens that TOC and keeps, of the files it holds, exactly those of segments the new TOC still
\* has (FileIndex._reader(reuse=...): the readers of unchanged segments are reused, the others are opened anew
\* by ROpenSeg, and what was merged away is let go)
G_RRefresh(q, g) == /\ r[q].pc \in {"opening", "ready"} /\ r[q].gen >= 0
                    /\ \A s \in SegIds(toc[r[q].gen]) : \E f \in r[q].held : f[2] = s
                    /\ g = Latest /\ g > r[q].gen /\ <<"toc", g>> \in DOMAIN files
RRefresh(q, g) == /\ G_RRefresh(q, g)
                  /\ r' = [r EXCEPT ![q].gen = g, ![q].want = g, ![q].pc = "opening", ![q].failed = FALSE,
                                    ![q].held = {f \in @ : f[2] \in SegIds(toc[g])}, ![q].seen = DOMAIN files]
                  /\ UNCHANGED <<files, toc, content, lock, w, nseg, clean>>

\* what the reader returns: exactly the state its generation committed (C03)
ProbeOK(q, keys, gen, uptodate) ==
  /\ r[q].gen >= 0
  /\ gen = r[q].gen
  /\ keys = content[r[q].gen]
  /\ uptodate = (r[q].gen = r[q].want)     \* want = newest generation at the reader's latest directory listing

\* ---- invariants ------------------------------------------------------------------
TypeOK == /\ lock \in Writers \cup {NoOne}
          /\ \A f \in DOMAIN files : files[f] \in {"open", "closed"}

\* C02: in EVERY state - hence after a crash at any point - the newest TOC is complete,
\* refers only to complete segments, and stands for the last committed logical state
Recoverable ==
  Latest >= 0 =>
    /\ files[<<"toc", Latest>>] = "closed"
    /\ Latest \in DOMAIN toc /\ Latest \in DOMAIN content
    /\ \A i \in DOMAIN toc[Latest].segs : SegComplete(toc[Latest].segs[i])
    /\ LiveCount(toc[Latest]) = Cardinality(content[Latest])
    /\ Latest = Max(DOMAIN content)

\* C04: at most one writer is past the lock
LockMutex == /\ \A p \in Writers : w[p].pc \in {"locked", "writing", "toc", "committed"} => lock = p
             /\ Cardinality({p \in Writers : w[p].pc \in {"locked", "writing", "toc", "committed"}}) <= 1

\* C02: a completed commit leaves no orphaned segment files behind
OrphanFree == (lock = NoOne /\ clean) => \A f \in DOMAIN files : (IsSeg(f) \/ IsToc(f)) => Referenced(f)

\* C04: generations are consecutive and each builds on its predecessor
GenChain == \A g \in DOMAIN content : g > 0 => (g - 1) \in DOMAIN content

\* C03: files a ready reader holds open belong to its generation
ReaderOwnGen == \A q \in Readers : \A f \in r[q].held : f[2] \in SegIds(toc[r[q].gen])

\* ---- the design model: writers and readers run their programs --------------------------
\* Segments of the model carry the keys of their rows so that deletions can be flagged.
Init == /\ files = (<<"toc", 0>> :> "closed")
        /\ toc = (0 :> [segs |-> <<>>])
        /\ content = (0 :> {})
        /\ lock = NoOne
        /\ w = [p \in Writers |-> WInit]
        /\ r = [q \in Readers |-> RInit]
        /\ nseg = 0
        /\ clean = TRUE
        /\ todo = [x \in Writers \cup Readers |-> <<>>]

AnySeq(S) == CHOOSE q \in [1 .. Cardinality(S) -> S] : \A i, j \in 1 .. Cardinality(S) : i # j => q[i] # q[j]
Flag(seg, dels) == [seg EXCEPT !.del = @ \cup {i \in DOMAIN seg.keys : seg.keys[i] \in dels}]
LiveKeys(seg) == {seg.keys[i] : i \in DOMAIN seg.keys \ seg.del}

\* the TOC a correct writer produces for (adds, dels) under a merge policy
NewToc(p, s, adds, dels, pol) ==
  LET old == toc[w[p].gen]
      flagged == [i \in DOMAIN old.segs |-> Flag(old.segs[i], dels)]
      newseg(K) == [id |-> s, n |-> Cardinality(K), del |-> {}, compound |-> TRUE, keys |-> AnySeq(K)]
  IN IF pol = "optimize"
     THEN LET K == (UNION {LiveKeys(flagged[i]) : i \in DOMAIN flagged}) \cup adds
          IN [segs |-> IF K = {} THEN <<>> ELSE <<newseg(K)>>]
     ELSE [segs |-> IF adds = {} THEN flagged ELSE Append(flagged, newseg(adds))]

Parts(s) == <<<<"seg", s, "trm">>, <<"seg", s, "pst">>>>
Program(s, g, adds, pol) ==
  LET open == <<[a |-> "create", f |-> Parts(s)[1]], [a |-> "create", f |-> Parts(s)[2]]>>
      shut == <<[a |-> "close", f |-> Parts(s)[1]], [a |-> "close", f |-> Parts(s)[2]]>>
      pack == <<[a |-> "create", f |-> <<"seg", s, "seg">>], [a |-> "close", f |-> <<"seg", s, "seg">>],
                [a |-> "delpart", f |-> Parts(s)[1]], [a |-> "delpart", f |-> Parts(s)[2]]>>
      commit == <<[a |-> "tmptoc", g |-> g], [a |-> "closetmp", g |-> g],
                  [a |-> "rename", g |-> g, s |-> s], [a |-> "clean"], [a |-> "unlock"]>>
  IN IF pol = "cancel" THEN open \o shut \o <<[a |-> "unlock"]>>
     ELSE IF adds = {} /\ pol = "append" THEN open \o shut \o commit     \* nothing added: no new segment
     ELSE open \o shut \o pack \o commit

\* a writer that holds the lock and has read the TOC chooses a transaction
WPlan(p) ==
  /\ w[p].pc = "writing" /\ todo[p] = <<>> /\ nseg < MaxSeg /\ w[p].gen < MaxGen
  /\ \E dels \in SUBSET content[w[p].gen] :
       \E adds \in SUBSET ({<<k, 0>> : k \in Keys} \ (content[w[p].gen] \ dels)) :
         \E pol \in {"append", "optimize", "cancel"} :
           /\ nseg' = nseg + 1
           /\ w' = [w EXCEPT ![p].adds = adds, ![p].dels = dels]
           /\ todo' = [todo EXCEPT ![p] = Program(nseg + 1, w[p].gen + 1, adds, pol)
                                            \o <<[a |-> "pol", pol |-> pol]>>]
  /\ UNCHANGED <<files, toc, content, lock, r, clean>>

Unref == {f \in DOMAIN files : ~Referenced(f) /\ (IsSeg(f) \/ IsToc(f))}
PolOf(p) == todo[p][Len(todo[p])].pol

WRun(p) ==
  /\ todo[p] # <<>> /\ Head(todo[p]).a # "pol"
  /\ LET st == Head(todo[p])
         rest == Tail(todo[p])
     IN CASE st.a = "create" -> WCreate(p, st.f) /\ todo' = [todo EXCEPT ![p] = rest]
          [] st.a = "close" -> WClose(p, st.f) /\ todo' = [todo EXCEPT ![p] = rest]
          [] st.a = "delpart" -> WDeletePart(p, st.f) /\ todo' = [todo EXCEPT ![p] = rest]
          [] st.a = "tmptoc" -> WTocTmpCreate(p, <<"tmptoc", st.g, p>>) /\ todo' = [todo EXCEPT ![p] = rest]
          [] st.a = "closetmp" -> WClose(p, <<"tmptoc", st.g, p>>) /\ todo' = [todo EXCEPT ![p] = rest]
          [] st.a = "rename" ->
               /\ WTocRename(p, <<"tmptoc", st.g, p>>, st.g, NewToc(p, st.s, w[p].adds, w[p].dels, PolOf(p)))
               /\ todo' = [todo EXCEPT ![p] = rest]
          [] st.a = "clean" ->
               IF Unref # {} THEN (\E f \in Unref : WCleanDelete(p, f)) /\ todo' = todo
               ELSE UNCHANGED vars /\ todo' = [todo EXCEPT ![p] = rest]
          [] st.a = "unlock" -> WUnlock(p) /\ todo' = [todo EXCEPT ![p] = <<>>]

\* (the model stops opening writers at its bounds, so that every writer that gets the lock can finish)
WStart(p) == \/ nseg < MaxSeg /\ Latest < MaxGen /\ WLock(p) /\ todo' = todo
             \/ WLockFail(p) /\ todo' = todo
             \/ (w[p].pc = "locked" /\ WReadToc(p, Latest) /\ todo' = todo)

WCrash(p) == Crash(p) /\ todo' = [todo EXCEPT ![p] = <<>>]

\* reader program: list, open the TOC (retry when it vanished), open each segment
RStart(q) == /\ r[q].pc = "idle" /\ RList(q) /\ todo' = todo
RToc(q) == /\ r[q].pc = "listing"
           /\ IF <<"toc", r[q].want>> \in DOMAIN files
              THEN ROpenToc(q, r[q].want)
              ELSE r' = [r EXCEPT ![q] = RInit] /\ UNCHANGED <<files, toc, content, lock, w, nseg, clean>>   \* retry
           /\ todo' = todo
NeedSeg(q) == {<<"seg", s, "seg">> : s \in SegIds(toc[r[q].gen])} \ r[q].held
RSeg(q) == /\ r[q].pc \in {"opening", "ready"} /\ NeedSeg(q) # {}
           /\ \E f \in NeedSeg(q) :
                IF f \in DOMAIN files THEN ROpenSeg(q, f)
                ELSE r' = [r EXCEPT ![q] = RInit] /\ UNCHANGED <<files, toc, content, lock, w, nseg, clean>>  \* IOError: retry
           /\ todo' = todo
RClose(q) == /\ r[q].pc \in {"opening", "ready"} /\ NeedSeg(q) = {}
             /\ r' = [r EXCEPT ![q] = RInit]
             /\ UNCHANGED <<files, toc, content, lock, w, nseg, clean>> /\ todo' = todo

RRefr(q) == RRefresh(q, Latest) /\ todo' = todo
Next == \/ \E p \in Writers : WStart(p) \/ WPlan(p) \/ WRun(p) \/ WCrash(p)
        \/ \E q \in Readers : RStart(q) \/ RToc(q) \/ RSeg(q) \/ RClose(q) \/ RRefr(q)

Spec == Init /\ [][Next]_allvars
\* a writer that was opened is eventually committed or cancelled by its user, and keeps running
FairSpec == Spec /\ \A p \in Writers : WF_allvars(WRun(p)) /\ WF_allvars(WPlan(p))
                                        /\ WF_allvars(w[p].pc = "locked" /\ WReadToc(p, Latest) /\ todo' = todo)

\* C03: a reader that finished opening serves exactly its generation, and every file it
\* needs is held open (so later clean-ups cannot take it away)
Snapshot == \A q \in Readers : (r[q].pc \in {"opening", "ready"} /\ NeedSeg(q) = {}) =>
                /\ r[q].gen \in DOMAIN content
                /\ \A s \in SegIds(toc[r[q].gen]) : <<"seg", s, "seg">> \in r[q].held

\* C04 (liveness, no state constraint): the lock always becomes free again
LockFreedom == []<>(lock = NoOne)

\* crashed writers do not come back; bound the run for exhaustive checking
Bound == \A g \in DOMAIN content : g <= MaxGen
=============================================================================
