SPECIFICATION Spec
CONSTANTS
  Docs = {1, 2, 3, 4}
  MaxScore = 3
  K = 2
  AllowRemove = TRUE
INVARIANT ThresholdSound
INVARIANT CountExact
INVARIANT NoStaleThreshold
CHECK_DEADLOCK FALSE
