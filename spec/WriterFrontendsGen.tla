------------------------- MODULE WriterFrontendsGen -------------------------
(* Behaviour export for the replay into the real BufferedWriter (spec -> code). *)
(* The schedule is restricted to what a harness can impose on real threads: a    *)
(* thread that can run does run until it has to rest - finished, waiting for the *)
(* object's lock, or held at one of the two storage operations of a commit where *)
(* the harness can park it (writing the new TOC: pc "com3"; taking the index     *)
(* lock for the next inner writer: pc "com4").  Every entry of `hist` carries     *)
(* the action, its call and the abstract state the specification predicts after   *)
(* it; the harness compares the real object with it at every rest.               *)
EXTENDS WriterFrontends, Json

VARIABLES hist, printed
gvars == <<vars, hist, printed>>

Urgent(t) == \/ th[t].pc \in {"add0", "upd0", "com0", "sea0"} /\ CanLock(t)
             \/ th[t].pc \in {"com2", "sea1"}
             \/ th[t].pc = "com4" /\ ~th[t].restart

Snap == [committed |-> committed, ram |-> ram, count |-> count, inner |-> inner.st, mutex |-> mutex,
         pcs |-> [t \in Threads |-> th[t].pc], model |-> model, closed |-> closed]
Entry(t, a, rec, view) == [t |-> t, a |-> a, op |-> rec.op, k |-> rec.k, id |-> rec.id, view |-> view, st |-> Snap']
Log(t, a) == hist' = Append(hist, Entry(t, a, th[t], IF a = "Sea1" THEN SearchView(t) ELSE {}))

GStep(t) == \/ Add(t) /\ Log(t, "Add")
            \/ Update(t) /\ Log(t, "Update")
            \/ Com0(t) /\ Log(t, "Com0")
            \/ Com2(t) /\ Log(t, "Com2")
            \/ Com3(t) /\ Log(t, "Com3")
            \/ Com4(t) /\ Log(t, "Com4")
            \/ Sea0(t) /\ Log(t, "Sea0")
            \/ Sea1(t) /\ Log(t, "Sea1")

GCall(t) == \E op \in {"add", "update", "commit", "search", "close"} : \E k \in Keys \cup {"none"} :
              /\ (nops = MaxOps - 1) => op = "close"          \* every behaviour ends with close()
              /\ op = "close" => nops >= 2
              /\ Call(t, op, k)
              /\ hist' = Append(hist, Entry(t, "Call", th'[t], {}))

Done == Quiescent /\ closed

GenInit == Init /\ hist = <<>> /\ printed = FALSE
GenNext == \/ /\ ~Done
              /\ IF \E t \in Threads : Urgent(t)
                 THEN \E t \in Threads : Urgent(t) /\ GStep(t)
                 ELSE \E t \in Threads : GStep(t) \/ GCall(t)
              /\ UNCHANGED printed
           \/ /\ Done /\ ~printed
              /\ PrintT(<<"BEH", ToJson(hist)>>)
              /\ printed' = TRUE
              /\ UNCHANGED <<vars, hist>>
=============================================================================
