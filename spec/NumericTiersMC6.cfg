CONSTANTS Bits = 6  Steps = {1,2,3,4,5,6}
INIT Init
NEXT Next
INVARIANT CoverageReport
CHECK_DEADLOCK FALSE
