CONSTANTS
  Writers = {w1, w2}
  Readers = {r1}
  Keys = {k1}
  MaxGen = 2
  MaxSeg = 2
  NoOne = NoOne
SPECIFICATION Spec
INVARIANT TypeOK
INVARIANT Recoverable
INVARIANT LockMutex
INVARIANT OrphanFree
INVARIANT GenChain
INVARIANT ReaderOwnGen
INVARIANT Snapshot
CHECK_DEADLOCK FALSE
