CONSTANTS Keys = {"a1", "a2"}  Daemon = TRUE
SPECIFICATION FairSpec
INVARIANT Durable
CHECK_DEADLOCK FALSE
