---------------------------- MODULE IdSetTrace ----------------------------
(* Validation of call traces recorded from whoosh.idsets objects.           *)
(* TRACE_FILE: JSON array of traces; a trace is an array of events          *)
(*   {op,o,p,n,xs,ps,r,err,res}.  Every event must satisfy the precondition *)
(*   of the call, must not have raised, and a query must have returned the  *)
(*   value IdSet!Res computes.  Deterministic, so each trace is one path.   *)
EXTENDS IdSet, Json, IOUtils
Traces == JsonDeserialize(IOEnv.TRACE_FILE)
VARIABLES tid, l
tvars == <<s, ev, k, tid, l>>

TInit == /\ tid \in 1 .. Len(Traces)
         /\ l = 1
         /\ s = <<>>
         /\ ev = Blank
         /\ k = 0

TNext ==
  /\ l <= Len(Traces[tid])
  /\ LET e == Traces[tid][l]
         pre == Pre(s, e)
         ok == /\ pre
               /\ e.err = ""
               /\ (e.op \in Queries => Res(s, e) = e.res)
     IN IF ok
        THEN /\ s' = Post(s, e)
             /\ l' = l + 1
             /\ (l' > Len(Traces[tid]) => PrintT(<<"DONE", tid>>))
        ELSE /\ PrintT(<<"REJECT", ToJson([tid |-> tid, l |-> l, pre |-> pre,
                                            err |-> e.err, op |-> e.op,
                                            expected |-> IF pre THEN Res(s, e) ELSE 0,
                                            state |-> IF e.o \in DOMAIN s THEN Sorted(s[e.o]) ELSE <<>>])>>)
             /\ l' = Len(Traces[tid]) + 2
             /\ s' = s
  /\ UNCHANGED <<ev, k, tid>>
=============================================================================
