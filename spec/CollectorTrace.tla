--------------------------- MODULE CollectorTrace ---------------------------
(* Validation of collector traces recorded from real searches against the       *)
(* transition functions of Collector.tla.                                        *)
(* TRACE_FILE: array of traces; a trace is a sequence of events                  *)
(*   begin   k, ref = [[doc, score]..] the query's full posting list in document  *)
(*           order (exact regime), collapse: BOOLEAN                               *)
(*   collect d, s, heap = [[score, doc]..] kept entries after the call, minscore   *)
(*   prune   q        the threshold handed to matcher.replace / skip_to_quality    *)
(*   remove  d, minscore                                                           *)
(*   done    results = [[doc, score]..] in result order, count = len(results)      *)
(* Every event must be the model's step: delivery in document order with the       *)
(* list's scores (a document that cannot beat an announced threshold may be          *)
(* under-reported), documents passed over only if they cannot beat a threshold that  *)
(* was announced, thresholds never above what a newcomer must beat, kept entries    *)
(* and final ranking as the transition functions say.                              *)
EXTENDS Naturals, Integers, Sequences, FiniteSets, SequencesExt, TLC, Json, IOUtils

\* the transition functions of the design model (Collector.tla), instantiated without its variables
C == INSTANCE Collector WITH Docs <- {}, MaxScore <- 0, K <- 0, AllowRemove <- FALSE,
                             score <- <<>>, rest <- {}, kept <- {}, minscore <- 0, total <- 0,
                             pruned <- FALSE, removed <- FALSE

Traces == JsonDeserialize(IOEnv.TRACE_FILE)
VARIABLES tid, l, st
\* st = [k, ref (set of <<score, doc>>), kept, maxq, last, removed, collected]
T == Traces[tid]

Max2(a, b) == IF a > b THEN a ELSE b
RefSet(e) == {<<e.ref[i][2], e.ref[i][1]>> : i \in DOMAIN e.ref}
PassedOver(s, upto) == {x \in s.ref : x[2] > s.last /\ x[2] < upto}

Step(e) ==
  LET ok(n) == [ok |-> TRUE, st |-> n, why |-> ""]
      bad(w) == [ok |-> FALSE, st |-> st, why |-> w]
  IN CASE e.ev = "begin" ->
            ok([k |-> e.k, ref |-> RefSet(e), kept |-> {}, maxq |-> 0, last |-> -1, removed |-> FALSE,
                collected |-> 0, collapse |-> e.collapse])
       [] e.ev = "prune" ->
            IF e.q > C!ThresholdOf(st.kept, st.k) THEN bad("matcher-told-a-threshold-above-what-a-newcomer-must-beat")
            ELSE ok([st EXCEPT !.maxq = Max2(st.maxq, e.q)])
       [] e.ev = "collect" ->
            IF e.d <= st.last THEN bad("delivery-not-in-document-order")
            \* ... and may deliver a document that does not match, as long as it cannot beat the threshold
            ELSE IF ~(\E x \in st.ref : x[2] = e.d) /\ e.s > st.maxq THEN bad("delivered-a-document-not-in-the-list")
            \* a matcher rewritten against a threshold may under-report documents that cannot beat it
            ELSE IF \E x \in st.ref : x[2] = e.d /\ (e.s > x[1] \/ (e.s < x[1] /\ x[1] > st.maxq))
              THEN bad("delivered-a-score-that-is-not-the-document's")
            \* (under a collapsing collector the documents folded away never reach this collector)
            ELSE IF ~st.collapse /\ \E x \in PassedOver(st, e.d) : x[1] > st.maxq
              THEN bad("passed-over-a-document-scoring-above-every-announced-threshold")
            ELSE IF ~(\E x \in st.ref : x[2] = e.d) /\ st.collapse THEN bad("delivered-a-document-not-in-the-list")
            ELSE LET k2 == C!KeptAfterCollect(st.kept, st.k, e.s, e.d)
                 IN IF {<<e.heap[i][1], e.heap[i][2]>> : i \in DOMAIN e.heap} # k2 THEN bad("kept-entries-differ")
                    ELSE IF e.minscore > C!ThresholdOf(k2, st.k) THEN bad("threshold-above-what-a-newcomer-must-beat")
                    ELSE ok([st EXCEPT !.kept = k2, !.last = e.d, !.collected = st.collected + 1])
       [] e.ev = "remove" ->
            LET k2 == C!KeptAfterRemove(st.kept, e.d)
            IN IF e.minscore > C!ThresholdOf(k2, st.k) THEN bad("threshold-after-remove-above-what-a-newcomer-must-beat")
               ELSE ok([st EXCEPT !.kept = k2, !.removed = TRUE])
       [] e.ev = "done" ->
            LET res == {<<e.results[i][2], e.results[i][1]>> : i \in DOMAIN e.results}
            IN IF ~st.collapse /\ \E x \in PassedOver(st, 2147483647) : x[1] > st.maxq
                 THEN bad("stopped-before-a-document-scoring-above-every-announced-threshold")
               ELSE IF res # st.kept THEN bad("results-are-not-the-kept-entries")
               ELSE IF \E i \in 1 .. Len(e.results) - 1 :
                         ~C!Better(<<e.results[i][2], e.results[i][1]>>, <<e.results[i + 1][2], e.results[i + 1][1]>>)
                 THEN bad("results-not-ranked")
               ELSE IF ~st.removed /\ ~st.collapse /\ res # C!TopKOf(st.ref, st.k) THEN bad("results-are-not-the-k-best")
               ELSE IF ~st.collapse /\ e.count # Cardinality(st.ref) THEN bad("len-is-not-the-number-of-matches")
               ELSE ok(st)
       [] e.ev = "error" -> bad("raised")

TInit == /\ tid \in 1 .. Len(Traces)
         /\ l = 1
         /\ st = [k |-> 0, ref |-> {}, kept |-> {}, maxq |-> 0, last |-> -1, removed |-> FALSE, collected |-> 0,
                  collapse |-> FALSE]

TNext ==
  /\ l <= Len(T)
  /\ LET s == Step(T[l])
     IN IF s.ok
        THEN /\ st' = s.st /\ l' = l + 1
             /\ (l' > Len(T) => PrintT(<<"DONE", tid>>))
        ELSE /\ PrintT(<<"REJECT", ToJson([tid |-> tid, l |-> l, why |-> s.why,
                                            kept |-> SetToSeq(st.kept), maxq |-> st.maxq])>>)
             /\ l' = Len(T) + 2 /\ st' = st
  /\ UNCHANGED tid
=============================================================================
