----------------------------- MODULE ContentCheck -----------------------------
(* Logical content of an index (C06, C08, C10, C18): what every read API must   *)
(* return is a function of the document-level operations only.  The abstract    *)
(* index is QuerySem's (documents in docnum order with a live flag) extended by  *)
(*   s : [stored field -> value id]  (0: not supplied)                           *)
(*   c : [column field -> value id]  (0: not supplied -> the column's default)   *)
(* Value ids are ranks in an injective pool of concrete values: a value that     *)
(* comes back corrupted or from another document shows up as a different id.     *)
(* TRACE_FILE: array of [idx, obs: array of observations]; kinds:                *)
(*   postings   f, t, list = [[docnum, freq, [positions]]..]  of reader.postings *)
(*   chars      f, t, list = [[docnum, [[pos, startchar, endchar]..]]..]         *)
(*   absent     f, t            term reported as not in the index                *)
(*   lexicon    f, terms        reader.lexicon(f)                                *)
(*   fieldlen   f, d, n         reader.doc_field_length(d, f)                    *)
(*   totals     f, total, minlen, maxlen   field_length / min / max              *)
(*   stored     d, vals = [field -> id]    stored_fields(d) (absent fields omitted) *)
(*   column     f, d, v         column_reader(f)[d]  (v = 0: the default value)  *)
(*   vector     f, d, list = [[term, freq, [positions]]..]  reader.vector(d, f)  *)
(*   counts     all, live, hasdel   doc_count_all / doc_count / has_deletions    *)
(*   terminfo   f, t, df, tf, minid, maxid, maxw   reader.term_info(f, t)        *)
(*   livekeys   keys, ops       stored keys of all live documents vs. the operations   *)
(*   termsfrom  flex = [[field, lexicon]..] (fields ascending), fi, p, got = [[field#, term]..]          *)
(*              all_terms / terms_from / iter_from: every (field, term) >= (field fi, p), in order        *)
(*   fieldterms f, lex, p, mode, terms[, infos]   expand_prefix / iter_prefix (mode prefix), iter_field /  *)
(*              field_terms (mode from): the part of the field's lexicon with the prefix / from p on     *)
(*   mostfrequent f, lex, p, n, list = [[weight, term]..]   most_frequent_terms                          *)
(*   termfreq   f, t, frequency, doc_frequency, first_id ; termfreq0: an absent term                     *)
(*   idweights  key, list = [[docnum, weight]..]   postings of the unique key field                        *)
(*   docids     all_doc_ids, iter_docs                                                                   *)
(*   flag       value           a recorded boolean fact                          *)
(*   error      ...             an exception from a read API                     *)
EXTENDS QuerySem, Json, IOUtils
Cases == JsonDeserialize(IOEnv.TRACE_FILE)
VARIABLE c
Init == \E ci \in 1 .. Len(Cases) : \E oi \in 1 .. Len(Cases[ci].obs) : c = <<ci, oi>>
Next == FALSE /\ c' = c

AllDocs(idx) == DocIds(idx)

\* the dictionary model: which keys are live after the document-level operations
\* ops = <<"add", key>> | <<"delete", key>> in the order issued (C06/C07/C18)
ModelLive(ops, n) ==      \* a key is live iff the last operation on it is an add
  {ops[i][2] : i \in {j \in 1 .. n : /\ ops[j][1] = "add"
                                      /\ \A m \in (j + 1) .. n : ops[m][2] = ops[j][2] => ops[m][1] = "add"}}

\* postings are read from segments: a deleted document's postings are filtered out
PostingList(idx, f, t) ==
  LET S == {d \in Live(idx) : Tf(idx, d, f, t) > 0}
      ids == SetToSortSeq(S, <)
  IN [i \in DOMAIN ids |-> <<ids[i], Tf(idx, ids[i], f, t), SetToSortSeq(Positions(idx, ids[i], f, t), <)>>]
FieldLen(idx, d, f) == Cardinality({i \in DOMAIN Toks(idx, d, f) : Toks(idx, d, f)[i] # Gap})
VectorOf(idx, d, f) ==
  LET T == ToSet(Toks(idx, d, f)) \ {Gap}
      ts == SetToSortSeq(T, LAMBDA a, b : SeqLess(a, b))
  IN [i \in DOMAIN ts |-> <<ts[i], Tf(idx, d, f, ts[i]), SetToSortSeq(Positions(idx, d, f, ts[i]), <)>>]
\* character offsets: the analysed text is the tokens joined by one space; a removed stop word
\* (gap) is the 3-letter word; every letter of the alphabet is one character
TokLen(tok) == IF tok = Gap THEN 3 ELSE Len(tok)
\* the boost a token was typed with, in quarters (word^2 -> 8): 4 where nothing was typed; the two characters of
\* the suffix are part of the text but not of the token
TokB(idx, d, f, i) == LET D == Doc(idx, d)
                      IN IF "tb" \in DOMAIN D /\ f \in DOMAIN D.tb /\ i <= Len(D.tb[f]) THEN D.tb[f][i] ELSE 4
Suffix(idx, d, f, i) == IF TokB(idx, d, f, i) = 4 THEN 0 ELSE 2
RECURSIVE StartChar(_, _, _, _, _)
StartChar(idx, d, f, toks, i) == IF i = 1 THEN 0
                                 ELSE StartChar(idx, d, f, toks, i - 1) + TokLen(toks[i - 1]) + Suffix(idx, d, f, i - 1) + 1
CharsOf(idx, d, f, t) ==      \* <<position, startchar, endchar>> of every occurrence, in position order
  LET toks == Toks(idx, d, f)
      ps == SetToSortSeq(Positions(idx, d, f, t), <)
  IN [k \in DOMAIN ps |-> <<ps[k], StartChar(idx, d, f, toks, ps[k] + 1), StartChar(idx, d, f, toks, ps[k] + 1) + Len(t)>>]
CharList(idx, f, t) ==
  LET ids == SetToSortSeq({d \in Live(idx) : Tf(idx, d, f, t) > 0}, <)
  IN [i \in DOMAIN ids |-> <<ids[i], CharsOf(idx, ids[i], f, t)>>]

\* stored weight of a posting = sum of the boosts of the term's occurrences (1 each unless typed otherwise)
\* * field boost * document boost, in units of 1/Unit
SumB(idx, d, f, t) == LET P == {j \in DOMAIN Toks(idx, d, f) : Toks(idx, d, f)[j] = t}
                          RECURSIVE S(_)
                          S(Q) == IF Q = {} THEN 0 ELSE LET j == CHOOSE x \in Q : TRUE IN TokB(idx, d, f, j) + S(Q \ {j})
                      IN S(P)
\* the field boost (in quarters): 2.0 for the field wb of the content worlds, 1.0 elsewhere
FieldBoost4(f) == IF f = "wb" THEN 8 ELSE 4
\* (... and 1/16 for the field wf: not a whole number of quarters)
FieldScale(x, f) == IF f = "wf" THEN x \div 16 ELSE Scale(x, FieldBoost4(f))
W(idx, d, f, t) == Scale(FieldScale((SumB(idx, d, f, t) * Unit) \div 4, f), Doc(idx, d).b4)
WeightList(idx, f, t) ==
  LET ids == SetToSortSeq({d \in Live(idx) : Tf(idx, d, f, t) > 0}, <)
  IN [i \in DOMAIN ids |-> <<ids[i], W(idx, ids[i], f, t)>>]
\* an existence-only field (the unique key): one posting per live document with that key, weight = its boost
IdWeights(idx, key) ==
  LET ids == SetToSortSeq({d \in Live(idx) : Doc(idx, d).key = key}, <)
  IN [i \in DOMAIN ids |-> <<ids[i], Scale(Unit, Doc(idx, ids[i]).b4)>>]
SumW(wl) == LET RECURSIVE S(_) S(i) == IF i = 0 THEN 0 ELSE S(i - 1) + wl[i][2] IN S(Len(wl))

\* ---- term iteration, relative to the lexicon the reader lists for each field -------------------------
SeqLE(a, b) == a = b \/ SeqLess(a, b)
RECURSIVE ConcatAll(_)
ConcatAll(ss) == IF ss = <<>> THEN <<>> ELSE Head(ss) \o ConcatAll(Tail(ss))
TermsFrom(flex, fi, p) ==
  ConcatAll([i \in DOMAIN flex |->
     IF i < fi THEN <<>>
     ELSE LET lex == IF i = fi THEN SelectSeq(flex[i][2], LAMBDA t : SeqLE(p, t)) ELSE flex[i][2]
          IN [j \in DOMAIN lex |-> <<i, lex[j]>>]])
FieldTerms(lex, p, mode) == IF mode = "prefix" THEN SelectSeq(lex, LAMBDA t : IsPrefixOf(p, t))
                            ELSE SelectSeq(lex, LAMBDA t : SeqLE(p, t))
\* (document frequency, total weight) of a term as stored; asserted on an index without deletions (see terminfo)
InfoOK(idx, f, t, df, tf) == LET pl == WeightList(idx, f, t) IN df = Len(pl) /\ tf = SumW(pl)
\* most_frequent_terms: the n heaviest terms with the prefix, heaviest first, ties by descending term
MostFrequent(idx, f, lex, p, n) ==
  LET cand == ToSet(SelectSeq(lex, LAMBDA t : IsPrefixOf(p, t)))
      w(t) == SumW(WeightList(idx, f, t))
      ord == SetToSortSeq(cand, LAMBDA a, b : w(a) > w(b) \/ (w(a) = w(b) /\ SeqLess(b, a)))
      top == IF Len(ord) <= n THEN ord ELSE SubSeq(ord, 1, n)
  IN [i \in DOMAIN top |-> <<w(top[i]), top[i]>>]

StoredOf(idx, d) == LET S == Doc(idx, d).s IN [f \in {g \in DOMAIN S : S[g] # 0} |-> S[f]]
ColOf(idx, d, f) == IF f \in DOMAIN Doc(idx, d).c THEN Doc(idx, d).c[f] ELSE 0

Expected(idx, o) ==
  CASE o.kind = "postings" -> [list |-> PostingList(idx, o.f, o.t)]
    [] o.kind = "absent" -> [list |-> PostingList(idx, o.f, o.t)]
    [] o.kind = "chars" -> [list |-> CharList(idx, o.f, o.t)]
    [] o.kind = "weights" -> [list |-> WeightList(idx, o.f, o.t)]
    [] o.kind = "postings_nopos" -> [list |-> PostingList(idx, o.f, o.t)]
    [] o.kind = "lexicon" -> [must_contain |-> SetToSortSeq({t \in Lexicon(idx, o.f) : \E d \in Live(idx) : Tf(idx, d, o.f, t) > 0},
                                                             LAMBDA a, b : SeqLess(a, b))]
    [] o.kind = "fieldlen" -> [n |-> FieldLen(idx, o.d, o.f)]
    [] o.kind = "stored" -> [vals |-> StoredOf(idx, o.d)]
    [] o.kind = "column" -> [v |-> ColOf(idx, o.d, o.f)]
    [] o.kind = "vector" -> [list |-> VectorOf(idx, o.d, o.f)]
    [] o.kind = "counts" -> [all |-> Len(idx.docs), live |-> Cardinality(Live(idx))]
    [] o.kind = "terminfo" -> [df |-> Len(PostingList(idx, o.f, o.t))]
    [] o.kind = "livekeys" -> [keys |-> ModelLive(o.ops, Len(o.ops))]
    [] o.kind = "grouporder" -> [groups_contiguous_and_in_order |-> TRUE]
    [] o.kind = "idweights" -> [list |-> IdWeights(idx, o.key)]
    [] o.kind = "termsfrom" -> [got |-> TermsFrom(o.flex, o.fi, o.p)]
    [] o.kind = "fieldterms" -> [terms |-> FieldTerms(o.lex, o.p, o.mode)]
    [] o.kind = "mostfrequent" -> [list |-> MostFrequent(idx, o.f, o.lex, o.p, o.n)]
    [] o.kind = "termfreq" -> [postings |-> WeightList(idx, o.f, o.t)]
    [] o.kind = "docids" -> [ids |-> SetToSortSeq(Live(idx), <)]
    [] OTHER -> [ok |-> TRUE]


ObsOK(idx, o) ==
  CASE o.kind = "postings" -> o.list = PostingList(idx, o.f, o.t)
    [] o.kind = "postings_nopos" ->      \* a field indexed without positions: documents and frequencies
         LET pl == PostingList(idx, o.f, o.t)
         IN [i \in DOMAIN o.list |-> <<o.list[i][1], o.list[i][2]>>] = [i \in DOMAIN pl |-> <<pl[i][1], pl[i][2]>>]
    [] o.kind = "chars" -> o.list = CharList(idx, o.f, o.t)      \* value_as("characters") of every posting
    [] o.kind = "weights" -> o.list = WeightList(idx, o.f, o.t)  \* matcher.weight() of every posting
    [] o.kind = "absent" -> PostingList(idx, o.f, o.t) = <<>>
    [] o.kind = "lexicon" ->
         \* every term of a live document is listed, in strictly ascending order, and nothing that
         \* no stored document (live or deleted) contains
         /\ \A i \in 1 .. Len(o.terms) - 1 : SeqLess(o.terms[i], o.terms[i + 1])
         /\ ToSet(o.terms) \subseteq Lexicon(idx, o.f)
         /\ {t \in Lexicon(idx, o.f) : \E d \in Live(idx) : Tf(idx, d, o.f, t) > 0} \subseteq ToSet(o.terms)
    [] o.kind = "fieldlen" -> o.n = FieldLen(idx, o.d, o.f)
    [] o.kind = "totals" ->
         \* the collection statistics of a field are the aggregates of the per-document lengths the reader reports
         \* (asserted on an index without deletions: a deleted document still counts until it is merged away)
         LET ls == {o.lens[i][2] : i \in DOMAIN o.lens}       \* (a document without the field has length 0)
             sum == LET RECURSIVE S(_) S(i) == IF i = 0 THEN 0 ELSE S(i - 1) + o.lens[i][2] IN S(Len(o.lens))
         IN o.nodel => /\ o.total = sum
                       \* (whether documents without the field count towards the minimum is not specified:
                       \* the on-disk codec counts them, the in-memory and plain-text codecs do not)
                       /\ (ls # {} => o.maxlen = Max(ls) /\ (o.minlen = Min(ls) \/ (ls # {0} /\ o.minlen = Min(ls \ {0}))))
    [] o.kind = "stored" -> [f \in DOMAIN o.vals |-> o.vals[f]] = StoredOf(idx, o.d)
    [] o.kind = "column" -> o.v = ColOf(idx, o.d, o.f)
    [] o.kind = "vector" -> o.list = VectorOf(idx, o.d, o.f)
    [] o.kind = "counts" -> /\ o.all = Len(idx.docs) /\ o.live = Cardinality(Live(idx))
                            /\ o.hasdel = (Cardinality(Live(idx)) # Len(idx.docs))
    [] o.kind = "terminfo" ->
         \* statistics are those of the stored posting list (C10); with deletions pending they may
         \* still count deleted documents, so they are asserted only on an index without deletions
         LET pl == WeightList(idx, o.f, o.t)
         IN (Cardinality(Live(idx)) = Len(idx.docs)) =>
               /\ o.df = Len(pl) /\ o.tf = SumW(pl)                  \* document frequency, total weight
               /\ (Len(pl) > 0 => o.minid = pl[1][1] /\ o.maxid = pl[Len(pl)][1])
               /\ (Len(pl) > 0 => o.maxw = Max({pl[i][2] : i \in DOMAIN pl}))
               \* lengths are kept in one byte: exact up to 10, so asserted when every document of the list is that short
               /\ LET lens == {FieldLen(idx, pl[i][1], o.f) : i \in DOMAIN pl}
                  IN ("lenstats" \in DOMAIN o /\ o.lenstats /\ Len(pl) > 0 /\ \A n \in lens : n <= 10)
                       => (o.minlen = Min(lens) /\ o.maxlen = Max(lens))
    [] o.kind = "livekeys" ->     \* keys of the live documents the reader delivers, each once
         /\ ToSet(o.keys) = ModelLive(o.ops, Len(o.ops))
         /\ Cardinality(ToSet(o.keys)) = Len(o.keys)
    [] o.kind = "grouporder" ->   \* documents added inside writer.group() stay next to one another, in order
         LET order == [i \in DOMAIN o.order |-> o.order[i]]      \* keys of the live documents in document order
         IN \A g \in DOMAIN o.groups :
              LET grp == SelectSeq(o.groups[g], LAMBDA k : k \in ToSet(order))
              IN grp = <<>> \/ \E i \in 1 .. Len(order) - Len(grp) + 1 : SubSeq(order, i, i + Len(grp) - 1) = grp
    [] o.kind = "idweights" -> o.list = IdWeights(idx, o.key)
    [] o.kind = "termsfrom" ->
         /\ [i \in DOMAIN o.got |-> <<o.got[i][1], o.got[i][2]>>] = TermsFrom(o.flex, o.fi, o.p)
         /\ ("infos" \in DOMAIN o /\ o.nodel) =>
               \A i \in DOMAIN o.infos : InfoOK(idx, o.flex[o.infos[i][1]][1], o.infos[i][2], o.infos[i][3], o.infos[i][4])
    [] o.kind = "fieldterms" ->
         /\ [i \in DOMAIN o.terms |-> o.terms[i]] = FieldTerms(o.lex, o.p, o.mode)
         /\ ("infos" \in DOMAIN o /\ o.nodel) =>
               \A i \in DOMAIN o.infos : InfoOK(idx, o.f, o.infos[i][1], o.infos[i][2], o.infos[i][3])
    [] o.kind = "mostfrequent" ->
         o.nodel => [i \in DOMAIN o.list |-> <<o.list[i][1], o.list[i][2]>>] = MostFrequent(idx, o.f, o.lex, o.p, o.n)
    [] o.kind = "termfreq" ->
         LET pl == PostingList(idx, o.f, o.t) IN
         /\ o.nodel => InfoOK(idx, o.f, o.t, o.doc_frequency, o.frequency)
         /\ o.first_id = (IF pl = <<>> THEN -1 ELSE pl[1][1])       \* -1: TermNotFound (no live document has it)
    [] o.kind = "termfreq0" -> o.frequency = 0 /\ o.doc_frequency = 0
    [] o.kind = "docids" ->
         LET ids == SetToSortSeq(Live(idx), <) IN
         /\ [i \in DOMAIN o.all_doc_ids |-> o.all_doc_ids[i]] = ids
         /\ [i \in DOMAIN o.iter_docs |-> o.iter_docs[i]] = ids
    [] o.kind = "flag" -> o.value
    [] o.kind = "error" -> FALSE

Inv ==
  LET cs == Cases[c[1]]
      o == cs.obs[c[2]]
  IN \/ ObsOK(cs.idx, o)
     \/ PrintT(<<"REJECT", ToJson([tid |-> c[1], oi |-> c[2], expected |-> Expected(cs.idx, o)])>>)
=============================================================================
