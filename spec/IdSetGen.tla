----------------------------- MODULE IdSetGen -----------------------------
(* Behaviour export: every path of IdSet (or a simulated sample) is printed   *)
(* as one JSON line for replay into the implementation.                       *)
EXTENDS IdSet, Json
VARIABLE hist
GenInit == Init /\ hist = <<>>
GenNext == \/ Next /\ hist' = Append(hist, ev')
           \/ /\ k = MaxOps
              /\ PrintT(<<"BEH", ToJson(hist)>>)
              /\ k' = MaxOps + 1
              /\ UNCHANGED <<s, ev, hist>>
=============================================================================
