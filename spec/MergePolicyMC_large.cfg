CONSTANTS Sizes = {0, 1, 2, 3, 5, 9, 40}  MaxSegs = 7
INIT Init
NEXT Next
INVARIANT Partition
INVARIANT SmallestMerged
INVARIANT FewSegmentsUntouched
INVARIANT Export
CHECK_DEADLOCK FALSE
