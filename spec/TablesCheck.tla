----------------------------- MODULE TablesCheck -----------------------------
(* Abstract types of the file-format building blocks (C20), judged on          *)
(* observations of the real implementations.                                    *)
(* Byte strings that are only compared for equality travel as hex strings;      *)
(* keys that are ordered travel as sequences of bytes (0..255).                 *)
(* TRACE_FILE: array of observations o, o.kind in                                *)
(*   map      writes = [[key, value]..] in insertion order (hex),               *)
(*            gets = [[key, value | "<absent>"]..], alls = [[key, [values]]..], *)
(*            has = [[key, BOOLEAN]..], items = [[key, value]..] as iterated     *)
(*   ordered  writes = [[key bytes, value]..] (ascending keys), closest =        *)
(*            [[probe bytes, [key bytes] | []]..], from = [[probe, [[key bytes]..]]..], *)
(*            keys = [[key bytes]..] as iterated                                 *)
(*   roundtrip name, input = [strings], output = [strings]                       *)
(*   sorted   input, output = [[ints]..]   external merge sort                   *)
(*   compound files = [[name, hex]..] written, read = [[name, hex]..],           *)
(*            names = [names listed], lengths = [[name, n]..]                    *)
EXTENDS Naturals, Integers, Sequences, FiniteSets, SequencesExt, FiniteSetsExt, TLC, Json, IOUtils
Obs == JsonDeserialize(IOEnv.TRACE_FILE)
VARIABLE c
Init == c \in 1 .. Len(Obs)
Next == FALSE /\ c' = c

RECURSIVE SeqLess(_, _)
SeqLess(a, b) == IF a = <<>> THEN b # <<>>
                 ELSE IF b = <<>> THEN FALSE
                 ELSE IF Head(a) # Head(b) THEN Head(a) < Head(b)
                 ELSE SeqLess(Tail(a), Tail(b))
SeqLeq(a, b) == a = b \/ SeqLess(a, b)

\* ---- key/value file: the multimap that was written ------------------------------
ValuesOf(writes, k) == LET sel == SelectSeq(writes, LAMBDA w : w[1] = k) IN [i \in DOMAIN sel |-> sel[i][2]]
MapFacts(o) ==
  [every_key_returns_its_first_value |->
       \A i \in DOMAIN o.gets : LET vs == ValuesOf(o.writes, o.gets[i][1]) IN
            o.gets[i][2] = IF vs = <<>> THEN "<absent>" ELSE vs[1],
   all_returns_every_value_in_order |-> \A i \in DOMAIN o.alls : o.alls[i][2] = ValuesOf(o.writes, o.alls[i][1]),
   membership |-> \A i \in DOMAIN o.has : o.has[i][2] = (ValuesOf(o.writes, o.has[i][1]) # <<>>),
   iteration_is_what_was_written |-> o.items = o.writes]

\* ---- ordered key/value file ------------------------------------------------------
Keys(o) == [i \in DOMAIN o.writes |-> o.writes[i][1]]
AtOrAfter(o, p) == SelectSeq(Keys(o), LAMBDA k : SeqLeq(p, k))
OrderedFacts(o) ==
  [iterates_in_key_order |-> o.keys = Keys(o) /\ \A i \in 1 .. Len(o.keys) - 1 : SeqLess(o.keys[i], o.keys[i + 1]),
   closest_key_at_or_after |-> \A i \in DOMAIN o.closest :
        LET rest == AtOrAfter(o, o.closest[i][1]) IN
        o.closest[i][2] = IF rest = <<>> THEN <<>> ELSE <<rest[1]>>,
   keys_from |-> \A i \in DOMAIN o.from : o.from[i][2] = AtOrAfter(o, o.from[i][1])]

\* ---- encodings: decode(encode(x)) = x ---------------------------------------------
RoundtripOK(o) == o.output = o.input

\* ---- external sort: the input, sorted ----------------------------------------------
Count(s, x) == Cardinality({i \in DOMAIN s : s[i] = x})
SortFacts(o) ==
  [ascending |-> \A i \in 1 .. Len(o.output) - 1 : SeqLeq(o.output[i], o.output[i + 1]),
   same_items |-> /\ Len(o.output) = Len(o.input)
                  /\ \A x \in ToSet(o.input) \cup ToSet(o.output) : Count(o.input, x) = Count(o.output, x)]

\* ---- compound file: byte-identical members -------------------------------------------
CompoundFacts(o) ==
  [members_byte_identical |-> ToSet(o.read) = ToSet(o.files) /\ Len(o.read) = Len(o.files),
   names_listed |-> ToSet(o.names) = {o.files[i][1] : i \in DOMAIN o.files} /\ Len(o.names) = Len(o.files),
   lengths |-> \A i \in DOMAIN o.lengths : \E j \in DOMAIN o.files :
                   o.files[j][1] = o.lengths[i][1] /\ o.lengths[i][2] * 2 = Len(o.files[j][2]),
   \* a member positioned from its end (seek(-k, 2)): [name, position told, bytes before it, bytes from it on]
   from_the_end |-> \A i \in DOMAIN o.ends : \E j \in DOMAIN o.files :
                   /\ o.files[j][1] = o.ends[i][1]
                   /\ o.ends[i][3] \o o.ends[i][4] = o.files[j][2]
                   /\ Len(o.ends[i][3]) = 2 * o.ends[i][2]]

AllTrue(F) == \A k \in DOMAIN F : F[k]
Facts(o) == CASE o.kind = "map" -> MapFacts(o)
              [] o.kind = "ordered" -> OrderedFacts(o)
              [] o.kind = "roundtrip" -> [decodes_to_what_was_encoded |-> RoundtripOK(o)]
              [] o.kind = "sorted" -> SortFacts(o)
              [] o.kind = "compound" -> CompoundFacts(o)
              [] o.kind = "error" -> [noerror |-> FALSE]
Inv == \/ AllTrue(Facts(Obs[c]))
       \/ PrintT(<<"REJECT", ToJson([tid |-> c, facts |-> Facts(Obs[c])])>>)
=============================================================================
