------------------------- MODULE AsyncFrontendTrace -------------------------
(* Validation of recorded runs of a real AsyncWriter in a short-lived process   *)
(* beside another writer (code -> spec).  Logged: what the two programs do and   *)
(* the moment the AsyncWriter's process is gone; not logged: the steps of the    *)
(* AsyncWriter's own thread (library code) - they are the silent actions TTry /   *)
(* TFinish of AsyncFrontend, taken whenever the specification allows them.        *)
(* TRACE_FILE: JSON array of traces, a trace is an array of events                *)
(*   {ev, mode, k, keys, gen}.                                                    *)
EXTENDS AsyncFrontend, Json, IOUtils, TLCExt
Traces == JsonDeserialize(IOEnv.TRACE_FILE)
NT == Len(Traces)
ASSUME \A t \in 1 .. NT : TLCSet(t, 0)
VARIABLES tid, l
tvars == <<vars, tid, l>>

TInit == tid \in 1 .. NT /\ l = 1 /\ Init
Ev == Traces[tid][l]
Is(e) == l <= Len(Traces[tid]) /\ Ev.ev = e /\ l' = l + 1 /\ tid' = tid
AsSet(q) == {q[i] : i \in DOMAIN q}

TNext == \/ Is("hacquire") /\ HAcquire
         \/ Is("hcommit") /\ HCommit
         \/ Is("acreate") /\ ACreate /\ mode' = Ev.mode
         \/ Is("arecord") /\ ARecord(Ev.k)
         \/ Is("acommit") /\ ACommit
         \/ Is("mainend") /\ MainEnd
         \/ Is("exit") /\ Exit
         \/ Is("probe") /\ proc = "exited" /\ AsSet(Ev.keys) = committed /\ Ev.gen = gen /\ UNCHANGED vars
         \/ (TTry \/ TFinish) /\ UNCHANGED <<tid, l>>

Mark == TLCSet(tid, IF TLCGet(tid) > l - 1 THEN TLCGet(tid) ELSE l - 1)
Report == \A t \in 1 .. NT : PrintT(<<"HWM", t, TLCGet(t), Len(Traces[t])>>)
=============================================================================
