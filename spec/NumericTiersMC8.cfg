CONSTANTS Bits = 8  Steps = {1,2,3,4,5,6,7,8}
INIT Init
NEXT Next
INVARIANT CoverageReport
CHECK_DEADLOCK FALSE
