----------------------------- MODULE MergePolicy -----------------------------
(* The merge policies a commit applies to the existing segments before it writes  *)
(* its own (W: src/whoosh/writing.py NO_MERGE, MERGE_SMALL, OPTIMIZE, CLEAR), as     *)
(* pure functions of the segments' sizes (doc_count_all).  A policy answers two      *)
(* things: which segments are merged into the segment being written, and which       *)
(* are kept, in which order.                                                        *)
(*                                                                                 *)
(* TLC evaluates them for *every* vector of at most MaxSegs sizes drawn from Sizes,   *)
(* checks the properties below on each, and prints the expected answer; the          *)
(* harness calls the real policy functions on segments of exactly these sizes and    *)
(* compares (spec -> code), on stub segments for all vectors and on real indexes     *)
(* (where the merged documents must also arrive in the new segment) for a sample.    *)
EXTENDS Naturals, Sequences, FiniteSets, TLC, Json

CONSTANTS Sizes, MaxSegs

\* whoosh.util.fib: 1, 2, 3, 5, 8, ...
RECURSIVE Fib(_)
Fib(n) == IF n <= 2 THEN n ELSE Fib(n - 1) + Fib(n - 2)

\* stable sort of the segment numbers 1..n by size (Python's sorted(key=...))
Sorted(sz) ==
  LET RECURSIVE Go(_, _)
      Go(k, acc) == IF k > Len(sz) THEN acc
                    ELSE Go(k + 1, LET RECURSIVE Ins(_)
                                       Ins(o) == IF o = <<>> THEN <<k>>
                                                 ELSE IF sz[k] < sz[Head(o)] THEN <<k>> \o o
                                                 ELSE <<Head(o)>> \o Ins(Tail(o))
                                   IN Ins(acc))
  IN Go(1, <<>>)

\* MERGE_SMALL, statement by statement: walk the segments by ascending size, adding up the sizes; the merge
\* point is the first position i (0-based) beyond 3 at which the total is still below fib(i + 5); everything up
\* to and including it is merged - if there is such a point (and more than one segment before it)
MergeSmall(sz) ==
  LET order == Sorted(sz)
      n == Len(order)
      RECURSIVE Total(_)
      Total(j) == IF j = 0 THEN 0 ELSE Total(j - 1) + sz[order[j]]
      \* position j (1-based) is 0-based index j - 1
      Points == {j \in 1 .. n : (j - 1) > 3 /\ Total(j) < Fib((j - 1) + 5)}
      point == IF Points = {} THEN 0 ELSE CHOOSE j \in Points : \A k \in Points : j <= k
  IN IF point > 1
     THEN [merged |-> {order[j] : j \in 1 .. point}, kept |-> SubSeq(order, point + 1, n)]
     ELSE [merged |-> {}, kept |-> [j \in 1 .. Len(sz) |-> j]]

Policy(name, sz) ==
  CASE name = "NO_MERGE" -> [merged |-> {}, kept |-> [j \in 1 .. Len(sz) |-> j]]
    [] name = "MERGE_SMALL" -> MergeSmall(sz)
    [] name = "OPTIMIZE" -> [merged |-> 1 .. Len(sz), kept |-> <<>>]
    [] name = "CLEAR" -> [merged |-> {}, kept |-> <<>>]          \* (dropped, not merged)

\* ---- the state space: one state per (policy, size vector) ---------------------------------
VARIABLE c
Vectors == UNION {[1 .. n -> Sizes] : n \in 0 .. MaxSegs}
Names == {"NO_MERGE", "MERGE_SMALL", "OPTIMIZE", "CLEAR"}
Init == \E nm \in Names : \E v \in Vectors : c = [policy |-> nm, sizes |-> v]
Next == FALSE /\ c' = c

Range(q) == {q[i] : i \in DOMAIN q}
Answer == Policy(c.policy, c.sizes)
\* every segment is either merged or kept (or, for CLEAR, dropped on purpose), none twice
Partition == LET a == Answer IN
  /\ a.merged \cap Range(a.kept) = {}
  /\ Len(a.kept) = Cardinality(Range(a.kept))
  /\ (c.policy # "CLEAR" => a.merged \cup Range(a.kept) = 1 .. Len(c.sizes))
\* MERGE_SMALL never merges a segment larger than one it keeps, and never merges just one
SmallestMerged == c.policy = "MERGE_SMALL" =>
  LET a == Answer IN
  /\ \A i \in a.merged : \A j \in Range(a.kept) : c.sizes[i] <= c.sizes[j]
  /\ Cardinality(a.merged) # 1
\* ... and with four segments or fewer it merges nothing
FewSegmentsUntouched == (c.policy = "MERGE_SMALL" /\ Len(c.sizes) <= 4) => Answer.merged = {}
Export == PrintT(<<"POL", ToJson([policy |-> c.policy, sizes |-> c.sizes,
                                  merged |-> Answer.merged, kept |-> Answer.kept])>>)
=============================================================================
