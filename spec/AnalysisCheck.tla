---------------------------- MODULE AnalysisCheck ----------------------------
(* Index-time and query-time analysis agree (C17).                             *)
(*                                                                             *)
(* The abstract index of a case is built from the token streams the field's     *)
(* analyzer produced in index mode (terms interned to <<id>>; one token per      *)
(* position, the gap token where a position was skipped; for analyzers that put  *)
(* several tokens on one position the positions are not modelled and no phrase   *)
(* is asked).  The real index was written by the writer from the same texts.     *)
(* TRACE_FILE: array of [idx, qs: array of [q, obs]]; kinds (besides QueryCheck's *)
(* ids):                                                                         *)
(*   has      doc, ids         the document must be among the documents found     *)
(*   stream   n, toks = [[term id, pos, startchar, endchar, slice term ids]..]    *)
(*            positional, offsets: flags of the analyzer                          *)
(*   highlight text, frags = [[code points]..] (markup stripped),                 *)
(*            marks = [[frag, start, end, [term ids of the span re-analysed]]..], *)
(*            qterms = term ids of the query, occ = [[frag, start, end]..] where  *)
(*            the query's terms occur (whole-text fragments only)                 *)
EXTENDS QuerySem, Json, IOUtils
Cases == JsonDeserialize(IOEnv.TRACE_FILE)
VARIABLE c
Init == \E ci \in 1 .. Len(Cases) : \E qi \in 1 .. Len(Cases[ci].qs) : c = <<ci, qi>>
Next == FALSE /\ c' = c

\* positions never decrease in order of appearance; with a positional analyzer they strictly increase
PositionsOK(o) == \A i \in 1 .. Len(o.toks) - 1 :
                     IF o.positional THEN o.toks[i][2] < o.toks[i + 1][2] ELSE o.toks[i][2] <= o.toks[i + 1][2]
\* offsets stay inside the text and delimit the token's source: analysing that slice alone gives the token back
OffsetsOK(o) == \A i \in DOMAIN o.toks :
                  /\ 0 <= o.toks[i][3] /\ o.toks[i][3] <= o.toks[i][4] /\ o.toks[i][4] <= o.n
                  /\ (o.offsets => o.toks[i][5] = <<o.toks[i][1]>>)
\* ... and no more than the source: where the analyzer splits at white space, a token's slice has none at its ends
\* (toks[i][6] = 1 when it has)
TightOK(o) == \A i \in DOMAIN o.toks : (o.offsets /\ "tight" \in DOMAIN o /\ o.tight /\ Len(o.toks[i]) >= 6) => o.toks[i][6] = 0
StreamFacts(o) == [positions_increase |-> PositionsOK(o), offsets_delimit_source |-> OffsetsOK(o),
                   offsets_exclude_surrounding_white_space |-> TightOK(o)]

\* HTML output with the formatter's own tags taken out: no raw angle bracket is left, and every ampersand
\* starts a character entity (so that the text, including a matched token, cannot be read as markup)
Entities == << <<38, 97, 109, 112, 59>>, <<38, 108, 116, 59>>, <<38, 103, 116, 59>>, <<38, 113, 117, 111, 116, 59>>,
               <<38, 35, 51, 57, 59>>, <<38, 35, 120, 50, 55, 59>> >>
StartsAt(s, k, e) == k + Len(e) - 1 <= Len(s) /\ SubSeq(s, k, k + Len(e) - 1) = e
EscapedOK(s) == \A k \in DOMAIN s : /\ s[k] \notin {60, 62}
                                    /\ (s[k] = 38 => \E i \in DOMAIN Entities : StartsAt(s, k, Entities[i]))
IsSubstring(f, t) == \E k \in 0 .. Len(t) - Len(f) : SubSeq(t, k + 1, k + Len(f)) = f
HighlightFacts(o) ==
  [fragments_are_substrings |-> \A i \in DOMAIN o.frags : IsSubstring(o.frags[i], o.text),
   html_text_is_escaped |-> \A i \in DOMAIN o.escaped : EscapedOK(o.escaped[i]),
   marks_inside_fragments |-> \A i \in DOMAIN o.marks :
        /\ o.marks[i][1] \in DOMAIN o.frags
        /\ 0 <= o.marks[i][2] /\ o.marks[i][2] < o.marks[i][3] /\ o.marks[i][3] <= Len(o.frags[o.marks[i][1]]),
   \* the span, analysed on its own, gives a query term (asked where a token can be analysed out of context)
   marked_spans_are_query_terms |-> o.spans_checked => \A i \in DOMAIN o.marks :
        ToSet(o.marks[i][4]) \cap ToSet(o.qterms) # {},
   \* (whole-text fragments only) a marked span is a union of whole occurrences of query terms: one of them
   \* starts the span and ends inside it, one of them ends the span and starts inside it
   marks_are_unions_of_matched_tokens |-> (o.occ # <<>>) => \A j \in DOMAIN o.marks :
        /\ \E i \in DOMAIN o.occ : /\ o.occ[i][1] = o.marks[j][1] /\ o.occ[i][2] = o.marks[j][2]
                                    /\ o.occ[i][3] <= o.marks[j][3]
        /\ \E i \in DOMAIN o.occ : /\ o.occ[i][1] = o.marks[j][1] /\ o.occ[i][3] = o.marks[j][3]
                                    /\ o.occ[i][2] >= o.marks[j][2]]

ObsOK(idx, m, q, o) ==
  CASE o.kind = "ids" -> o.ids = Ids(m)
    [] o.kind = "has" -> o.doc \in ToSet(o.ids)
    [] o.kind = "stream" -> PositionsOK(o) /\ OffsetsOK(o) /\ TightOK(o)
    [] o.kind = "highlight" -> LET F == HighlightFacts(o) IN
         F.fragments_are_substrings /\ F.html_text_is_escaped /\ F.marks_inside_fragments /\ F.marked_spans_are_query_terms
         /\ F.marks_are_unions_of_matched_tokens
    [] o.kind = "flag" -> o.value
    [] o.kind = "error" -> FALSE

Expected(idx, m, q, o) ==
  CASE o.kind = "ids" -> [ids |-> Ids(m)]
    [] o.kind = "has" -> [document_found |-> TRUE]
    [] o.kind = "stream" -> StreamFacts(o)
    [] o.kind = "highlight" -> HighlightFacts(o)
    [] OTHER -> [noerror |-> TRUE]

Inv ==
  LET cs == Cases[c[1]]
      qo == cs.qs[c[2]]
      m == Denote(cs.idx, qo.q)
  IN \A j \in DOMAIN qo.obs :
       \/ ObsOK(cs.idx, m, qo.q, qo.obs[j])
       \/ PrintT(<<"REJECT", ToJson([tid |-> c[1], qi |-> c[2], oi |-> j,
                                      expected |-> Expected(cs.idx, m, qo.q, qo.obs[j])])>>)
=============================================================================
