CONSTANTS
  Writers <- TraceWriters
  Readers <- TraceReaders
  Keys = {}
  MaxGen = 0
  MaxSeg = 0
  NoOne = NoOne
INIT TInit
NEXT TNext
CHECK_DEADLOCK FALSE
