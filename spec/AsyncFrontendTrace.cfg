CONSTANTS Keys = {"a1", "a2", "a3"}  Daemon = FALSE
INIT TInit
NEXT TNext
CONSTRAINT Mark
POSTCONDITION Report
CHECK_DEADLOCK FALSE
