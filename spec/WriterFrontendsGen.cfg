CONSTANTS Threads = {"t1", "t2"}  Keys = {"k1", "k2", "k3"}  Limit = 2  MaxOps = 6  NoOne = "none"
          HoldMutex = TRUE  InitKeys = {"k1"}
INIT GenInit
NEXT GenNext
CHECK_DEADLOCK FALSE
