CONSTANTS Alphabet = {1, 2}  MaxLen = 3  MaxK = 2  Transpose = FALSE
INIT Init
NEXT Next
INVARIANT CodeMeetsDocReport
CHECK_DEADLOCK FALSE
