"""Generates /verif/MANIFEST.json from the table below (python3 -m harness.manifest)."""
import json
import os

ROOT = os.path.dirname(os.path.dirname(os.path.abspath(__file__)))

BASELINE = ("cd /repo && /venv/bin/python -m pytest -ra -q -p no:cacheprovider --timeout=900 "
            "--continue-on-collection-errors")

# pid -> (category, text, design_ref, level_note, technique)
CHECKS = {
    "C20": ("model_checking",
            "IdSet.tla is the abstract type of the doc-id sets: TLC-generated call behaviours are replayed on every "
            "doc-id set class and call traces recorded from the real classes are validated event by event by "
            "IdSetTrace.tla. TablesCheck.tla states the abstract types of the file-format building blocks - the "
            "multimap a hash file must read back as (first value, all values in order, membership, iteration), "
            "ordered files (key order, closest key at or after k, keys_from), decode(encode(x)) = x for every number "
            "encoding / varint / GrowableArray / base85 / StructFile primitive, the external sort (ascending, same "
            "multiset), compound files (byte-identical members, names, lengths) - and TLC judges observations of "
            "HashWriter/Reader (3 hash functions, start offsets, duplicate and empty keys, values pushing offsets "
            "past 2^16), OrderedHashWriter/Reader, numlists, varints, SortingPool (run sizes 1..1000, 2..128 way "
            "merges) and CompoundWriter/CompoundStorage (buffer sizes 4..32K, saved as compound and as files).",
            "DESIGN.md 4.9, 5 (C20)",
            "Trusted: TLC, the JSON bridge, the adapters in harness/props/c20.py and harness/tables.py that map "
            "abstract calls to whoosh calls. Offsets beyond 2^31 are not built (they need > 2 GB files).",
            "TLA+ ADT specs + TLC; spec->code behaviour replay, code->spec trace validation and observation judging"),
}

CHECKS["C01"] = (
    "model_checking",
    "QuerySem.tla gives the documented denotation of every public query type over an index of analysed "
    "documents; TLC (QueryCheck.tla) evaluates it on each recorded case and judges what every access path of "
    "the real Searcher returned on real multi-segment indexes with deletions built through real writers; span "
    "queries (SpanOr/First/Near/Near2/Not/Contains/Before/Condition, Sequence) through QuerySem!Spans; "
    "Hit.matched_terms() through the matchedterms clause; one large sparse segment spanning several windows of the "
    "array-based union matcher.",
    "DESIGN.md 4.6, 5 (C01), 13.6",
    "Trusted: TLC, the concretisation tables in harness/world.py (letters, fields, analyzer with gap stop word), "
    "stored keys used to read back docnum order. Regex queries only via glob translation; not arbitrary regexes.",
    "TLA+ denotational spec evaluated by TLC as oracle over recorded searches (code->spec)")

CHECKS["C05"] = (
    "model_checking",
    "QuerySem!TopK (score desc, docnum asc over Denote) is evaluated by TLC for every recorded limited search; "
    "real indexes use posting blocks of 1..3 entries, several segments and deletions so that block skipping and "
    "matcher replacement engage (counted in the evidence); documents, scores and order must equal the spec's. "
    "Collector.tla (design model of the top-N collector: threshold soundness, exact top-K, exact count) is "
    "model-checked, and every step of traced real collections - documents delivered, thresholds handed to "
    "matcher.replace / skip_to_quality, kept entries, final ranking, len - is validated by CollectorTrace.tla.",
    "DESIGN.md 4.5, 5 (C05)",
    "Exact regime only (scoring.Frequency, dyadic boosts) so that scores compare with ==; other weightings are "
    "covered by C12's bound checks, not here. Trusted: TLC, harness/world.py concretisation.",
    "TLA+ spec of the exhaustive ranking as oracle, judged by TLC over recorded limited searches")
CHECKS["C09"] = (
    "model_checking",
    "QuerySem!Denote gives each hit's score as the documented composition (sum over matching clauses, max for "
    "DisjunctionMax, first operand for Require/AndNot, first plus second for AndMaybe, constants, boosts incl. "
    "document boosts); TLC judges the scores of recorded unlimited searches on multi-segment indexes. For every "
    "shipped weighting (BM25F variants, TF_IDF, PL2, DFree, Frequency, Multi/Function/Reverse, a final() hook) TLC "
    "also judges (QueryCheck 'layouts') that a deletion-free corpus gives every document the same score in one "
    "segment and in several, and (QueryCheck 'termstats') that the statistics the formulas are fed with (N, df, "
    "collection weight, total and per-document field length, per-document weight) are the corpus model's; the "
    "BM25F/TF_IDF term scores are then compared with the documented formula of those statistics.",
    "DESIGN.md 5 (C09)",
    "The composition is decided exactly in the exact regime (scoring.Frequency). Floating-point formulas cannot be "
    "evaluated by TLC: their *inputs* are decided by TLC and the formula itself is re-evaluated in the harness with a "
    "relative tolerance of 1e-9; layout independence is judged on scores interned with the same tolerance (the "
    "summation order legitimately depends on the layout). Scores of Not/phrase/multi-term clauses in scoring position "
    "are not asserted (the documentation does not fix them). PL2/DFree formulas are covered by layout independence only.",
    "TLA+ denotational score semantics, layout-independence and statistics clauses evaluated by TLC over recorded searches")

CHECKS["C11"] = (
    "model_checking",
    "MatcherTrace.tla is the cursor model (remaining-list state per matcher object; next/skip_to/reset/copy/"
    "all_ids/replace(0)/skip_to_quality(0) as actions). Random call programs over the matchers that real queries "
    "produce (top-level MultiMatcher trees and per-segment trees, array and tree unions, filters, spans) are "
    "recorded and every event is validated by TLC; the reference list is also judged against QuerySem!Denote.",
    "DESIGN.md 4.4, 5 (C11)",
    "Trusted: TLC, the recorder in harness/mtrace.py (it observes through copy() of the matcher, so copy "
    "independence is exercised by every observation). Programs are random, not exhaustive.",
    "TLA+ cursor specification; code->spec trace validation of recorded matcher call programs")
CHECKS["C12"] = (
    "model_checking",
    "Same cursor model with the quality clauses: block_quality >= current score (and every score of the current "
    "posting block for term matchers), max_quality >= every remaining score, skip_to_quality(q)/replace(q) never "
    "lose an entry scoring more than q, for thresholds below/at/between/above the scores. Exact regime plus a rank "
    "regime in which all floats of a trace are replaced by their ranks, for BM25F variants, TF_IDF, PL2, DFree, "
    "Frequency, Multi/Function/Reverse weighting.",
    "DESIGN.md 4.4, 5 (C12)",
    "Rank interning preserves every comparison the spec makes; no tolerance. Known findings (PL2/DFree/Reverse "
    "bounds, unscaled WrappingMatcher.replace) are tolerated only for their exact clause/weighting.",
    "TLA+ cursor+bounds specification; code->spec trace validation")

_IXS_NOTE = ("Trusted: TLC; the tracing storages in harness/storage.py (Whoosh's Storage extension point; each operation "
             "and its event form one atomic step of the log, across threads by a mutex and across processes by a "
             "flock); the summary of a renamed TOC is read back with the public TOC.read. Power-loss reordering "
             "(no fsync model) and Windows delete-while-open semantics are not modelled.")
CHECKS["C02"] = (
    "model_checking",
    "IndexStore.tla has one action per storage operation of the commit protocol and a Crash action enabled at "
    "every step; TLC checks Recoverable/OrphanFree in every state. A real writer process is killed with os._exit at "
    "storage-operation boundaries (every non-write boundary plus sampled writes, 8 transaction shapes, truncated open "
    "files), the directory is reopened, probed and written again, and the whole trace is validated by "
    "IndexStoreTrace.tla (each event must be an enabled action; every invariant holds after every event).",
    "DESIGN.md 4.1, 5 (C02)", _IXS_NOTE,
    "TLA+ protocol spec model-checked with crashes; fault injection at every storage operation; trace validation")
CHECKS["C03"] = (
    "model_checking",
    "Reader actions of IndexStore.tla (list, open TOC, open segment, retry, probe) interleaved with writers in the "
    "model; storage traces of sequential histories with held/refreshed searchers and of concurrent writer/reader "
    "threads are validated: every probe must equal content[generation the reader opened], up_to_date() must agree "
    "with the reader's last directory listing, readers open only files of their generation.",
    "DESIGN.md 4.1, 5 (C03)", _IXS_NOTE,
    "TLA+ protocol spec + trace validation of real reader/writer interleavings")
CHECKS["C04"] = (
    "model_checking",
    "Lock actions and the commit-point guard (one generation forward from the newest, TOC read under the lock, "
    "content chain) in IndexStore.tla; LockMutex/GenChain as invariants and lock freedom as a liveness property "
    "under fairness; traces of 2-4 racing writer threads, 2-3 racing processes on the real flock, fork-while-locked, "
    "AsyncWriter and BufferedWriter, with commit/cancel/failing with-block outcomes, are validated event by event.",
    "DESIGN.md 4.1, 5 (C04)", _IXS_NOTE + " The wall-clock length of the timeout is not asserted.",
    "TLA+ protocol spec (safety + liveness) + trace validation of racing writers")
CHECKS["C07"] = (
    "model_checking",
    "The dictionary model is the commit-point effect content' = (content \\ dels) u adds of IndexStore.tla, with "
    "update_document deleting committed documents that share ANY unique field value, DeleteCount for returned "
    "counts, cancel/failing with-block as unlock-without-rename. Random histories over successive writers are "
    "traced; after every commit 9 read paths, doc_count, has_deletions are probed and judged by TLC.",
    "DESIGN.md 4.2, 5 (C07)", _IXS_NOTE,
    "TLA+ spec of document-level commit semantics + trace validation of random histories")

CHECKS["C15"] = (
    "model_checking",
    "QuerySem!Denote of the ORIGINAL query is evaluated by TLC and compared with the documents matched by 13 "
    "rewritten forms (normalize, normalize twice, & | -, with_boost, replace of an absent term, apply/accept "
    "identity, deepcopy, pickle, simplify) on real multi-segment indexes; idempotence and absence of exceptions "
    "are recorded facts, estimate_size() is judged as an upper bound on |Denote|.",
    "DESIGN.md 4.6, 5 (C15)",
    "Random trees (depth <= 2) plus targeted range compounds with touching/nested/duplicate end points; fuzzy "
    "terms excluded (C19). Two test-pinned And.normalize() behaviours are recorded findings, recognised by "
    "re-running the identical rewrite with the single method corrected (harness/patches.py).",
    "TLA+ denotational spec as oracle for rewritten queries (code->spec)")

CHECKS["C13"] = (
    "model_checking",
    "NumericTiers.tla is a statement-by-statement transcription of split_ranges; TLC checks Coverage for every "
    "(step, start, end) of a bit width (6 bits quick, 8 bits thorough) - it found the small-end underflow that was "
    "then shown on the real function and repaired. The sub-ranges the real function returns are judged by "
    "NumericTiersTrace.tla; NumericRange/DateRange searches on int 8-64 signed/unsigned, float, Decimal, DATETIME "
    "fields (shift_step 0-8, domain extremes, exclusive/open ends) by QuerySem!InRange on rank-interned values.",
    "DESIGN.md 4.8, 5 (C13)",
    "Ranks preserve every comparison (no 64-bit arithmetic in TLC). Order-isomorphism, round trip and domain "
    "rejection of the sortable encoding are recorded as facts over boundary-biased pools, not proved for the whole "
    "64-bit domain.",
    "TLA+ transcription model-checked exhaustively at small width + TLC-judged outputs of the real function")
CHECKS["C19"] = (
    "model_checking",
    "EditDistance.tla: documented Damerau-Levenshtein distance and a transcription of the Levenshtein NFA; TLC "
    "checks NFA == distance for all words up to 3 letters over {a,b}, k<=2, every prefix. terms_within / FuzzyTerm "
    "/ suggest on real one- and three-segment indexes whose lexicon is every word up to 3-4 letters (plus "
    "multi-byte letters), for every (word, k, prefix incl. longer than the word), judged by TLC; "
    "Searcher.correct_query on typed queries mixing terms and non-terms (CorrectFacts).",
    "DESIGN.md 4.8, 5 (C19), 13.7",
    "Recorded findings: segment readers expand with plain Levenshtein (test-pinned through the spelling tests), "
    "suggestions include the word itself and are not ranked by closeness (test-pinned).",
    "TLA+ distance/automaton spec model-checked exhaustively + TLC-judged fuzzy expansions of the real code")

_CONTENT_NOTE = ("Trusted: TLC; harness/cworld.py (schema over the shipped field/column types, injective value "
                 "pools, read-back of docnum order through the stored key). The byte codecs are exercised, not modelled; "
                 "values outside the pools and offsets past 2^31 are not covered.")
CHECKS["C06"] = (
    "model_checking",
    "ContentCheck.tla defines the logical content (live keys by the dictionary model over the operations, lexicon, "
    "postings with frequencies and positions, field lengths, stored values, column values, vectors, term "
    "statistics, counts) as a function of the documents alone; the same operations are executed as one optimised "
    "commit and under random commit partitions x merge choices x block limits x pool spilling, and every layout's "
    "canonical dump is judged by TLC; BM25F scores are compared across deletion-free layouts.",
    "DESIGN.md 4.2, 5 (C06)", _CONTENT_NOTE,
    "TLA+ logical-content spec as oracle for canonical dumps of differently laid out indexes")
CHECKS["C08"] = (
    "model_checking",
    "Stored/column clauses of ContentCheck.tla: which value id belongs to which document after any history, absent "
    "=> absent / column default. Injective pools cover the value classes of the statement (300 distinct reference "
    "values, long values pushing offsets past 2^16 in the large rounds); merges of segments with deletions, "
    "compound/loose, mmap/no mmap/RAM/copy_to_ram, a rejected add_document between documents, the _stored_ override.",
    "DESIGN.md 4.9, 5 (C08)", _CONTENT_NOTE + " The >32768-document single segment needed for the column offset array "
    "is built only in the thorough tier.",
    "TLA+ document/value alignment spec judged by TLC over dumps of real indexes")
CHECKS["C18"] = (
    "model_checking",
    "The same ContentCheck.tla oracle over the product storage x packing x writer front-end (plain, MpWriter with "
    "1-3 processes / batch sizes / merged or multisegment, BufferedWriter with small and large limits and with or "
    "without explicit commits, AsyncWriter), with a history that contains an optimising commit over existing "
    "segments and ends in deletions; BufferedWriter.searcher() view and close().",
    "DESIGN.md 4.3, 5 (C18)", _CONTENT_NOTE + " Timer firings of BufferedWriter are not scheduled (period=None).",
    "TLA+ logical-content spec as oracle across storage/front-end configurations")

CHECKS["C10"] = (
    "model_checking",
    "PostingList / WeightList / CharList / VectorOf / term-statistics clauses of ContentCheck.tla: random token "
    "streams (repeats, position gaps, terms of 1-40 letters incl. multi-byte, document boosts) indexed under "
    "Existence/Frequency/Positions/Characters formats and vectors, with W3 block limits 1,2,3,4,128, compression "
    "0/3/9, inlining, the in-memory and the plain-text codec; every list (ids, frequency, weight, positions, "
    "character ranges), every term statistic and every vector is judged by TLC.",
    "DESIGN.md 4.9, 5 (C10)", _CONTENT_NOTE + " Weights are dyadic so that float32 storage is exact; per-position "
    "boosts (PositionBoosts/CharacterBoosts formats) are not generated.",
    "TLA+ posting-list spec as oracle for postings/term statistics/vectors read from real segments")

CHECKS["C14"] = (
    "model_checking",
    "ResultsCheck.tla defines, over QuerySem!Denote / Rank, the sorted order (lexicographic over 1-3 keys with mixed "
    "directions, score keys, global reverse, document order on ties), the groups (single-valued and overlapping), the "
    "collapsed ranking (at most n per key, key-less documents never collapsed), the filter/mask restriction and the "
    "page arithmetic; real searches over random multi-segment indexes with deletions, missing values, column-backed "
    "and posting-backed facet fields (int, text, datetime, boolean, keyword), stored-field facets, range facets "
    "(gap sequences, hardend) and query facets (as sort keys and as groupings, overlapping or not, with an 'other' key) "
    "are judged by TLC; so are date range facets, the FacetMap views (OrderedList, UnorderedList, Count, Best), "
    "collapse_order, collapsed_counts and len() of collapsed results, the limit with groupedby/reverse, and "
    "Results.extend/filter/upgrade/upgrade_and_extend.",
    "DESIGN.md 4.10, 5 (C14), 13.7", "Exact regime (scoring.Frequency, dyadic boosts). Where a document lacks a sort key its "
    "position is not fixed by the property: only the relative order of the documents that have all keys, and the "
    "membership, are judged. FunctionFacet is not generated.",
    "TLA+ results-view spec (sort/group/collapse/filter/page) as oracle for real searches")

CHECKS["C16"] = (
    "model_checking",
    "QueryLang.tla defines expression trees of the query language, their text (Render: NOT tightest, then AND, OR, "
    "the binary operators parenthesised when mixed, then juxtaposition; field prefixes and field groups, phrases "
    "with slop, ranges, wildcards, boosts; the +/- language of SimpleParser/DisMaxParser) and their documented "
    "reading (Meaning) as a QuerySem query. TLC renders random trees, the real parsers (default, OrGroup, "
    "OrGroup.factory, Multifield and, or, Simple, DisMax) parse exactly that text, the parsed query is searched on "
    "real multi-segment indexes and TLC judges the selected documents against Denote(Meaning(tree)). Totality: "
    "TLC enumerates every string of <= 2 (quick) / <= 3 (thorough) tokens of the alphabet in QueryLangInputs.tla "
    "plus random longer ones; 13 parser configurations (incl. all optional plugins, schema-less, numeric/date/ngram "
    "default fields) parse each and every parsed query is searched on an index with every field type; TLC judges "
    "each distinct (parser, parse outcome, search outcome).",
    "DESIGN.md 4.11, 5 (C16)", "Membership only (boosts are transparent). The language fragment is the one in the "
    "property statement; fuzzy/regex/function/date syntax takes part in totality only. Totality is exhaustive only up "
    "to the stated token bound over the stated alphabet.",
    "TLA+ grammar/meaning spec: TLC renders expressions and enumerates inputs, real parsers and searches are judged by TLC")

CHECKS["C17"] = (
    "model_checking",
    "AnalysisCheck.tla over QuerySem: the abstract index is built from the token streams the field's analyzer yields "
    "in index mode, the real index is written by the real writer from the same texts. For 34 analyzer/field "
    "configurations (standard, simple, stemming, 9 language analyzers, regex, keyword, id, n-gram fields and "
    "filters, accent folding, intraword incl. the documented MultiFilter use, biword, shingle, metaphone, tee, "
    "compound words, substitution) TLC judges: Term(t) for every index-time token, And(query-time tokens of the "
    "document's own text), Phrase(runs of consecutive positions) - exact result sets and 'the document is found'; "
    "parser.parse(own word) finds the document; positions increase; offsets stay inside the text and the source "
    "slice analyses back to the token (offset-preserving analyzers); highlight fragments stripped of markup are "
    "substrings of the stored text and marked spans analyse to query terms (4 fragmenters).",
    "DESIGN.md 5 (C17)", "Texts are random concatenations of a fixed multi-script word pool (Latin with "
    "diacritics, Cyrillic, Greek, CJK, Arabic, Hebrew, digits, URLs, e-mail, very long tokens, ligatures, "
    "case-expanding letters, emoji). 'Offsets delimit exactly the source' is decided as: analysing the slice alone "
    "gives the token back, for analyzers flagged offset-preserving in harness/props/c17.py; formatters other than a "
    "marker formatter are not exercised (HTML escaping is not part of the statement).",
    "TLA+ token-model spec (QuerySem + AnalysisCheck) judged by TLC over real indexes, parses and highlights")

NOT_YET = {}


# what the later rounds added to each check (DESIGN.md 13.7-13.9)
LATER = {
    "C01": "negation worlds, phrases at the edge of their slop, nested parent/child queries on random and on "
           "family-shaped indexes (groups of a parent and its children).",
    "C02": "the quick tier covers every transaction shape (CLEAR, delete-only, cancel, loose segments ...), one of "
           "them at every storage-operation boundary.",
    "C03": "storages without mmap, snapshots first read after later commits merged their segments away, a staged "
           "reader-open race (a merging commit runs inside the reader's first segment open), a failed open tolerated "
           "only after several lost races; rich probes (sorted, grouped, by-key lookups) of every held searcher.",
    "C04": "with-blocks left by KeyboardInterrupt / SystemExit / GeneratorExit / a custom BaseException, each followed "
           "by an immediate writer; AsyncWriter and delete_by_query scenarios; a forked child outliving the writer.",
    "C05": "a rank regime (TopPrefixOK) for every weighting model and final() hook, stepped posting lists, positional "
           "queries over conjunctions with span-less blocks, DisjunctionMax tie-break, excluded unions.",
    "C06": "other writer front-ends as the last partition, a partition imported with add_reader(), long fields, a "
           "field removed, optimised away and added again; per-token boosts and vectors in another format.",
    "C07": "schema operations, delete_by_query / delete_document incl. restoring (delete=False), with-blocks left by "
           "non-Exception exits, reopened index handles.",
    "C08": "column-only fields of every column type, a directly written segment with > 256 reference values, "
           "_stored_ overrides, column-less segments, sorting.add_sortable().",
    "C10": "term iteration (terms_from, iter_field/prefix, most_frequent_terms), per-token boosts in the Frequency / "
           "Positions / Characters formats, vectors in another format than the postings, vector_as().",
    "C11": "nested parent/child matchers incl. an exhaustive (position, target) skip sweep, negations of rare terms, "
           "stepped lists.",
    "C12": "threshold sweeps, 2048-document windows of the array union, stepped lists, span matchers over "
           "conjunctions with span-less blocks, a 20 s deadline per matcher call.",
    "C13": "FieldType.parse_range incl. DATETIME; ranges typed as partial dates (periods, exclusive bounds, leap "
           "years) through parse_range and the query parser.",
    "C14": "FacetMap views, collapse order, collapsed counts, Results operations, date range facets, collapsing under "
           "reverse=True, posting-backed and reversed group facets, ColumnQuery, heap-only worlds for top-k collapse.",
    "C15": "twins differing in one attribute (Sequence, FuzzyTerm), nested queries, immutability of the original.",
    "C16": "GtLtPlugin comparisons, reconfigured parsers, range bounds around the keyword TO (letters t and o).",
    "C17": "n-gram variants, HTML escaping of highlights, cache sizes, empty values, shingle offsets.",
    "C18": "CLEAR through a waiting AsyncWriter, a document arriving during a BufferedWriter commit, a delete-only "
           "BufferedWriter.commit() seen by other readers, term statistics of buffered documents read twice.",
    "C19": "Searcher.correct_query, completeness of uncut suggestion lists, spelling words of stemmed fields, the "
           "same FuzzyTerm results in one segment and in three.",
}


def build():
    props = [json.loads(l) for l in open(os.path.join(ROOT, "properties.jsonl"))]
    checks = []
    na = []
    for p in props:
        pid = p["id"]
        if pid in CHECKS:
            cat, text, ref, note, tech = CHECKS[pid]
            if pid in LATER:
                text = text + " Added later (DESIGN.md 13.7-13.9): " + LATER[pid]
            checks.append({
                "property_id": pid,
                "quick_cmd": "./check %s --tier quick" % pid,
                "thorough_cmd": "./check %s --tier thorough" % pid,
                "evidence_file": "/verif/evidence/%s.json" % pid,
                "replay_cmd_template": "./check %s --replay {path}" % pid,
                "engine": "tlc+harness",
                "level_claimed": {"category": cat, "text": text, "design_ref": ref},
                "level_note": note,
                "technique": tech,
            })
        else:
            na.append({"property_id": pid,
                       "reason": NOT_YET.get(pid, "check under construction in this session; not yet claimed")})
    m = {
        "version": 1,
        "setup_cmd": "./check --setup",
        "hooks": {
            "guard": "WHOOSH_VERIF",
            "enable": "WHOOSH_VERIF=1 in the environment of the harness processes (set by ./check)",
            "baseline_off_cmd": BASELINE,
            "source_commits": [],
            "add_only": True,
        },
        "engines": [
            {"name": "tlc+harness", "path": "/verif/spec, /verif/harness",
             "serves_properties": sorted(CHECKS),
             "kind_free_text": "explicit TLA+ specifications model-checked with TLC and bound to /repo by "
                               "behaviour replay (spec->code) and trace validation (code->spec)"},
        ],
        "checks": checks,
        "not_applicable": na,
        "notes": "See DESIGN.md. known_findings.json lists recorded defects and fix: commits.",
    }
    with open(os.path.join(ROOT, "MANIFEST.json"), "w") as f:
        json.dump(m, f, indent=1)
    return m


if __name__ == "__main__":
    m = build()
    import subprocess
    subprocess.check_call(["python3-vt", "-c",
                           "import json,jsonschema;jsonschema.validate(json.load(open('%s/MANIFEST.json')),"
                           "json.load(open('/root/.vp/MANIFEST.schema.json')))" % ROOT])
    print("MANIFEST ok: %d checks, %d not_applicable" % (len(m["checks"]), len(m["not_applicable"])))
