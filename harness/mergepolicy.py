"""spec -> code for MergePolicy.tla: TLC evaluates the merge policies for every vector of segment sizes up to a
bound and prints which segments each policy merges and which it keeps, in which order; the real policy functions
are called on segments of exactly these sizes - stub segments for every vector, real indexes for a sample (there the
documents of the merged segments must also arrive, once each, in the segment the commit writes)."""
import json


class _Seg(object):
    def __init__(self, i, n):
        self.i, self.n = i, n

    def doc_count_all(self):
        return self.n

    def doc_count(self):
        return self.n


class _Writer(object):
    storage = None
    schema = None

    def __init__(self):
        self.merged = []

    def add_reader(self, reader):
        self.merged.append(reader.seg.i)


class _Reader(object):
    def __init__(self, storage, schema, seg):
        self.seg = seg

    def close(self):
        pass


def replay_stubs(run, cases):
    """cases: dicts {policy, sizes, merged, kept} printed by MergePolicy!Export"""
    from whoosh import writing, reading
    orig = reading.SegmentReader
    reading.SegmentReader = _Reader          # (the policies build their readers through this name)
    try:
        for cs in cases:
            fn = getattr(writing, cs["policy"])
            segs = [_Seg(i + 1, n) for i, n in enumerate(cs["sizes"])]
            w = _Writer()
            try:
                kept = [s.i for s in fn(w, list(segs))]
                got = {"merged": sorted(w.merged), "kept": kept}
                err = ""
            except Exception as ex:
                got, err = None, "%s: %s" % (type(ex).__name__, str(ex)[:100])
            exp = {"merged": sorted(cs["merged"]), "kept": list(cs["kept"])}
            run.count()
            if got != exp:
                run.violation({"check": "mergepolicy-replay", "policy": cs["policy"], "nseg": len(cs["sizes"]), "err": err},
                              {"sizes": cs["sizes"], "expected": exp, "got": got})
            elif cs["merged"] and cs["kept"]:
                run.nontriv(("mergepolicy", cs["policy"], json.dumps(cs["sizes"])))
    finally:
        reading.SegmentReader = orig


def replay_real(run, cases, rng, n):
    """A sample of the MERGE_SMALL cases on real indexes: segments of the given sizes, then an empty commit with
    the default policy; which segments survive, and what the new one holds."""
    from whoosh import fields
    from whoosh.filedb.filestore import RamStorage
    pick = [c for c in cases if c["policy"] == "MERGE_SMALL" and c["merged"] and sum(c["sizes"]) <= 60 and min(c["sizes"]) > 0]
    rng.shuffle(pick)
    for cs in pick[:n]:
        schema = fields.Schema(key=fields.ID(stored=True), body=fields.TEXT)
        ix = RamStorage().create_index(schema)
        segid = {}
        for i, size in enumerate(cs["sizes"]):
            w = ix.writer()
            for j in range(size):
                w.add_document(key=u"s%d-%d" % (i + 1, j), body=u"x y")
            w.commit(merge=False)
        for i, seg in enumerate(ix._segments()):
            segid[seg.segment_id()] = i + 1
        w = ix.writer()
        w.add_document(key=u"new", body=u"x")
        w.commit()                                    # (mergetype default: MERGE_SMALL)
        kept, newdocs = [], None
        with ix.reader() as r:
            for sub, off in r.leaf_readers():
                sid = sub.segment().segment_id()
                if sid in segid:
                    kept.append(segid[sid])
                else:
                    newdocs = sorted(sub.stored_fields(d)["key"] for d in sub.all_doc_ids())
        exp_new = sorted([u"s%d-%d" % (i, j) for i in cs["merged"] for j in range(cs["sizes"][i - 1])] + [u"new"])
        run.count()
        if kept != list(cs["kept"]) or newdocs != exp_new:
            run.violation({"check": "mergepolicy-real", "policy": "MERGE_SMALL", "nseg": len(cs["sizes"])},
                          {"sizes": cs["sizes"], "expected_kept": cs["kept"], "kept": kept,
                           "expected_new_segment": exp_new, "new_segment": newdocs})
        else:
            run.nontriv(("mergepolicy-real", json.dumps(cs["sizes"])))
        ix.close()


def check(run, rng, quick):
    from harness import tlc
    res = tlc.run_tlc("MergePolicy", "MergePolicyMC.cfg" if quick else "MergePolicyMC_large.cfg", timeout=1800, workers=16)
    run.add_tlc("MergePolicy", res)
    if res.violation:
        raise tlc.TLCError("MergePolicy.tla: %s\n%s" % (res.violation, tlc.tail(res.stdout, 30)))
    cases = res.tagged.get("POL", [])
    if len(cases) != res.distinct:
        raise tlc.TLCError("MergePolicy exported %d of %d cases" % (len(cases), res.distinct))
    replay_stubs(run, cases)
    replay_real(run, cases, rng, 12 if quick else 150)
    run.extra["merge_policy_cases"] = len(cases)
