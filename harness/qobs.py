"""Observations of real searches, in the vocabulary of QueryCheck.tla."""
import json

from harness import world, traces as tr, tlc

UNIT = world.UNIT
ENGAGED = {}


def _scaled(score):
    v = score * UNIT
    iv = int(round(v))
    # exact regime: scores are dyadic rationals; anything else is reported as-is
    # through a value the spec can never produce
    if abs(v - iv) > 1e-6:
        return -int(abs(v) * 1000) - 1
    return iv


import contextlib


@contextlib.contextmanager
def scaled_wrapping_replace():
    """Used only to *classify* a violation as an instance of the recorded finding
    'WrappingMatcher.replace() does not divide the threshold by its boost': the same
    search is repeated with that one method corrected."""
    from whoosh.matching import wrappers
    orig = wrappers.WrappingMatcher.replace

    def replace(self, minquality=0):
        b = getattr(self, "boost", 1.0)
        if minquality and b:
            minquality = minquality / b
        return orig(self, minquality)
    wrappers.WrappingMatcher.replace = replace
    try:
        yield
    finally:
        wrappers.WrappingMatcher.replace = orig


def hits_of(results):
    return [[int(dn), _scaled(sc)] for sc, dn in results.top_n]


# (queries with Not are left out: whether the negated clause's term matchers stand on a document that the
# query matches through another clause depends on when the inverse matcher last moved them)
MT_OPS = set(["term", "null", "every", "and", "or", "dismax", "const", "andnot", "andmaybe", "require", "phrase",
              "prefix", "wildcard", "termrange"])


def _codes(text):
    from harness import world
    inv = dict((v, k) for k, v in world.LETTERS.items())
    if isinstance(text, bytes):
        text = text.decode("utf8")
    return [inv.get(ch, 99) for ch in text]


def obs_paths(searcher, q, paths, limits=(0, 1, 2, 3), cmp="full", alt=False, aq=None):
    """Returns the list of observations for query object q through the given access paths."""
    from whoosh import sorting
    obs = []

    def guard(path, fn):
        try:
            fn()
        except Exception as ex:  # recorded as an observation the spec cannot accept
            obs.append({"kind": "error", "path": path, "err": type(ex).__name__, "msg": str(ex)[:200]})

    if "docs_for_query" in paths:
        guard("docs_for_query", lambda: obs.append(
            {"kind": "ids", "path": "docs_for_query", "ids": sorted(int(d) for d in searcher.docs_for_query(q))}))
    if "query.docs" in paths:
        guard("query.docs", lambda: obs.append(
            {"kind": "ids", "path": "query.docs", "ids": sorted(int(d) for d in q.docs(searcher))}))
    if "unlimited" in paths:
        def f():
            r = searcher.search(q, limit=None)
            obs.append({"kind": "ranked", "path": "search(limit=None)", "k": 0, "hits": hits_of(r), "cmp": cmp})
            obs.append({"kind": "count", "path": "len(search(limit=None))", "n": len(r)})
            obs.append({"kind": "ids", "path": "search(limit=None).docs()", "ids": sorted(int(d) for d in r.docs())})
        guard("search(limit=None)", f)
    if "limited" in paths:
        for k in limits:
            if k <= 0:
                continue

            def f(k=k):
                c = searcher.collector(limit=k)
                searcher.search_with_collector(q, c)
                r = c.results()
                ENGAGED["searches"] = ENGAGED.get("searches", 0) + 1
                if getattr(c, "skipped_times", 0):
                    ENGAGED["skipped"] = ENGAGED.get("skipped", 0) + 1
                if getattr(c, "replaced_times", 0) > 1:
                    ENGAGED["replaced"] = ENGAGED.get("replaced", 0) + 1
                o = {"kind": "ranked", "path": "search(limit=%d)" % k, "k": k, "hits": hits_of(r), "cmp": cmp}
                if alt:
                    with scaled_wrapping_replace():
                        o["alt"] = hits_of(searcher.search(q, limit=k))
                obs.append(o)
                obs.append({"kind": "count", "path": "len(search(limit=%d))" % k, "n": len(r)})
            guard("search(limit=%d)" % k, f)
            if k == limits[-1] or k == 1:
                # the same search told not to use block qualities: same hits, same count
                def g(k=k):
                    r = searcher.search(q, limit=k, optimize=False)
                    o = {"kind": "ranked", "path": "search(limit=%d,optimize=False)" % k, "k": k, "hits": hits_of(r),
                         "cmp": cmp}
                    if alt:
                        with scaled_wrapping_replace():
                            o["alt"] = hits_of(searcher.search(q, limit=k, optimize=False))
                    obs.append(o)
                    obs.append({"kind": "count", "path": "len(search(limit=%d,optimize=False))" % k, "n": len(r)})
                guard("search(limit=%d,optimize=False)" % k, g)
    if "weightingquery" in paths:
        # the query wrapped in a WeightingQuery that asks for the searcher's own (exact) weighting, run on a searcher
        # that scores with another model: the scores are those of the wrapper's model
        def f():
            from whoosh import query, scoring
            s2 = searcher.__class__(searcher.reader(), weighting=scoring.BM25F(), closereader=False)
            r = s2.search(query.WeightingQuery(q, searcher.weighting), limit=None)
            obs.append({"kind": "ranked", "path": "WeightingQuery(q, Frequency) on a BM25F searcher", "k": 0,
                        "hits": hits_of(r), "cmp": cmp})
        guard("weightingquery", f)
    if "unscored" in paths:
        def f():
            r = searcher.search(q, limit=None, scored=False)
            obs.append({"kind": "ids", "path": "search(scored=False)", "ids": sorted(int(d) for _, d in r.top_n)})
            obs.append({"kind": "count", "path": "len(search(scored=False))", "n": len(r)})
        guard("search(scored=False)", f)
    if "sorted" in paths:
        def f():
            r = searcher.search(q, limit=None, sortedby="key")
            obs.append({"kind": "ids", "path": "search(sortedby=key)", "ids": sorted(int(d) for _, d in r.top_n)})
            r2 = searcher.search(q, limit=2, sortedby="key")
            obs.append({"kind": "count", "path": "len(search(sortedby=key,limit=2))", "n": len(r2)})
        guard("search(sortedby)", f)
    if "terms" in paths:
        def f():
            r = searcher.search(q, limit=None, terms=True)
            obs.append({"kind": "ranked", "path": "search(limit=None,terms=True)", "k": 0, "hits": hits_of(r), "cmp": cmp})
            if aq is not None and ops_of(aq) <= MT_OPS and '"mtype"' not in json.dumps(aq):
                obs.append({"kind": "matchedterms", "path": "Hit.matched_terms() of search(limit=None,terms=True)",
                            "partial": False,
                            "hits": sorted([int(h.docnum), sorted([f, _codes(t)] for f, t in h.matched_terms())]
                                           for h in r)})
            r2 = searcher.search(q, limit=2, terms=True)
            o = {"kind": "ranked", "path": "search(limit=2,terms=True)", "k": 2, "hits": hits_of(r2), "cmp": cmp}
            if alt:
                with scaled_wrapping_replace():
                    o["alt"] = hits_of(searcher.search(q, limit=2, terms=True))
            obs.append(o)
            if aq is not None and ops_of(aq) <= MT_OPS and '"mtype"' not in json.dumps(aq):
                mo = {"kind": "matchedterms", "path": "Hit.matched_terms() of search(limit=2,terms=True)",
                      "partial": True,
                      "hits": sorted([int(h.docnum), sorted([f, _codes(t)] for f, t in h.matched_terms())]
                                     for h in r2)}
                if alt:
                    with scaled_wrapping_replace():
                        r3 = searcher.search(q, limit=2, terms=True)
                        mo["alt"] = sorted([int(h.docnum), sorted([f, _codes(t)] for f, t in h.matched_terms())]
                                           for h in r3)
                obs.append(mo)
            obs.append({"kind": "count", "path": "len(search(limit=2,terms=True))", "n": len(r2)})
        guard("search(terms=True)", f)
    return obs


def shape(q):
    """Compact operator skeleton of an abstract query (for signatures)."""
    op = q["op"]
    if op in ("and", "or", "dismax"):
        return "%s(%s)" % (op, ",".join(shape(k) for k in q["kids"]))
    if op in ("andnot", "andmaybe", "require"):
        return "%s(%s,%s)" % (op, shape(q["a"]), shape(q["b"]))
    if op in ("not", "const", "spanfirst"):
        return "%s(%s)" % (op, shape(q["q"]))
    if op in ("spanor", "spannear2", "sequence"):
        return "%s(%s)" % (op, ",".join(shape(k) for k in q["kids"]))
    if op.startswith("nested"):
        return "%s(%s,%s)" % (op, shape(q["p"]), shape(q["q"]))
    if op.startswith("span"):
        return "%s(%s,%s)" % (op, shape(q["a"]), shape(q["b"]))
    return op


def ops_of(q, acc=None):
    acc = set() if acc is None else acc
    acc.add(q["op"])
    for k in q.get("kids", []):
        ops_of(k, acc)
    for key in ("a", "b", "q", "p"):
        if key in q and isinstance(q[key], dict):
            ops_of(q[key], acc)
    return acc


def judge(run, cases, name="QueryCheck", chunk=40, module="QueryCheck"):
    """cases: list of {"idx":..., "qs":[{"q":..., "obs":[...]}]}. Returns list of rejects
    (case index, query index, obs index, expected)."""
    rejects = []
    for base in range(0, len(cases), chunk):
        part = cases[base:base + chunk]
        import os
        import tempfile
        fd, path = tempfile.mkstemp(prefix="verif-q-", suffix=".json")
        os.close(fd)
        try:
            tlc.write_json(path, part)
            res = tlc.run_tlc(module, module + ".cfg", env={"TRACE_FILE": path}, timeout=1800)
        finally:
            os.unlink(path)
        run.add_tlc("%s[%d:%d]" % (name, base, base + len(part)), res)
        if res.violation:
            raise tlc.TLCError("%s: %s\n%s" % (module, res.violation, tlc.tail(res.stdout)))
        nq = sum(len(c["qs"]) for c in part)
        if res.distinct != nq:
            raise tlc.TLCError(module + " evaluated %d of %d (case, query) pairs\n%s" % (
                res.distinct, nq, tlc.tail(res.stdout)))
        for r in res.tagged.get("REJECT", []):
            rejects.append((base + r["tid"] - 1, r["qi"] - 1, r["oi"] - 1, r["expected"]))
        run.traces += nq
    return rejects
