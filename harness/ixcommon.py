"""Shared pieces of the IndexStore-based checks (C02, C03, C04, C07)."""
import os
import tempfile

from harness import tlc


def model_check(run, cfg, name, timeout=1800, workers=16, coverage=False):
    res = tlc.run_tlc("IndexStore", cfg, timeout=timeout, workers=workers, coverage=coverage, check=False)
    run.add_tlc(name, res)
    if res.violation or not res.ok:
        raise tlc.TLCError("IndexStore design model (%s): %s\n%s" % (cfg, res.violation, tlc.tail(res.stdout, 30)))
    return res


def validate(run, items, name="IndexStoreTrace", chunk=60):
    """items: list of {"trace": [...], "writers": [...], "readers": [...]}.
    Returns list of (item index, reject record)."""
    rejects = []
    for base in range(0, len(items), chunk):
        part = items[base:base + chunk]
        W = sorted(set(x for it in part for x in it["writers"]))
        R = sorted(set(x for it in part for x in it["readers"]))
        fd, path = tempfile.mkstemp(prefix="verif-ixs-", suffix=".json")
        os.close(fd)
        try:
            tlc.write_json(path, {"writers": W, "readers": R, "traces": [it["trace"] for it in part]})
            res = tlc.run_tlc("IndexStoreTrace", "IndexStoreTrace.cfg", env={"TRACE_FILE": path}, timeout=1800,
                              check=False)
        finally:
            os.unlink(path)
        run.add_tlc("%s[%d:%d]" % (name, base, base + len(part)), res)
        if res.violation or not res.ok:
            raise tlc.TLCError("IndexStoreTrace: %s\n%s" % (res.violation, tlc.tail(res.stdout, 30)))
        done = set(t[0] for t in res.numbers.get("DONE", []))
        rej = {}
        for r in res.tagged.get("REJECT", []):
            rej.setdefault(r["tid"], r)
        for i in range(1, len(part) + 1):
            if i in rej:
                rejects.append((base + i - 1, rej[i]))
            elif i not in done:
                raise tlc.TLCError("IndexStoreTrace: trace %d neither DONE nor REJECT\n%s" % (i, tlc.tail(res.stdout)))
        run.traces += len(part)
    return rejects


def report(run, check, items, rejects):
    bad = set()
    for i, r in rejects:
        it = items[i]
        t = it["trace"]
        # the event that could not be taken (for invariant failures: the event before)
        l = r["l"]
        e = t[l - 1] if l - 1 < len(t) else {}
        if r["why"].startswith("invariant-") and l >= 2:
            e = t[l - 2]
        bad.add(i)
        sig = {"check": check, "why": r["why"], "ev": e.get("ev"), "call": e.get("call", ""), "err": e.get("err", ""),
               "file": (e.get("file") or e.get("dst") or [""])[0], "cfg": it.get("cfg", "")}
        # recorded finding: a held reader over loose (non-compound) segments opens per-document
        # files lazily and finds them cleaned away
        lazyfail = [x for x in t[:l - 1] if x.get("ev") == "openfail" and x.get("proc") == e.get("proc")
                    and x.get("file", [""])[0] == "seg" and (x["file"][2].endswith(".col") or x["file"][2] == "vps")]
        if r["why"] == "api-call-raised-probe" and lazyfail and not (it.get("cfg") or {}).get("compound", True):
            sig["class"] = "lazy-open-after-cleanup-loose-segments"
        run.violation(sig, {"trace": t, "line": l, "event": e, "latest": r.get("latest"), "ondisk": r.get("ondisk"),
                            "cfg": it.get("cfg"), "seed": it.get("seed")})
    for i, it in enumerate(items):
        if i not in bad and sum(1 for e in it["trace"] if e["ev"] == "rename") >= 2:
            run.nontriv((check, i))
    if items:
        t = items[0]["trace"]
        run.sample({"storage_trace_head": t[:8], "events": len(t), "cfg": items[0].get("cfg")})


class _Teardown(BaseException):
    """what an application framework may raise through user code (not an Exception)"""


BLOCK_EXITS = [RuntimeError, RuntimeError, KeyboardInterrupt, SystemExit, GeneratorExit, _Teardown]


def failing_block(wr, rng):
    """Leaves `with wr:` by an exception - an ordinary one, or one of those that are not Exceptions
    (interrupt, interpreter exit, a closed generator): the block failed all the same, so the writer
    must cancel and release the lock.  Returns the name of the exception class used."""
    exc = rng.choice(BLOCK_EXITS)
    try:
        with wr:
            raise exc("boom inside with-block")
    except exc:
        pass
    return exc.__name__
