"""Tracing storages: Whoosh's documented extension point ("all access to files goes
through this object") is subclassed so that every storage operation of writers and
readers becomes one trace event, emitted after the operation took effect.

A *gate* is consulted before each operation: None, a crash counter (os._exit at
operation n), or a scheduler hook.  Events are appended to a Log shared by the main
storage and its temp storages; in multi-process runs the Log appends to a file under
an flock, which also provides the global order.
"""
import contextlib
import json
import os
import re
import threading

from whoosh.filedb.filestore import FileStorage, RamStorage


# (kept aside: a crash-injection mode of C02 replaces the built-in open)
_OPEN = open


class Log(object):
    def __init__(self, path=None):
        self.events = []
        self.path = path
        self.mutex = threading.RLock()
        self.seq = 0
        self.segids = {}
        self.gate = None           # callable(op, name) or None
        self.indexname = "MAIN"
        self.actor = threading.local()
        self.shared = False        # True: several processes append to self.path
        self.opcount = 0           # storage operations attempted so far (gate calls)

    @contextlib.contextmanager
    def atomic(self):
        """The operation and the emission of its event form one step for every other
        thread/process using this log, so the log order is the real order."""
        with self.mutex:
            if self.path and self.shared:
                import fcntl
                fd = os.open(self.path + ".order", os.O_CREAT | os.O_RDWR)
                try:
                    fcntl.flock(fd, fcntl.LOCK_EX)
                    yield
                finally:
                    fcntl.flock(fd, fcntl.LOCK_UN)
                    os.close(fd)
            else:
                yield

    def who(self):
        return getattr(self.actor, "name", "main")

    def set_actor(self, name):
        self.actor.name = name

    # file name -> abstract name
    def classify(self, name, temp=False):
        ix = self.indexname
        if temp:
            return "tmp:" + name.rsplit(".", 1)[-1]
        m = re.match(r"^_%s_([0-9]+)\.toc$" % ix, name)
        if m:
            return "toc:%d" % int(m.group(1))
        m = re.match(r"^_%s_([0-9]+)\.toc\.(.+)$" % ix, name)
        if m:
            return "tmptoc:%d:%s" % (int(m.group(1)), m.group(2))
        m = re.match(r"^(%s_[0-9a-z]+)\.([A-Za-z0-9_.]+)$" % ix, name)
        if m and not name.endswith("LOCK"):
            # the real (random) segment id: stable across processes sharing one log
            return "seg:%s:%s" % (m.group(1)[len(ix) + 1:], m.group(2))
        if name.endswith("LOCK"):
            return "lock"
        if name.endswith(".tmp"):
            return "tmpdir"
        return "other:" + name

    def emit(self, ev, **kw):
        with self.mutex:
            self.seq += 1
            e = {"seq": self.seq, "proc": self.who(), "ev": ev, "opn": self.opcount}
            e.update(kw)
            self.events.append(e)
            if self.path:
                with _OPEN(self.path, "a") as f:
                    f.write(json.dumps(e) + "\n")
            return e

    def load(self):
        """All events written to the shared log file so far, in file (= real) order."""
        out = []
        with open(self.path) as f:
            for line in f:
                line = line.strip()
                if line:
                    out.append(json.loads(line))
        return out

    def before(self, op, name):
        self.opcount += 1
        g = self.gate
        if g is not None:
            g(op, name)


class _FileProxy(object):
    """Wraps a StructFile returned by create_file: close()/flush()/write() are gated
    and close() is logged."""

    def __init__(self, f, log, aname, raw):
        self.__dict__["_f"] = f
        self.__dict__["_log"] = log
        self.__dict__["_aname"] = aname
        self.__dict__["_raw"] = raw

    def __getattr__(self, k):
        return getattr(self._f, k)

    def __setattr__(self, k, v):
        setattr(self._f, k, v)

    def write(self, *a, **kw):
        self._log.before("write", self._aname)
        return self._f.write(*a, **kw)

    def close(self):
        self._log.before("close", self._aname)
        r = self._f.close()
        self._log.emit("close", file=self._aname)
        return r

    def __enter__(self):
        return self

    def __exit__(self, *a):
        self.close()


def _default_blocking(lk):
    """Does lk.acquire() without arguments block?  (threading.Lock: yes; FileLock: no)"""
    import inspect
    try:
        p = inspect.signature(lk.acquire).parameters.get("blocking")
        if p is not None and p.default is not inspect.Parameter.empty:
            return bool(p.default)
    except (TypeError, ValueError):
        pass
    return type(lk).__module__ in ("_thread", "threading")


class WouldBlock(Exception):
    pass


class _LockProxy(object):
    def __init__(self, lk, log):
        self._lk = lk
        self._log = log

    def acquire(self, *args, **kw):
        self._log.before("lock", "lock")
        # would the underlying acquire() block with these arguments?
        native_default = _default_blocking(self._lk)
        blocking = args[0] if args else kw.get("blocking", native_default)
        with self._log.atomic():
            r = self._lk.acquire(False)        # the attempt itself never blocks inside the atomic step
            if not r and blocking:
                # the real call would now wait for the holder instead of reporting failure
                self._log.emit("lockblock")
                raise WouldBlock("blocking acquire of a held lock")
            self._log.emit("lock", res=bool(r))
        return r

    def release(self):
        self._log.before("unlock", "lock")
        with self._log.atomic():
            self._lk.release()
            self._log.emit("unlock")

    def __enter__(self):
        return self._lk.__enter__()

    def __exit__(self, *a):
        return self._lk.__exit__(*a)


class _Tracing(object):
    """Mixin implementing the traced operations on top of FileStorage/RamStorage.
    Each operation: gate, then (operation + event) as one atomic step of the log."""
    _temp = False

    def _an(self, name):
        return self.log.classify(name, temp=self._temp)

    def create_file(self, name, **kwargs):
        an = self._an(name)
        self.log.before("create", an)
        with self.log.atomic():
            f = super(_Tracing, self).create_file(name, **kwargs)
            self.log.emit("create", file=an)
        if an.startswith("tmp:"):
            return f
        return self._wrap(f, an, name)

    def _wrap(self, f, an, name):
        # patch the instance so isinstance checks on StructFile keep working
        log = self.log
        orig_close = f.close
        orig_write = f.write

        def close():
            log.before("close", an)
            with log.atomic():
                r = orig_close()
                log.emit("close", file=an)
            return r

        def write(*a, **kw):
            log.before("write", an)
            return orig_write(*a, **kw)
        f.close = close
        f.write = write
        return f

    def open_file(self, name, **kwargs):
        an = self._an(name)
        self.log.before("open", an)
        with self.log.atomic():
            try:
                f = super(_Tracing, self).open_file(name, **kwargs)
            except (IOError, OSError, NameError) as e:
                self.log.emit("openfail", file=an, err=type(e).__name__)
                raise
            self.log.emit("open", file=an)
        return f

    def file_exists(self, name):
        an = self._an(name)
        with self.log.atomic():
            r = super(_Tracing, self).file_exists(name)
            if not r and an.startswith("seg:") and not self._temp:
                # a reader looked for one of its segment's files and it is gone
                self.log.emit("openfail", file=an, err="file_exists=False")
        return r

    def list(self):
        self.log.before("list", "")
        with self.log.atomic():
            r = super(_Tracing, self).list()
            if not self._temp:
                self.log.emit("list", files=sorted(self._an(n) for n in r
                                                   if not n.endswith("LOCK") and not n.endswith(".tmp")
                                                   and not n.startswith(".")))
        return r

    def delete_file(self, name):
        an = self._an(name)
        self.log.before("delete", an)
        with self.log.atomic():
            try:
                r = super(_Tracing, self).delete_file(name)
            except (IOError, OSError, NameError) as e:
                self.log.emit("deletefail", file=an, err=type(e).__name__)
                raise
            self.log.emit("delete", file=an)
        return r

    def rename_file(self, frm, to, safe=False):
        a, b = self._an(frm), self._an(to)
        self.log.before("rename", b)
        with self.log.atomic():
            try:
                r = super(_Tracing, self).rename_file(frm, to, safe=safe)
            except (IOError, OSError, NameError) as e:
                self.log.emit("renamefail", src=a, dst=b, err=type(e).__name__)
                raise
            extra = {}
            if b.startswith("toc:"):
                extra["toc"] = self._toc_summary(to)
            self.log.emit("rename", src=a, dst=b, **extra)
        return r

    def _toc_summary(self, name):
        """(gen, [(segid, doc_count_all, deleted)]) of a TOC file, read with the public TOC.read."""
        from whoosh.index import TOC
        gen = int(re.match(r"^_%s_([0-9]+)\.toc$" % self.log.indexname, name).group(1))
        base = super(_Tracing, self)
        stream_open = base.open_file
        base_list = base.list

        class _S(object):   # minimal storage view for TOC.read
            def open_file(s, n, **kw):
                return stream_open(n, **kw)

            def __iter__(s):
                return iter(base_list())
        toc = TOC.read(_S(), self.log.indexname, gen=gen)
        segs = []
        for sg in toc.segments:
            sid = self.log.classify(sg.segment_id() + ".x").split(":")[1]
            dels = sorted(int(x) for x in sg.deleted_docs())
            segs.append({"id": sid, "n": sg.doc_count_all(), "del": dels, "compound": bool(getattr(sg, "compound", False))})
        return {"gen": toc.generation, "segs": segs}

    def lock(self, name):
        return _LockProxy(super(_Tracing, self).lock(name), self.log)


class TracingFileStorage(_Tracing, FileStorage):

    def __init__(self, path, log=None, temp=False, **kw):
        FileStorage.__init__(self, path, **kw)
        self.log = log or Log()
        self._temp = temp

    def temp_storage(self, name=None):
        name = name or "%s.tmp" % self.log.indexname
        path = os.path.join(self.folder, name)
        self.log.before("mktemp", "tmpdir")
        t = TracingFileStorage(path, log=self.log, temp=True)
        t.create()
        self.log.emit("mktemp")
        return t

    def destroy(self):
        self.log.before("rmtemp", "tmpdir")
        r = FileStorage.destroy(self)
        if self._temp:
            self.log.emit("rmtemp")
        return r


class TracingRamStorage(_Tracing, RamStorage):

    def __init__(self, log=None):
        RamStorage.__init__(self)
        self.log = log or Log()
        self._temp = False

    def temp_storage(self, name=None):
        import tempfile
        name = name or "%s.tmp" % self.log.indexname
        path = os.path.join(tempfile.mkdtemp(prefix="verif-ramtmp-"), name)
        self.log.before("mktemp", "tmpdir")
        t = TracingFileStorage(path, log=self.log, temp=True)
        t.create()
        self.log.emit("mktemp")
        return t
