"""Concretisation for the logical-content checks (ContentCheck.tla): a schema covering the
shipped field / column types, injective value pools, index construction under different
layouts / storages / writer front-ends, and the canonical dump of a reader as observations."""
import datetime
import decimal
import os
import shutil
import tempfile

from harness import world

# "x_dyn" is a concrete name of the dynamic (glob) field "*_dyn"
TEXT_FIELDS = ("body", "title", "x_dyn", "wb", "wf")
BOOSTED_FIELDS = ("wb", "wf")      # tokens typed as word^2 / word^4 carry a boost of their own

# ---- injective value pools: id (1-based) -> concrete value --------------------------------
POOLS = {
    "blob": [u"", u"plain", u"é\U0001F600 non-BMP", b"bytes\x00\xff", 0, -1, 2 ** 63 - 1, -(2 ** 63), 1.5, -0.0,
             decimal.Decimal("1.10"), datetime.datetime(2000, 1, 1, 0, 0, 0, 1), True, False,
             [1, u"two", [3.0]], {"k": (1, 2)}, u"x" * 300],
    "tags": [u"red", u"green blue", u"été", u"a b c d"],
    "num": [-(2 ** 31), -7, -1, 0, 1, 2, 255, 256, 65535, 65536, 2 ** 31 - 1],
    "big": [-(2 ** 63), -1, 0, 1, 2 ** 63 - 1],
    "ratio": [-1e300, -2.5, -0.0, 0.0, 5e-324, 2.5, 1e300],
    "when": [datetime.datetime(1, 1, 1), datetime.datetime(1999, 12, 31, 23, 59, 59, 999999),
             datetime.datetime(2000, 1, 1), datetime.datetime(2024, 2, 29, 12, 0, 0, 1),
             datetime.datetime(9999, 12, 31, 23, 59, 59, 999999)],
    "flag": [True, False],
    "cref": [u"alpha", u"beta", u"", u"\U0001F600", u"gamma" * 40],
    "cvar": [u"v1", u"", u"é", u"long" * 100, u"v5"],
    "cfix": [u"ab", u"cd", u"qq", u"zz"],
    "cbit": [True],
    "cpkl": [(1, 2), u"s", {"a": [1]}, 3.5],
    "ccomp": [u"c" * 10, u"", u"é" * 50, u"zip" * 400],
    "cvarx": [u"v", u"", u"x" * 300, u"y" * 30000, u"z" * 70],      # variable-length column that stores its offsets early
    # column-only fields of the remaining column types
    "cbitc": [True, False],
    "cpklc": [(1, 2), u"s", {"a": [1]}, 3.5, [u"x", 2]],
    "clist": [[b"a", b"bc"], [b"x" * 300], [b"", b"q"], [b"one"]],
    "cflist": [[b"ab", b"cd"], [b"zz"], [b"qq", b"qq", b"ab"]],
    "cblock": [b"c1", b"block" * 50, b"\x00\xff", b"z" * 2000],
    "cstruct": [(1, 2), (-5, 7), (2 ** 31 - 1, -(2 ** 15)), (0, 1)],
    "ccol": [b"c1", b"\x00\xff", b"col" * 60, b"z"],        # a column-only field (fields.COLUMN): no postings at all
}
for i in range(300):                      # enough distinct values to cross the 256 threshold of reference columns
    POOLS["cref"].append(u"ref-%04d" % i)

STORED_FIELDS = ("blob", "tags", "num", "big", "ratio", "when", "flag")
COLUMN_FIELDS = ("num", "big", "ratio", "when", "flag", "cref", "cvar", "cfix", "cbit", "cpkl", "ccomp", "tags", "ccol", "cvarx",
                 "cbitc", "cpklc", "clist", "cflist", "cblock", "cstruct")


def okey(v):
    """hashable identity of a pool value (type-aware: True != 1, -0.0 != 0.0)"""
    import math
    if isinstance(v, float):
        if math.isnan(v):
            return ("float", "nan")
        return ("float", v, math.copysign(1.0, v))
    if isinstance(v, (list, dict, tuple)):
        return (type(v).__name__, repr(v))
    return (type(v).__name__, v)


INDEX = dict((f, dict((okey(v), i + 1) for i, v in enumerate(vals))) for f, vals in POOLS.items())


def make_schema(variant=0):
    from whoosh import fields, analysis, columns
    ana = analysis.RegexTokenizer(r"\S+") | analysis.StopFilter(stoplist=[world.GAPWORD], minsize=1, renumber=False)
    if variant % 2 == 0:
        # an analyzer that depends on the mode it is called in: everything that is written to the index
        # (postings and term vectors alike) must be analysed in mode "index", where this filter changes nothing
        ana = ana | analysis.MultiFilter(**{"index": analysis.PassFilter(), "": analysis.ReverseTextFilter(),
                                            "query": analysis.ReverseTextFilter()})
    schema = fields.Schema(
        key=fields.ID(stored=True, unique=True),
        body=fields.TEXT(analyzer=ana, phrase=True, chars=(variant % 2 == 1), vector=True),
        title=fields.TEXT(analyzer=ana, phrase=(variant % 3 != 2), sortable=False),
        blob=fields.STORED,
        sid=fields.STORED,
        tags=fields.KEYWORD(stored=True, sortable=True, lowercase=False, commas=False, scorable=True),
        num=fields.NUMERIC(int, bits=32, stored=True, sortable=True),
        big=fields.NUMERIC(int, bits=64, stored=True, sortable=True),
        ratio=fields.NUMERIC(float, stored=True, sortable=True),
        when=fields.DATETIME(stored=True, sortable=True),
        flag=fields.BOOLEAN(stored=True),
        cref=fields.ID(sortable=columns.RefBytesColumn()),
        cvar=fields.ID(sortable=columns.VarBytesColumn()),
        cfix=fields.ID(sortable=columns.FixedBytesColumn(2)),
        cbit=fields.BOOLEAN(),
        cpkl=fields.STORED,
        ccomp=fields.ID(sortable=columns.CompressedBytesColumn()),
        ccol=fields.COLUMN(columns.VarBytesColumn()),
        cbitc=fields.COLUMN(columns.BitColumn()),
        cpklc=fields.COLUMN(columns.PickleColumn(columns.VarBytesColumn())),
        clist=fields.COLUMN(columns.VarBytesListColumn()),
        cflist=fields.COLUMN(columns.FixedBytesListColumn(2)),
        cblock=fields.COLUMN(columns.CompressedBlockColumn(blocksize=1)),
        cstruct=fields.COLUMN(columns.StructColumn("ih", (0, 0))),
        cvarx=fields.ID(sortable=columns.VarBytesColumn(write_offsets_cutoff=4)),
    )
    # per-token boosts (DelimitedAttributeFilter: "word^2"): the posting weight is the sum of the boosts of the
    # term's occurrences; one field with positions (and characters in every other variant), one with frequencies only
    anab = analysis.RegexTokenizer(r"\S+") | analysis.DelimitedAttributeFilter()
    # (wb also has a field boost of 2: a factor of every posting weight - ContentCheck!FieldBoost4)
    schema.add("wb", fields.TEXT(analyzer=anab, phrase=True, chars=(variant % 2 == 0), field_boost=2.0))
    # (... whose term vectors are in another format than its postings: positions)
    from whoosh import formats
    # (and a field boost of 1/16: with a document boost of 1/4 a posting weighs 1/64 - six decimals, a weight that
    # survives float32 but not a codec that writes "readable" numbers - ContentCheck!FieldScale)
    schema.add("wf", fields.TEXT(analyzer=anab, phrase=False, vector=formats.Positions(), field_boost=0.0625))
    # a dynamic field: indexed, scorable, with vectors, not stored
    schema.add("*_dyn", fields.TEXT(analyzer=ana, phrase=True, vector=(variant % 2 == 0)), glob=True)
    return schema


def rand_adoc(rng, key, rich=True):
    d = world.rand_doc(rng, gaps=True, boosts=True)
    d["key"] = key
    if rng.random() < 0.6:
        d["t"]["x_dyn"] = [world.rand_term(rng) for _ in range(rng.randrange(1, 5))]
    d["s"], d["c"] = {}, {}
    d["tb"] = {}
    for f in BOOSTED_FIELDS:
        if rng.random() < 0.5:
            d["t"][f] = [world.rand_term(rng) for _ in range(rng.randrange(1, 6))]
            d["tb"][f] = [rng.choice([4, 4, 8, 16]) for _ in d["t"][f]]
    if rich:
        for f in STORED_FIELDS:
            if rng.random() < 0.6:
                d["s"][f] = rng.randrange(1, len(POOLS[f]) + 1)
        for f in ("cref", "cvar", "cfix", "ccomp", "ccol", "cvarx", "cbitc", "cpklc", "clist", "cflist", "cblock", "cstruct"):
            if rng.random() < 0.6:
                d["c"][f] = rng.randrange(1, min(len(POOLS[f]), 12) + 1)
    # stored numeric/date/keyword fields double as sortable columns with the same value
    for f in ("num", "big", "ratio", "when", "tags"):
        if f in d["s"]:
            d["c"][f] = d["s"][f]
    d["n"] = {}
    # fields whose stored value is given separately from the indexed one
    d["ovr"] = [f for f in ("num", "ratio", "flag", "big") if f in d["s"] and rng.random() < 0.3]
    return d


def concrete_kwargs(d):
    kw = {"key": d["key"]}
    for f in TEXT_FIELDS:
        toks = d["t"].get(f)
        if toks:
            kw[f] = world.tokens_text(toks)
            if f in BOOSTED_FIELDS:
                kw[f] = u" ".join(world.term_text(t) + (u"" if b == 4 else u"^%d" % (b // 4))
                                  for t, b in zip(toks, d["tb"][f]))
    for f, i in d["s"].items():
        v = POOLS[f][i - 1]
        if f == "blob":
            kw["blob"] = v
        elif f in d.get("ovr", ()):
            # "_stored_<field>": another value is indexed, this one is stored (and kept in the column) - also when
            # it is one that counts as false (0, 0.0, False)
            kw[f] = POOLS[f][i % len(POOLS[f])]
            kw["_stored_" + f] = v
        else:
            kw[f] = v
    for f, i in d["c"].items():
        if f not in d["s"]:
            kw[f] = POOLS[f][i - 1]
    if d.get("b4", 4) != 4:
        kw["_boost"] = d["b4"] / 4.0
    return kw


def value_id(f, v):
    return INDEX[f].get(okey(v), -1)


class CWorld(object):
    """Real index built from abstract docs under a configuration.
    cfg: storage file|ram, mmap, compound, blocklimit, frontend plain|buffered|async|mp, procs, multisegment"""

    def __init__(self, cfg, variant=0):
        from whoosh.filedb.filestore import RamStorage, FileStorage
        self.cfg = cfg
        self.dir = None
        self.schema = make_schema(variant)
        if cfg.get("storage", "file") == "ram":
            self.st = RamStorage()
        else:
            self.dir = tempfile.mkdtemp(prefix="verif-cw-")
            self.st = FileStorage(self.dir, supports_mmap=cfg.get("mmap", True))
        self.ix = self.st.create_index(self.schema)
        self.groups = []         # key lists that were added inside writer.group() (outer and nested)

    def _add_all(self, w, keys, adocs):
        """Adds the documents; with cfg['groups'] the first documents of the step form a group with a
        nested group inside it (hierarchical documents)."""
        keys = list(keys)
        if self.cfg.get("groups") == "many" and hasattr(w, "start_group"):
            # plain, plain, group(k, group(k, k), k), plain, plain, group(...), ...
            while keys:
                for k in keys[:2]:
                    w.add_document(**concrete_kwargs(adocs[k]))
                g, keys = keys[2:6], keys[6:]
                if len(g) >= 3:
                    w.start_group()
                    w.add_document(**concrete_kwargs(adocs[g[0]]))
                    w.start_group()
                    for k in g[1:3]:
                        w.add_document(**concrete_kwargs(adocs[k]))
                    w.end_group()
                    for k in g[3:]:
                        w.add_document(**concrete_kwargs(adocs[k]))
                    w.end_group()
                    self.groups.append(list(g))
                    self.groups.append(list(g[1:3]))
                else:
                    for k in g:
                        w.add_document(**concrete_kwargs(adocs[k]))
            return
        if self.cfg.get("groups") and len(keys) >= 3 and hasattr(w, "start_group"):
            head, keys = keys[:5], keys[5:]
            w.start_group()
            w.add_document(**concrete_kwargs(adocs[head[0]]))
            w.start_group()
            for k in head[1:3]:
                w.add_document(**concrete_kwargs(adocs[k]))
            w.end_group()
            for k in head[3:]:
                w.add_document(**concrete_kwargs(adocs[k]))
            w.end_group()
            self.groups.append(list(head))
            self.groups.append(list(head[1:3]))
        for k in keys:
            w.add_document(**concrete_kwargs(adocs[k]))

    def _codec(self):
        if self.cfg.get("blocklimit"):
            from whoosh.codec.whoosh3 import W3Codec
            return W3Codec(blocklimit=self.cfg["blocklimit"], compression=self.cfg.get("compression", 3))
        return None

    def run(self, adocs, plan):
        """plan: list of ("commit", [keys], opts) / ("delete", [keys]) steps (see world.rand_plan)."""
        from whoosh import writing
        fe = self.cfg.get("frontend", "plain")
        if fe == "buffered":
            # one BufferedWriter for the whole history: adds are buffered, deletions are forwarded
            # to its on-disk writer, commit() flushes, close() must leave nothing unsaved
            kw = {}
            codec = self._codec()
            if codec is not None:
                kw["codec"] = codec
            if not self.cfg.get("compound", True):
                kw["compound"] = False
            bw = writing.BufferedWriter(self.ix, period=None, limit=self.cfg.get("limit", 3), writerargs=kw)
            try:
                for step in plan:
                    if step[0] == "commit":
                        for k in step[1]:
                            bw.add_document(**concrete_kwargs(adocs[k]))
                        if self.cfg.get("explicit_commit", True):
                            bw.commit()
                    else:
                        for k in step[1]:
                            bw.delete_by_term("key", k)
            finally:
                bw.close()
            return
        for step in plan:
            kw = {}
            codec = self._codec()
            if codec is not None:
                kw["codec"] = codec
            if not self.cfg.get("compound", True):
                kw["compound"] = False
            if self.cfg.get("limitmb"):
                kw["limitmb"] = self.cfg["limitmb"]       # tiny: the posting pool spills runs to disk
            opts = step[2] if len(step) > 2 else {}
            if fe == "async" and step[0] == "commit":
                holder = None
                if self.cfg.get("contended"):
                    # the index is locked while the AsyncWriter is created and takes its first documents (which it
                    # has to buffer), and free again half way through; the other writer changes nothing
                    holder = self.ix.writer()
                w = writing.AsyncWriter(self.ix, delay=0.01, writerargs=kw)
                for i, k in enumerate(step[1]):
                    if holder is not None and i == (len(step[1]) + 1) // 2:
                        holder.cancel()
                        holder = None
                    w.add_document(**concrete_kwargs(adocs[k]))
                if holder is not None:
                    holder.cancel()
                w.commit(merge=opts.get("merge", True), optimize=opts.get("optimize", False))
                if w.is_alive():
                    w.join(60)
                continue
            if fe == "mp" and step[0] == "commit":
                w = self.ix.writer(procs=self.cfg.get("procs", 2), batchsize=self.cfg.get("batchsize", 2),
                                   multisegment=self.cfg.get("multisegment", False), **kw)
            else:
                w = self.ix.writer(**kw)
            if step[0] == "commit" and opts.get("storedonly"):
                # documents that carry stored values only (the key too is stored without being indexed):
                # the segment has no postings at all
                for k in step[1]:
                    kw2 = concrete_kwargs(adocs[k])
                    kw2["sid"] = kw2.pop("key")          # stored-only stand-in for the key
                    w.add_document(**kw2)
                w.commit(merge=opts.get("merge", True), optimize=opts.get("optimize", False))
            elif step[0] == "commit" and opts.get("import"):
                # the documents come from another index (IndexWriter.add_reader): written there in two segments,
                # together with one more document that is deleted again before the import
                from whoosh.filedb.filestore import RamStorage
                side = RamStorage().create_index(self.schema)
                ks = list(step[1])
                cut = len(ks) // 2
                for part in [p for p in (ks[:cut], ks[cut:]) if p]:
                    sw = side.writer()
                    for k in part:
                        sw.add_document(**concrete_kwargs(adocs[k]))
                    if part is not ks[:cut] or not cut:
                        sw.add_document(**dict(concrete_kwargs(adocs[ks[0]]), key=u"zz-not-imported"))
                    sw.commit(merge=False)
                sw = side.writer()
                sw.delete_by_term("key", u"zz-not-imported")
                sw.commit(merge=False)
                with side.reader() as srd:
                    w.add_reader(srd)
                w.commit(merge=opts.get("merge", True), optimize=opts.get("optimize", False))
                side.close()
            elif step[0] == "commit":
                self._add_all(w, step[1], adocs)
                w.commit(merge=opts.get("merge", True), optimize=opts.get("optimize", False))
            else:
                for k in step[1]:
                    w.delete_by_term("key", k)
                w.commit(merge=False)

    def reader(self):
        if self.cfg.get("copy_to_ram"):
            from whoosh.filedb.filestore import copy_to_ram
            return copy_to_ram(self.st).open_index().reader()
        return self.ix.reader()

    def close(self):
        try:
            self.ix.close()
        except Exception:
            pass
        if self.dir:
            shutil.rmtree(self.dir, ignore_errors=True)


def abstract_index(reader, adocs, order=None):
    docs = []
    for dn in range(reader.doc_count_all()):
        try:
            sf = reader.stored_fields(dn)
        except KeyError:
            if not reader.is_deleted(dn):
                raise
            # (a document deleted while still in a BufferedWriter's memory: its stored fields are not kept; the
            # driver says which document it was - `order` lists the keys in the order they were added)
            if order is None:
                raise
            sf = {"key": order[dn]}
        k = sf["key"] if "key" in sf else sf["sid"]
        d = adocs[k]
        docs.append({"live": not reader.is_deleted(dn),
                     "t": {f: d["t"].get(f, []) for f in TEXT_FIELDS}, "n": {},
                     "tb": {f: d.get("tb", {}).get(f, []) for f in BOOSTED_FIELDS},
                     "s": dict((f, d["s"].get(f, 0)) for f in STORED_FIELDS),
                     "c": dict((f, d["c"].get(f, 0)) for f in COLUMN_FIELDS),
                     "b4": d.get("b4", 4), "key": k})
    return {"docs": docs}


INV = dict((v, k) for k, v in world.LETTERS.items())


def term_of(text):
    if isinstance(text, bytes):
        text = text.decode("utf8")
    return [INV.get(ch, 9) for ch in text]


def _scaled(x):
    v = float(x) * world.UNIT
    iv = int(round(v))
    return iv if abs(v - iv) < 1e-6 else -int(abs(v) * 1000) - 1


def plan_ops(plan):
    ops = []
    for step in plan:
        for k in step[1]:
            ops.append(["add" if step[0] == "commit" else "delete", k])
    return ops


def dump(reader, idx, schema, rng=None, maxterms=40, columns=True, vectors=True, terminfo=True, plan=None,
         groups=None):
    """The canonical logical dump of `reader` as ContentCheck observations."""
    obs = []
    if plan is not None:
        obs.append({"kind": "livekeys", "keys": [(sf["key"] if "key" in sf else sf["sid"]) for sf in reader.all_stored_fields()], "ops": plan_ops(plan)})
    if groups:
        obs.append({"kind": "grouporder", "path": "documents of a writer.group() stay adjacent",
                    "order": [(sf["key"] if "key" in sf else sf["sid"]) for sf in reader.all_stored_fields()], "groups": groups})

    def guard(path, fn):
        try:
            fn()
        except Exception as ex:
            import traceback
            tb = traceback.extract_tb(ex.__traceback__)
            obs.append({"kind": "error", "path": path, "err": type(ex).__name__, "msg": str(ex)[:160],
                        "where": ["%s:%d %s" % (f.filename.split("/")[-1], f.lineno, f.name) for f in tb[-3:]]})

    guard("counts", lambda: obs.append({"kind": "counts", "all": reader.doc_count_all(), "live": reader.doc_count(),
                                        "hasdel": bool(reader.has_deletions())}))
    live = [i for i, d in enumerate(idx["docs"]) if d["live"]]
    for f in TEXT_FIELDS:
        fobj = schema[f]

        def lex(f=f):
            terms = [term_of(fobj.from_bytes(t)) for t in reader.lexicon(f)]
            obs.append({"kind": "lexicon", "f": f, "terms": terms})
            return terms
        terms = []
        try:
            terms = lex()
        except Exception as ex:
            obs.append({"kind": "error", "path": "lexicon:" + f, "err": type(ex).__name__, "msg": str(ex)[:160]})
        if rng is not None and len(terms) > maxterms:
            terms = rng.sample(terms, maxterms)
        for t in terms:
            text = world.term_text(t)

            def post(f=f, t=t, text=text):
                m = reader.postings(f, text)
                lst = []
                wl = []
                while m.is_active():
                    wl.append([int(m.id()), _scaled(m.weight())])
                    freq = m.value_as("frequency") if m.supports("frequency") else 1
                    pos = list(m.value_as("positions")) if m.supports("positions") else None
                    lst.append([int(m.id()), int(freq), [int(p) for p in pos] if pos is not None else None])
                    m.next()
                if lst and lst[0][2] is None:
                    obs.append({"kind": "flag", "path": "positions supported for %s" % f, "value": not fobj.format.supports("positions")})
                    lst = [[a, b, []] for a, b, _ in lst]
                    obs.append({"kind": "postings_nopos", "f": f, "t": t, "list": lst})
                else:
                    obs.append({"kind": "postings", "f": f, "t": t, "list": lst})
                obs.append({"kind": "weights", "f": f, "t": t, "list": wl})
                if fobj.format.supports("characters"):
                    m2 = reader.postings(f, text)
                    cl = []
                    while m2.is_active():
                        cl.append([int(m2.id()), [[int(a), int(b), int(c)] for a, b, c in m2.value_as("characters")]])
                        m2.next()
                    obs.append({"kind": "chars", "f": f, "t": t, "list": cl})
                if terminfo:
                    ti = reader.term_info(f, text)
                    try:
                        lenstats = all(getattr(r.codec(), "length_stats", True) for r, _ in reader.leaf_readers())
                    except Exception:
                        lenstats = False
                    obs.append({"kind": "terminfo", "f": f, "t": t, "df": int(ti.doc_frequency()), "tf": _scaled(ti.weight()),
                                "minid": int(ti.min_id()), "maxid": int(ti.max_id()), "maxw": _scaled(ti.max_weight()),
                                # (the shortest / longest field among the documents that have the term: what the
                                # quality bounds of the length-normalising models are computed from)
                                "minlen": int(ti.min_length()), "maxlen": int(ti.max_length()),
                                "lenstats": bool(lenstats and getattr(fobj, "scorable", False))})
            guard("postings:%s" % f, post)
        # a term that no document contains
        guard("absent", lambda f=f: obs.append({"kind": "absent" if (f, u"cccc") not in reader else "flag", "f": f,
                                                "t": [3, 3, 3, 3], "value": False}))
        for dn in live:
            # (lengths are stored in one byte: exact up to 10, approximate beyond - only the exact ones are judged
            # against the token count; the collection totals below are judged against the lengths as reported)
            if len([t for t in idx["docs"][dn]["t"].get(f, []) if t != [0]]) <= 10:
                guard("fieldlen", lambda f=f, dn=dn: obs.append({"kind": "fieldlen", "f": f, "d": dn,
                                                                 "n": int(reader.doc_field_length(dn, f))}))
        if f in schema.names() and getattr(schema[f], "scorable", False):
            guard("totals", lambda f=f: obs.append({
                "kind": "totals", "f": f, "total": int(reader.field_length(f)), "minlen": int(reader.min_field_length(f)),
                "maxlen": int(reader.max_field_length(f)), "nodel": not reader.has_deletions(),
                "lens": [[dn, int(reader.doc_field_length(dn, f))] for dn in live]}))
    # the posting weights of an existence-only field (ID: no frequency is stored, the weight is the boost)
    if "key" in schema.names() and schema["key"].indexed:
        def idw():
            # (keys of the documents that were added with the key field: it is stored too)
            keys = sorted(set(sf["key"] for sf in reader.all_stored_fields() if "key" in sf))
            for k in (rng.sample(keys, 12) if rng is not None and len(keys) > 12 else keys):
                if ("key", k) not in reader:
                    obs.append({"kind": "idweights", "key": k, "list": []})
                    continue
                m = reader.postings("key", k)
                wl = []
                while m.is_active():
                    wl.append([int(m.id()), _scaled(m.weight())])
                    m.next()
                obs.append({"kind": "idweights", "key": k, "list": wl})
        guard("idweights", idw)
    # the term-iteration APIs, relative to the lexicons just listed (all_terms, terms_from, iter_from, iter_field,
    # iter_prefix, expand_prefix, field_terms, frequency, doc_frequency, first_id, most_frequent_terms)
    guard("termiter", lambda: obs.extend(term_iteration(reader, schema, rng)))
    guard("docids", lambda: obs.append({"kind": "docids", "all_doc_ids": [int(x) for x in reader.all_doc_ids()],
                                        "iter_docs": [int(dn) for dn, _ in reader.iter_docs()]}))
    for dn in live:
        def st(dn=dn):
            sf = reader.stored_fields(dn)
            vals = {}
            for f in STORED_FIELDS:
                if f in sf:
                    vals[f] = value_id(f, sf[f])
            obs.append({"kind": "stored", "d": dn, "vals": vals})
        guard("stored", st)
        if vectors:
            for vf in ("body", "wf"):
                def vec(dn=dn, vf=vf):
                    if reader.has_vector(dn, vf):
                        v = reader.vector(dn, vf)
                        lst = []
                        while v.is_active():
                            lst.append([term_of(v.id()), int(v.value_as("frequency")), [int(p) for p in v.value_as("positions")]])
                            v.next()
                        obs.append({"kind": "vector", "f": vf, "d": dn, "list": lst})
                        # ... and the same through the shortcut that decodes the values itself
                        fr = list(reader.vector_as("frequency", dn, vf))
                        ps = dict(reader.vector_as("positions", dn, vf))
                        obs.append({"kind": "vector", "f": vf, "d": dn, "path": "vector_as",
                                    "list": [[term_of(t), int(n), [int(p) for p in ps[t]]] for t, n in fr]})
                    else:
                        obs.append({"kind": "vector", "f": vf, "d": dn, "list": []})
                guard("vector:" + vf, vec)
    if columns:
        for f in COLUMN_FIELDS:
            fobj = schema[f]
            if not fobj.column_type:
                continue

            def col(f=f, fobj=fobj):
                if not reader.has_column(f):
                    # no segment has the column: every live doc must have no value
                    for dn in live:
                        obs.append({"kind": "column", "f": f, "d": dn, "v": 0})
                    return
                cr = reader.column_reader(f)
                # (reading the column in one pass gives what reading it document by document gives)
                try:
                    whole = list(cr)
                    same = len(whole) == reader.doc_count_all() and all(okey(whole[dn]) == okey(cr[dn]) for dn in live)
                    obs.append({"kind": "flag", "path": "iterating column %s == reading it by document" % f, "value": bool(same)})
                except NotImplementedError:
                    pass
                for dn in live:
                    v = cr[dn]
                    if idx["docs"][dn]["c"].get(f, 0) == 0:
                        # not supplied: anything but the column default is a foreign value
                        vid = 0 if _is_default(fobj, v) else (value_id(f, v) if value_id(f, v) > 0 else -2)
                    else:
                        vid = value_id(f, v)
                    obs.append({"kind": "column", "f": f, "d": dn, "v": vid})
            guard("column:" + f, col)
    return obs


def _first_id(reader, f, text):
    from whoosh.reading import TermNotFound
    try:
        return int(reader.first_id(f, text))
    except TermNotFound:
        return -1          # no live document has the term


def term_iteration(reader, schema, rng):
    import random
    rng = rng or random.Random(7)
    obs = []
    names = sorted(f for f in TEXT_FIELDS if f in schema.names() or f in reader.indexed_field_names())
    names = [f for f in names if f in reader.indexed_field_names()]
    flex = [[f, [term_of(t) for t in reader.lexicon(f)]] for f in names]
    nodel = not reader.has_deletions()
    prefixes = [[], [1], [2], [3], [1, 2], [2, 2, 2], [1, 1]]

    def info(ti):
        return [int(ti.doc_frequency()), _scaled(ti.weight())]
    # every term of the index, in (field, term) order
    got = [[names.index(f) + 1, term_of(t)] for f, t in reader.all_terms() if f in names]
    obs.append({"kind": "termsfrom", "path": "all_terms()", "flex": flex, "fi": 1, "p": [], "got": got})
    for fi, (f, lex) in enumerate(flex):
        fobj = schema[f] if f in schema.names() else None
        for p in rng.sample(prefixes, 3):
            text = world.term_text(p)
            btext = text.encode("utf8")
            got = [[names.index(g) + 1, term_of(t)] for g, t in reader.terms_from(f, btext) if g in names]
            obs.append({"kind": "termsfrom", "path": "terms_from(%s, %r)" % (f, text), "flex": flex, "fi": fi + 1, "p": p,
                        "got": got})
            got = [[names.index(g) + 1, term_of(t)] + info(ti) for (g, t), ti in reader.iter_from(f, text) if g in names]
            obs.append({"kind": "termsfrom", "path": "iter_from(%s, %r)" % (f, text), "flex": flex, "fi": fi + 1, "p": p,
                        "got": [x[:2] for x in got], "infos": [[x[0], x[1], x[2], x[3]] for x in got], "nodel": nodel})
            obs.append({"kind": "fieldterms", "path": "expand_prefix(%s, %r)" % (f, text), "f": f, "lex": lex, "p": p,
                        "mode": "prefix", "terms": [term_of(t) for t in reader.expand_prefix(f, text)]})
            got = [[term_of(t)] + info(ti) for t, ti in reader.iter_prefix(f, text)]
            obs.append({"kind": "fieldterms", "path": "iter_prefix(%s, %r)" % (f, text), "f": f, "lex": lex, "p": p,
                        "mode": "prefix", "terms": [x[0] for x in got], "infos": got, "nodel": nodel})
            got = [[term_of(t)] + info(ti) for t, ti in reader.iter_field(f, prefix=text)]
            obs.append({"kind": "fieldterms", "path": "iter_field(%s, prefix=%r)" % (f, text), "f": f, "lex": lex, "p": p,
                        "mode": "from", "terms": [x[0] for x in got], "infos": got, "nodel": nodel})
            n = rng.choice([1, 2, 5])
            obs.append({"kind": "mostfrequent", "path": "most_frequent_terms(%s, %d, %r)" % (f, n, text), "f": f, "lex": lex,
                        "p": p, "n": n, "nodel": nodel,
                        "list": [[_scaled(w), term_of(t)] for w, t in reader.most_frequent_terms(f, n, text)]})
        if fobj is not None:
            obs.append({"kind": "fieldterms", "path": "field_terms(%s)" % f, "f": f, "lex": lex, "p": [], "mode": "from",
                        "terms": [term_of(t) for t in reader.field_terms(f)]})
        for t in (rng.sample(lex, 3) if len(lex) > 3 else lex):
            text = world.term_text(t)
            obs.append({"kind": "termfreq", "path": "frequency/doc_frequency/first_id(%s, %r)" % (f, text), "f": f, "t": t,
                        "nodel": nodel, "frequency": _scaled(reader.frequency(f, text)),
                        "doc_frequency": int(reader.doc_frequency(f, text)), "first_id": _first_id(reader, f, text)})
        text = u"cccc"
        if (f, text) not in reader:
            obs.append({"kind": "termfreq0", "path": "frequency/doc_frequency of an absent term", "f": f,
                        "frequency": _scaled(reader.frequency(f, text)), "doc_frequency": int(reader.doc_frequency(f, text))})
    return obs


def _is_default(fobj, v):
    import math
    try:
        d = fobj.column_type.default_value()
    except Exception:
        return v in (None, u"", b"")
    # what a reader returns for a document without a value is the column's default as the field translates it
    # (column_reader(translate=True)) - the same whether or not the segment has a file for the column
    try:
        cands = [fobj.from_column_value(d)]
    except Exception:
        cands = [d]
    for c in cands:
        if isinstance(c, float) and isinstance(v, float) and math.isnan(c) and math.isnan(v):
            return True
        if type(c) == type(v) and c == v:
            return True
    return False
