"""Drives real writers/readers over a tracing storage and turns the storage log into
IndexStoreTrace events."""
import os
import shutil
import tempfile

from harness.storage import TracingFileStorage, TracingRamStorage, Log


def fname(a):
    parts = a.split(":")
    if parts[0] == "toc":
        return ["toc", int(parts[1])]
    if parts[0] == "tmptoc":
        return ["tmptoc", int(parts[1]), ":".join(parts[2:])]
    if parts[0] == "seg":
        return ["seg", parts[1], parts[2]]
    return None


def convert(events):
    """storage log -> IndexStoreTrace events (temp storage traffic dropped)."""
    out = []
    for e in events:
        ev = e["ev"]
        if ev == "mktemp":
            continue
        if ev == "rmtemp":
            # (the writers of an index share one temporary directory name: it may only be removed by the
            # writer that holds the lock)
            out.append({"proc": e["proc"], "ev": "rmtemp"})
            continue
        e2 = {"proc": e["proc"], "ev": ev}
        if "file" in e:
            f = fname(e["file"])
            if f is None:
                if e["file"].startswith("tmp:") or e["file"] in ("lock", "tmpdir"):
                    continue
                f = ["other", e["file"], ""]
            e2["file"] = f
        if ev == "list":
            fs = [fname(x) for x in e["files"]]
            e2["files"] = [x for x in fs if x is not None] + [["other", x, ""] for x, y in zip(e["files"], fs) if y is None]
        elif ev == "rename":
            e2["src"] = fname(e["src"]) or ["other", e["src"], ""]
            e2["dst"] = fname(e["dst"]) or ["other", e["dst"], ""]
            if "toc" in e:
                e2["toc"] = e["toc"]
        elif ev == "lock":
            e2["res"] = e["res"]
        elif ev == "api":
            e2["op"] = e["op"]
            if "key" in e:
                e2["key"] = e["key"]
            if "uid" in e:
                e2["uid"] = e["uid"]
            if "keys" in e:
                e2["keys"] = e["keys"]
                e2["ret"] = e.get("ret", -1)
        elif ev == "probe":
            for k in ("keys", "gen", "uptodate", "n"):
                e2[k] = e[k]
        elif ev in ("renamefail", "deletefail"):
            continue
        elif ev == "lockblock":
            pass
        elif ev == "apierror":
            e2["call"] = e["call"]
            e2["err"] = e["err"]
            e2["msg"] = e.get("msg", "")
        out.append(e2)
    return out


class IxWorld(object):
    def __init__(self, storage="file", compound=True, sortable=True, reopen=False, mmap=True):
        from whoosh import fields
        self.log = Log()
        self.dir = None
        if storage == "ram":
            self.st = TracingRamStorage(self.log)
        else:
            self.dir = tempfile.mkdtemp(prefix="verif-ixs-")
            # (mmap=False: segment files are read through file handles instead of a memory map)
            self.st = TracingFileStorage(self.dir, log=self.log, supports_mmap=mmap)
        self.schema = fields.Schema(key=fields.ID(stored=True, unique=True),
                                    uid=fields.NUMERIC(stored=True, unique=True),
                                    body=fields.TEXT(sortable=sortable), n=fields.NUMERIC(sortable=sortable),
                                    tags=fields.KEYWORD(stored=True))
        self.ix = self.st.create_index(self.schema)
        self.ix2 = None
        if reopen:
            # work the way an application does: handles obtained by opening the existing index (no schema
            # object handed in), one for writing and searching and a second, independent one for searching
            self.ix.close()
            self.ix = self.st.open_index()
            self.ix2 = self.st.open_index()
        self._flip = 0
        self.log.events = []           # the trace starts from the freshly created index
        self.compound = compound
        self.nw = 0
        self.nr = 0
        self.writers = []
        self.readers = []

    def actor(self, name):
        self.log.set_actor(name)

    def reader_handle(self):
        """The index handle the next searcher is opened through (alternating when there are two)."""
        self._flip += 1
        return self.ix2 if (self.ix2 is not None and self._flip % 2 == 0) else self.ix

    def writer(self, **kw):
        self.nw += 1
        name = "w%d" % self.nw
        self.writers.append(name)
        self.actor(name)
        if not self.compound:
            kw["compound"] = False
        return name, self.ix.writer(**kw)

    def new_reader_name(self):
        self.nr += 1
        name = "r%d" % self.nr
        self.readers.append(name)
        return name

    def searcher(self):
        name = self.new_reader_name()
        self.actor(name)
        return name, self.ix.searcher()

    def refresh(self, s):
        name = self.new_reader_name()
        self.actor(name)
        return name, s.refresh()

    def api(self, name, op, key):
        self.actor(name)
        self.log.emit("api", op=op, key=key)

    def guarded(self, name, call, fn):
        """Runs an API call; an exception becomes an 'apierror' event (no spec action allows it)."""
        self.actor(name)
        try:
            return True, fn()
        except Exception as ex:
            import traceback
            tb = traceback.extract_tb(ex.__traceback__)
            where = "; ".join("%s:%d %s" % (f.filename.split("/")[-1], f.lineno, f.name) for f in tb[-4:])
            self.log.emit("apierror", call=call, err=type(ex).__name__, msg=(str(ex)[:120] + " @ " + where)[:400])
            return False, None

    def probe(self, name, s):
        ok, _ = self.guarded(name, "probe", lambda: self._probe(name, s))
        return ok

    def _probe(self, name, s):
        """What searcher s shows, through several read APIs that must agree."""
        self.actor(name)
        from whoosh import query
        stored = [d["key"] for d in s.reader().all_stored_fields()] if hasattr(s.reader(), "all_stored_fields") else []
        docs = [d["key"] for d in s.documents()]
        hits = [h["key"] for h in s.search(query.Every(), limit=None)]
        keys = docs
        n = len(docs)
        views = [hits]
        if getattr(self, "rich_probe", False):
            rd = s.reader()
            views.append([h["key"] for h in s.search(query.Every(), limit=None, sortedby="n")])
            views.append([h["key"] for h in s.search(query.Not(query.Term("key", u"no-such-key")), limit=None)])
            views.append([h["key"] for h in s.search(query.Term("body", u"xx"), limit=None, scored=False)])
            views.append([rd.stored_fields(dn)["key"] for dn in rd.all_doc_ids()])
            views.append([s.stored_fields(dn)["key"] for dn in s.docs_for_query(query.Every("key"))])
            # order-sensitive views: sorting by a field without a column goes through a per-searcher cache of
            # term ranks per document number, which a refreshed searcher must not inherit from renumbered documents
            bykeyorder = [h["key"] for h in s.search(query.Every(), limit=None, sortedby="key")]
            if bykeyorder != sorted(docs):
                n = -1
            groups = s.search(query.Every(), limit=None, groupedby="key").groups()
            views.append([k for k, dns in groups.items() for _ in dns])
            bykey = []
            for k in sorted(set(docs)):
                for dn in s.docs_for_query(query.Term("key", k)):
                    bykey.append(s.stored_fields(dn)["key"])
            views.append(bykey)
            # multi-keyword lookups: intersections advance their term matchers with skip_to()
            views.append([d["key"] for k in sorted(set(docs)) for d in s.documents(key=k, body=u"xx")])
            views.append([h["key"] for h in s.search(query.And([query.Term("body", u"xx"), query.Every("key")]),
                                                     limit=None)])
            views.append([h["key"] for k in sorted(set(docs))
                          for h in s.search(query.Require(query.Term("body", u"xx"), query.Term("key", k)), limit=None)])
            # conjunctions of sparse shared terms (superseded versions carry them too): what the search
            # returns must be what the stored fields of the visible documents say
            live = list(s.documents())
            for ta, tb in ((u"ta", u"tb"), (u"tb", u"tc"), (u"ta", u"tc")):
                got = sorted(h["key"] for h in s.search(query.And([query.Term("tags", ta), query.Term("tags", tb)]),
                                                        limit=None))
                want = sorted(d["key"] for d in live if ta in d.get("tags", u"").split()
                              and tb in d.get("tags", u"").split())
                if got != want:
                    n = -1
            # the index object's own idea of the schema is the committed one (nothing of a cancelled
            # writer's add_field / remove_field may be left in it)
            if s.up_to_date() and sorted(self.ix.schema.names()) != sorted(s.schema.names()):
                n = -1
            # the index object's own counters are those of the last commit
            if s.up_to_date():
                for h in (self.ix, self.ix2):
                    if h is not None and (h.doc_count() != len(docs) or h.doc_count_all() != rd.doc_count_all()
                                          or h.latest_generation() != s.reader().generation()):
                        n = -1
            # ... and a searcher keeps the schema of its own generation whatever is committed later
            names = sorted(s.schema.names())
            if getattr(s, "_verif_schema_names", names) != names:
                n = -1
            s._verif_schema_names = names
            if rd.doc_count() != len(docs) or rd.doc_count_all() < len(docs) \
                    or rd.has_deletions() != (rd.doc_count_all() != rd.doc_count()):
                n = -1
        # disagreement between read paths is itself a violation: make it visible as a count mismatch
        if any(sorted(v) != sorted(docs) for v in views) or s.doc_count() != len(docs):
            n = -1
        gen = s.reader().generation()
        pairs = sorted(set((d["key"], int(d.get("uid", 0))) for d in s.documents()))
        self.log.emit("probe", keys=[list(x) for x in pairs], n=n, gen=-1 if gen is None else gen,
                      uptodate=bool(s.up_to_date()))

    def trace(self):
        return convert(self.log.events)

    def close(self):
        try:
            self.ix.close()
        except Exception:
            pass
        if self.dir:
            shutil.rmtree(self.dir, ignore_errors=True)


def renumbering_history(rng, wld, rounds=3, keys=("k1", "k2", "k3", "k4", "k5", "k6")):
    """A held searcher is probed (which fills its per-field caches), a commit renumbers the documents while
    the total count stays what it was (replace one / delete one and add another, then optimize), and the
    refreshed searcher is probed."""
    def commit(ops, **kw):
        name, wr = wld.writer()
        for op, k in ops:
            wld.api(name, "delete", k)
            if op == "put":
                wld.api(name, "add", k)
                wld.actor(name)
                wr.update_document(key=k, body=u"xx %s" % k, n=len(k))
            else:
                wld.actor(name)
                wr.delete_by_term("key", k)
        wld.actor(name)
        wr.commit(**kw)
    live = list(keys[:-1])
    spare = [keys[-1]]
    commit([("put", k) for k in rng.sample(live, len(live))])
    name = wld.new_reader_name()
    ok, s = wld.guarded(name, "searcher", wld.reader_handle().searcher)
    if not ok:
        return
    wld.probe(name, s)
    for _ in range(rounds):
        if rng.random() < 0.5:
            commit([("put", rng.choice(live))], optimize=True)
        else:
            gone = rng.choice(live)
            new = spare.pop()
            live[live.index(gone)] = new
            spare.append(gone)
            commit([("del", gone), ("put", new)], optimize=True)
        name2 = wld.new_reader_name()
        ok, s2 = wld.guarded(name2, "refresh", s.refresh)
        if not ok:
            return
        if s2 is not s:
            name, s = name2, s2
        wld.probe(name, s)
    wld.actor(name)
    s.close()


def random_history(rng, wld, nsteps, keys=("k1", "k2", "k3", "k4", "k5")):
    """Sequential history: writers one at a time; searchers kept open across commits."""
    searchers = []        # (name, searcher)
    live = set()
    extra_fields = 0      # committed extra fields (a commit may change nothing but the schema)
    for _ in range(nsteps):
        c = rng.random()
        if c < 0.55:
            name, wr = wld.writer()
            adds, dels = [], []
            pending_fields = extra_fields
            sc = rng.random()
            if getattr(wld, "rich_probe", False) and sc < 0.15 and extra_fields < 2:
                from whoosh import fields
                pending_fields = extra_fields + 1
                wld.actor(name)
                wld.guarded(name, "add_field", lambda: wr.add_field("extra%d" % pending_fields, fields.KEYWORD(stored=True)))
            elif getattr(wld, "rich_probe", False) and sc < 0.25 and extra_fields > 0:
                wld.actor(name)
                wld.guarded(name, "remove_field", lambda: wr.remove_field("extra%d" % extra_fields))
                pending_fields = extra_fields - 1
            pool = list(keys)
            rng.shuffle(pool)
            clear = rng.random() < 0.08
            if clear:
                # a CLEAR commit drops every earlier segment: in the model, every key is deleted first
                for k in sorted(keys):
                    wld.api(name, "delete", k)
            for _ in range(rng.randrange(0, 4)):
                k = pool.pop()          # key discipline: each key at most once per writer
                op = rng.random()
                if op < 0.5:
                    # add (as update when the key is live, keeping one live doc per key)
                    wld.api(name, "delete", k)
                    wld.api(name, "add", k)
                    wld.actor(name)
                    wr.update_document(key=k, body=u"xx %s" % k, n=len(k))
                elif op < 0.8:
                    wld.api(name, "delete", k)
                    wld.actor(name)
                    wr.delete_by_term("key", k)
            wld.actor(name)
            end = rng.random()
            if clear or end >= 0.15:
                extra_fields = pending_fields
            if clear:
                from whoosh import writing
                wr.commit(mergetype=writing.CLEAR)
            elif end < 0.15:
                wr.cancel()
            elif end < 0.45:
                wr.commit(merge=False)
            elif end < 0.6:
                wr.commit(optimize=True)
            else:
                wr.commit()
        elif c < 0.75 or not searchers:
            name = wld.new_reader_name()
            ok, s = wld.guarded(name, "searcher", wld.reader_handle().searcher)
            if ok:
                searchers.append((name, s))
                # (not always looked at right away: a snapshot whose files are first read after later commits
                # have merged its segments away)
                if rng.random() < 0.6:
                    wld.probe(name, s)
        elif c < 0.9:
            name, s = rng.choice(searchers)
            wld.probe(name, s)
        else:
            i = rng.randrange(len(searchers))
            name, s = searchers[i]
            name2 = wld.new_reader_name()
            ok, s2 = wld.guarded(name2, "refresh", s.refresh)
            if not ok:
                searchers.pop(i)
            elif s2 is not s:
                searchers[i] = (name2, s2)
                wld.probe(name2, s2)
            else:
                wld.probe(name, s)
    for name, s in searchers:
        wld.probe(name, s)
        wld.actor(name)
        s.close()
