"""Batch trace validation: hand a list of recorded traces to a *Trace.tla module
and collect, per trace, DONE (accepted to the end) or REJECT (with the line at
which the spec stopped allowing the trace and what it expected there)."""
import json
import os
import tempfile

from harness import tlc


class Validation(object):
    def __init__(self):
        self.accepted = 0
        self.rejects = []      # dicts from the spec: tid (0-based index into the input), l, ...
        self.states = 0
        self.transitions = 0
        self.results = []


def validate(run, module, cfg, traces, name=None, chunk=400, workers=16,
             timeout=900, deque=False, hwm=False, env=None):
    """traces: list of JSON-able traces. Returns a Validation.

    Deterministic trace specs print <<"DONE", tid>> or <<"REJECT", json>> for
    each trace.  With hwm=True (nondeterministic trace specs) the spec prints
    <<"HWM", tid, reached, length>> lines from its POSTCONDITION instead.
    """
    v = Validation()
    name = name or module
    for base in range(0, len(traces), chunk):
        part = traces[base:base + chunk]
        fd, path = tempfile.mkstemp(prefix="verif-trace-", suffix=".json")
        os.close(fd)
        try:
            tlc.write_json(path, part)
            e = {"TRACE_FILE": path}
            if env:
                e.update(env)
            res = tlc.run_tlc(module, cfg, workers=(1 if hwm else workers), env=e,
                              timeout=timeout, deque=deque)
        finally:
            os.unlink(path)
        run.add_tlc("%s[%d:%d]" % (name, base, base + len(part)), res)
        v.results.append(res)
        if res.violation:
            raise tlc.TLCError("trace spec %s reported %s:\n%s" % (module, res.violation, tlc.tail(res.stdout)))
        if hwm:
            seen = {}
            for t in res.numbers.get("HWM", []):
                seen[t[0]] = t
            for i in range(1, len(part) + 1):
                if i not in seen:
                    raise tlc.TLCError("trace spec %s: no HWM line for trace %d\n%s" % (module, i, tlc.tail(res.stdout)))
                _, reached, length = seen[i][:3]
                if reached >= length:
                    v.accepted += 1
                else:
                    v.rejects.append({"tid": base + i - 1, "l": reached + 1, "len": length})
        else:
            done = set(t[0] for t in res.numbers.get("DONE", []))
            rej = {}
            for r in res.tagged.get("REJECT", []):
                rej.setdefault(r["tid"], r)
            for i in range(1, len(part) + 1):
                if i in rej:
                    r = dict(rej[i])
                    r["tid"] = base + i - 1
                    v.rejects.append(r)
                elif i in done or len(part[i - 1]) == 0:
                    v.accepted += 1
                else:
                    raise tlc.TLCError("trace spec %s: trace %d neither DONE nor REJECT\n%s" % (
                        module, i, tlc.tail(res.stdout)))
    run.traces += v.accepted + len(v.rejects)
    return v
