"""spec -> code: behaviours of WriterFrontends.tla (exported by WriterFrontendsGen.tla) are imposed, step by step,
on a real BufferedWriter used from real threads; after every step the real object is projected onto the abstract
state and compared with what the specification predicts.

The harness can hold a thread at exactly the places where the specification lets it rest:
  * before a call                     (nothing started yet),
  * waiting for the object's lock     (the call was started and must *not* return while the model says the lock is
                                       held by the other thread),
  * gate A  - the storage operation that creates the temporary TOC of the wrapped writer's commit (model pc "com3"),
  * gate B  - the acquisition of the index lock for the next wrapped writer                      (model pc "com4").
Gates are the `gate` callback of harness.storage.Log (consulted before every storage operation) - no hook in /repo.
Nothing here knows what a BufferedWriter should do: every expected value comes from the TLC export."""
import threading
import time

BLOCK_WAIT = 0.12      # a call that has not returned after this long, while the model says it waits for the lock, waits
REST_WAIT = 30.0       # a thread the model lets run must reach its rest within this time


class _Worker(object):
    def __init__(self, name):
        self.name = name
        self.thread = None
        self.done = threading.Event()
        self.err = None
        self.result = None
        self.parked = None              # None | "A" | "B"
        self.parked_ev = threading.Event()
        self.release = threading.Event()
        self.incommit = False

    def start(self, fn):
        self.done.clear()
        self.err = None
        self.result = None

        def body():
            try:
                self.result = fn()
            except BaseException as ex:     # noqa - reported as an observation
                self.err = "%s: %s" % (type(ex).__name__, str(ex)[:120])
            finally:
                self.done.set()
        self.thread = threading.Thread(target=body, name=self.name)
        self.thread.daemon = True
        self.thread.start()


class Replay(object):
    def __init__(self, storage="ram", limit=2, initkeys=("k1",)):
        from whoosh import fields, writing
        from harness.storage import TracingRamStorage, TracingFileStorage, Log
        import tempfile
        self.log = Log()
        self.dir = None
        if storage == "ram":
            self.st = TracingRamStorage(self.log)
        else:
            self.dir = tempfile.mkdtemp(prefix="verif-fe-")
            self.st = TracingFileStorage(self.dir, log=self.log)
        self.schema = fields.Schema(key=fields.ID(stored=True, unique=True), n=fields.NUMERIC(stored=True),
                                    body=fields.TEXT)
        self.ix = self.st.create_index(self.schema)
        w = self.ix.writer()
        for k in initkeys:
            w.add_document(key=u"%s" % k, n=0, body=u"x")
        w.commit()
        self.workers = {}
        self.log.gate = self._gate
        self.bw = writing.BufferedWriter(self.ix, period=None, limit=limit)

    # -- the gate runs in whatever thread performs the storage operation
    def _gate(self, op, name):
        w = self.workers.get(threading.current_thread().name)
        if w is None or not w.incommit:
            return
        where = None
        if op == "create" and name.startswith("tmptoc"):
            where = "A"
        elif op == "lock":
            where = "B"
        if where:
            w.release.clear()
            w.parked = where
            w.parked_ev.set()
            w.release.wait(REST_WAIT * 2)
            w.parked = None
            w.parked_ev.clear()

    def worker(self, t):
        if t not in self.workers:
            self.workers[t] = _Worker(t)
        return self.workers[t]

    def call(self, t, op, k, n):
        w = self.worker(t)
        bw = self.bw

        def search():
            with bw.searcher() as s:
                return sorted([d["key"], d["n"]] for d in s.all_stored_fields())

        def committing(fn):
            def run():
                w.incommit = True
                try:
                    return fn()
                finally:
                    w.incommit = False
            return run
        fn = {"add": committing(lambda: bw.add_document(key=u"%s" % k, n=n, body=u"x")),        # (may commit at the limit)
              "update": committing(lambda: bw.update_document(key=u"%s" % k, n=n, body=u"x")),
              "commit": committing(bw.commit), "close": committing(bw.close), "search": search}[op]
        w.start(fn)

    # -- projection of the real object onto the abstract state (only when every thread rests)
    def observe(self, with_ram=True):
        o = {}
        with self.ix.searcher() as s:
            o["committed"] = sorted([d["key"], d["n"]] for d in s.all_stored_fields())
        free = self.bw.lock.acquire(False)
        if free:
            self.bw.lock.release()
        o["mutex_free"] = bool(free)
        if with_ram:
            rr = self.bw._get_ram_reader()
            o["ram"] = sorted([rr.stored_fields(dn)["key"], rr.stored_fields(dn)["n"]] for dn in rr.all_doc_ids())
            o["count"] = self.bw.bufferedcount
        o["inner_closed"] = bool(self.bw.writer.is_closed)
        return o

    def close(self):
        for w in self.workers.values():
            w.release.set()
        try:
            if not self.bw.writer.is_closed:
                self.bw.writer.cancel()
        except Exception:
            pass
        try:
            self.ix.close()
        except Exception:
            pass
        if self.dir:
            import shutil
            shutil.rmtree(self.dir, ignore_errors=True)


def _docs(lst):
    return sorted([d["k"], d["id"]] for d in lst)


def replay_behaviour(beh, storage="ram", limit=2, initkeys=("k1",)):
    """-> None, or a dict describing the first step at which the real object left the specified behaviour."""
    rp = Replay(storage, limit, initkeys)
    curop = {}
    try:
        for i, e in enumerate(beh):
            t, a, st = e["t"], e["a"], e["st"]
            w = rp.worker(t)
            pcs = st["pcs"]
            prob = None
            if a == "Call":
                curop[t] = e["op"]
                rp.call(t, e["op"], e["k"], e["id"])
                if st["mutex"] not in ("none", t):
                    # the specification makes the call wait for the lock
                    if w.done.wait(BLOCK_WAIT):
                        prob = "the call returned although the other thread holds the object's lock (commit in progress)"
            elif a == "Com2":
                if not w.parked_ev.wait(REST_WAIT) or w.parked != "A":
                    prob = "the committing thread did not reach the TOC write (parked=%r, returned=%r, err=%r)" % (
                        w.parked, w.done.is_set(), w.err)
            elif a == "Com3":
                w.release.set()
                if curop[t] != "close":
                    deadline = time.time() + REST_WAIT
                    while time.time() < deadline and not (w.parked == "B" or w.done.is_set()):
                        time.sleep(0.002)
                    if w.parked != "B":
                        prob = "the committing thread did not reach the index lock for its next writer (returned=%r, err=%r)" % (
                            w.done.is_set(), w.err)
            elif a == "Com4" and w.parked == "B":
                w.release.set()
            if prob is None and pcs[t] == "idle" and a != "Call":
                if not w.done.wait(REST_WAIT):
                    prob = "the call did not return"
                elif w.err:
                    prob = "the call raised %s" % w.err
                elif a == "Sea1" and w.result != _docs(e["view"]):
                    prob = "the writer's own searcher returned %r, specified %r" % (w.result, _docs(e["view"]))

            def resting(u):
                p = pcs[u]
                return p == "idle" or p == "com3" or (p == "com4" and curop.get(u) != "close") or \
                    (p in ("add0", "upd0", "com0", "sea0", "sea1") and st["mutex"] not in ("none", u))
            if prob is None:
                for u, wu in rp.workers.items():
                    if not resting(u):
                        continue        # (the real thread runs on its own between two rests)
                    p = pcs[u]
                    if p == "idle" and not wu.done.is_set():
                        prob = "thread %s has not returned from its call, the specification has it idle" % u
                    elif p != "idle" and wu.done.is_set():
                        prob = "thread %s returned from its call (err=%r) while the specification has it at %s" % (u, wu.err, p)
                    elif p in ("com3", "com4") and wu.parked != {"com3": "A", "com4": "B"}[p]:
                        prob = "thread %s is not held where the specification has it (%s)" % (u, p)
            if prob is None and all(resting(u) for u in pcs):
                obs = rp.observe(with_ram=not st["closed"])
                exp = {"committed": _docs(st["committed"]), "mutex_free": st["mutex"] == "none",
                       "inner_closed": st["inner"] == "closed"}
                if not st["closed"]:
                    exp["ram"] = _docs(st["ram"])
                    exp["count"] = st["count"]
                else:
                    exp["committed"] = _docs(st["model"])        # NothingLost (an invariant of the design model)
                if obs != exp:
                    diff = sorted(k for k in exp if obs.get(k) != exp[k])
                    prob = "state differs in %s: observed %r, specified %r" % (
                        diff, dict((k, obs.get(k)) for k in diff), dict((k, exp[k]) for k in diff))
                    return {"step": i, "action": a, "call": curop.get(t), "fields": diff, "problem": prob}
            if prob:
                return {"step": i, "action": a, "call": curop.get(t), "fields": [], "problem": prob}
        return None
    finally:
        rp.close()


def _one(args):
    beh, storage = args
    try:
        return replay_behaviour(beh, storage)
    except Exception as ex:      # machinery
        import traceback
        return {"machinery": traceback.format_exc()[-1500:]}


def replay_all(behs, procs=12):
    import multiprocessing
    jobs = [(b, "ram" if i % 2 == 0 else "file") for i, b in enumerate(behs)]
    ctx = multiprocessing.get_context("fork")
    with ctx.Pool(procs) as pool:
        return pool.map(_one, jobs, chunksize=1)
