"""Run context shared by all property drivers: evidence, violations, known
findings, replays, verdict/exit code."""
import hashlib
import json
import os
import random
import sys
import time

ROOT = os.path.dirname(os.path.dirname(os.path.abspath(__file__)))
EVIDENCE_DIR = os.path.join(ROOT, "evidence")
REPLAY_DIR = os.path.join(ROOT, "replays")
FINDINGS_FILE = os.path.join(ROOT, "known_findings.json")


def load_findings():
    if not os.path.exists(FINDINGS_FILE):
        return []
    with open(FINDINGS_FILE) as f:
        return json.load(f).get("findings", [])


def _match(entry_match, sig):
    """An entry matches a violation signature iff every key of entry_match is
    present in sig with an equal value (lists: entry value must be a subset)."""
    for k, v in entry_match.items():
        if k not in sig:
            return False
        sv = sig[k]
        if isinstance(v, list) and isinstance(sv, list):
            if not all(x in sv for x in v):
                return False
        elif sv != v:
            return False
    return True


class Run(object):
    def __init__(self, pid, tier, seed, level="model_checking"):
        self.pid = pid
        self.tier = tier
        self.seed = seed
        self.level = level
        self.rng = random.Random(seed)
        self.t0 = time.time()
        self.states = 0
        self.transitions = 0
        self.traces = 0
        self.evaluations = 0
        self.nontrivial = set()
        self.nontrivial_n = 0
        self.samples = []
        self.rule = ""
        self.assumptions = []
        self.extra = {}
        self.violations = []      # (sig, payload, path)
        self.known_hits = {}      # finding id -> count
        self.notes = []
        self.tlc_runs = []
        self.findings = [f for f in load_findings() if f.get("property") == pid]
        self.machinery_errors = []

    # ---- bookkeeping -----------------------------------------------------
    def add_tlc(self, name, res):
        self.states += res.distinct
        self.transitions += res.generated
        self.tlc_runs.append({"name": name, "distinct": res.distinct,
                              "generated": res.generated, "diameter": res.diameter,
                              "wall_s": round(res.wall_s, 2),
                              "coverage_zero": sorted(a for a, (d, t) in res.coverage.items() if t == 0)})

    def count(self, n=1):
        self.evaluations += n

    def nontriv(self, key):
        """Record one distinct non-trivial case (key must be hashable)."""
        h = hashlib.sha1(repr(key).encode()).digest()[:8]
        self.nontrivial.add(h)

    def sample(self, obj, cap=5):
        if len(self.samples) < cap:
            self.samples.append(obj)

    def note(self, s):
        self.notes.append(s)
        print("NOTE " + s)
        sys.stdout.flush()

    # ---- verdicts --------------------------------------------------------
    def violation(self, sig, payload):
        """Report a property violation observed on the real code.
        sig: dict describing the specific failing shape (used for known-finding
        matching). payload: everything needed to replay."""
        for f in self.findings:
            if f.get("status") == "known" and _match(f.get("match", {}), sig):
                self.known_hits[f["id"]] = self.known_hits.get(f["id"], 0) + 1
                return "known"
        os.makedirs(REPLAY_DIR, exist_ok=True)
        blob = json.dumps({"property": self.pid, "sig": sig, "payload": payload},
                          sort_keys=True, default=repr)
        h = hashlib.sha1(blob.encode()).hexdigest()[:12]
        path = os.path.join(REPLAY_DIR, "%s-%s.json" % (self.pid, h))
        # at most 200 replay files per run (every violation is still counted and reported)
        if len(self.violations) < 200:
            with open(path, "w") as f:
                f.write(blob)
        else:
            path = self.violations[-1][1]
        if len(self.violations) < 5:
            print("VIOLATION property=%s replay=%s" % (self.pid, path))
            print("  detail: %s" % json.dumps(sig, default=repr)[:600])
            sys.stdout.flush()
        self.violations.append((sig, path))
        return "violation"

    def machinery(self, msg):
        self.machinery_errors.append(msg)
        print("MACHINERY " + msg)
        sys.stdout.flush()

    # ---- output ----------------------------------------------------------
    def finish(self):
        wall = time.time() - self.t0
        for f in self.findings:
            if f.get("status") == "known" and f["id"] in self.known_hits:
                print("KNOWN-FINDING: property=%s %s [%s, %d case(s)]" % (
                    self.pid, f.get("what", ""), f["id"], self.known_hits[f["id"]]))
        cov = {
            "states": self.states,
            "transitions": self.transitions,
            "traces_validated_against_impl": self.traces,
            "evaluations": self.evaluations,
            "distinct_nontrivial": len(self.nontrivial),
            "rule": self.rule,
            "samples": self.samples or [{"none": "no sample recorded"}],
            "tlc_runs": self.tlc_runs,
            "known_findings_hit": self.known_hits,
            "notes": self.notes[:50],
        }
        cov.update(self.extra)
        ev = {
            "property_id": self.pid,
            "tier": self.tier,
            "seed": self.seed,
            "level": self.level,
            "coverage": cov,
            "assumptions": self.assumptions,
            "wall_s": round(wall, 2),
            "violations": len(self.violations),
        }
        os.makedirs(EVIDENCE_DIR, exist_ok=True)
        with open(os.path.join(EVIDENCE_DIR, "%s.json" % self.pid), "w") as f:
            json.dump(ev, f, indent=1, default=repr)
        if self.machinery_errors:
            print("RESULT %s machinery-failure (%d) wall=%.1fs" % (self.pid, len(self.machinery_errors), wall))
            return 2
        if self.violations:
            agg = {}
            for sig, _ in self.violations:
                s2 = dict((a, b) for a, b in sig.items() if a not in ("path", "kind"))
                k = json.dumps(s2, sort_keys=True, default=repr)
                agg.setdefault(k, []).append(sig.get("path", ""))
            for k, ps in sorted(agg.items(), key=lambda kv: -len(kv[1]))[:12]:
                print("  %5d x %s paths=%s" % (len(ps), k[:200], sorted(set(ps))[:3]))
            print("RESULT %s VIOLATIONS=%d wall=%.1fs" % (self.pid, len(self.violations), wall))
            return 1
        print("RESULT %s HOLD states=%d traces=%d evaluations=%d nontrivial=%d wall=%.1fs" % (
            self.pid, self.states, self.traces, self.evaluations, len(self.nontrivial), wall))
        return 0
