"""C14 - sorting, grouping, collapsing, filtering, paging are exact views of the results.
Spec: ResultsCheck.tla (SortSpec, GroupsSpec, CollapseSeq, filter/mask restriction, page
arithmetic over QuerySem!Denote / Rank).  Real searches on multi-segment indexes with
column-backed and posting-backed sort fields, missing values, segments lacking the column,
deletions; judged by TLC."""
import datetime
import random

from harness import world, qobs
from harness.props import c01

LEVEL = "model_checking"

NUMS = [-5, -1, 0, 1, 2, 7, 100]
TAGS = [u"alpha", u"beta", u"delta", u"gamma", u"zeta"]
WHENS = [datetime.datetime(1999, 1, 1), datetime.datetime(2000, 1, 1), datetime.datetime(2000, 1, 1, 0, 0, 1),
         datetime.datetime(2024, 2, 29)]
MULTI = [u"m1", u"m2", u"m3", u"m4", u"m5", u"m6", u"m7"]
FIELDS = {"num": NUMS, "numnc": NUMS, "tag": TAGS, "tagnc": TAGS, "when": WHENS, "flag": [False, True], "multi": MULTI,
          "st": TAGS}
# queries inside query facets (fuzzy matching has its own recorded finding under C01/C19 and is left to them)
FACET_QUERY_OPS = ["term", "every", "null", "prefix", "wildcard", "termrange", "numrange", "phrase", "and", "or", "andnot",
                   "andmaybe", "require", "not", "dismax", "const"]
# RangeFacet("num", start, end, gap, hardend) configurations
RANGES = [(-5, 10, 5, False), (0, 8, 3, False), (0, 8, 3, True), (-1, 20, [1, 2, 10], False), (1, 101, 50, False),
          (0, 1, 1, False)]


EPOCH = datetime.datetime(1999, 1, 1)
DATE_RANGES = [(datetime.datetime(1999, 1, 1), datetime.datetime(2000, 1, 2), datetime.timedelta(days=200), False),
               (datetime.datetime(1999, 1, 1), datetime.datetime(2000, 1, 2), datetime.timedelta(days=200), True),
               (datetime.datetime(2000, 1, 1), datetime.datetime(2000, 1, 1, 0, 0, 3), datetime.timedelta(seconds=1), False),
               (datetime.datetime(1999, 6, 1), datetime.datetime(2030, 1, 1), datetime.timedelta(days=4000), False)]


def secs(dt):
    """whole seconds since 1999-01-01 (the dates of the corpus have no fractions)"""
    return int((dt - EPOCH).total_seconds())


def buckets_of(start, end, gap, hardend):
    """The documented buckets of a RangeFacet: inclusive start, exclusive end, gap sequence whose last
    size repeats, last bucket clamped to end only with hardend."""
    gaps = list(gap) if isinstance(gap, (list, tuple)) else [gap]
    out, c, i = [], start, 0
    while c < end:
        e = c + gaps[min(i, len(gaps) - 1)]
        if hardend:
            e = min(e, end)
        out.append([c, e])
        c, i = e, i + 1
    return out


def make_schema():
    from whoosh import fields, analysis
    ana = analysis.RegexTokenizer(r"\S+") | analysis.StopFilter(stoplist=[world.GAPWORD], minsize=1, renumber=False)
    return fields.Schema(key=fields.ID(stored=True, unique=True),
                         body=fields.TEXT(analyzer=ana, phrase=True), title=fields.TEXT(analyzer=ana),
                         num=fields.NUMERIC(int, sortable=True), numnc=fields.NUMERIC(int),
                         tag=fields.ID(sortable=True), tagnc=fields.ID(), when=fields.DATETIME(sortable=True),
                         flag=fields.BOOLEAN(), multi=fields.KEYWORD(sortable=False, stored=True),
                         st=fields.ID(stored=True))


def rand_doc(rng, missing):
    d = world.rand_doc(rng, boosts=False)
    d["k"] = {}
    for f, pool in FIELDS.items():
        if f == "multi":
            n = rng.choice([0, 1, 1, 2, 3, 5]) if missing else rng.choice([1, 2, 3, 4])
            d["k"][f] = sorted(rng.sample(range(1, len(pool) + 1), n))
        elif missing and rng.random() < 0.25:
            d["k"][f] = []
        else:
            d["k"][f] = [rng.randrange(1, len(pool) + 1)]
    return d


def kwargs(k, d):
    kw = {"key": k}
    for f in ("body", "title"):
        if d["t"].get(f):
            kw[f] = world.tokens_text(d["t"][f])
    for f, pool in FIELDS.items():
        v = d["k"][f]
        if not v:
            continue
        if f == "multi":
            kw[f] = u" ".join(pool[i - 1] for i in v)
        else:
            kw[f] = pool[v[0] - 1]
    return kw


def build(rng, adocs, plan):
    from whoosh.filedb.filestore import RamStorage
    ix = RamStorage().create_index(make_schema())
    for step in plan:
        w = ix.writer()
        if step[0] == "commit":
            for k in step[1]:
                w.add_document(**kwargs(k, adocs[k]))
            o = step[2] if len(step) > 2 else {}
            w.commit(merge=o.get("merge", True), optimize=o.get("optimize", False))
        else:
            for k in step[1]:
                w.delete_by_term("key", k)
            w.commit(merge=False)
    return ix


def observe(s, q, aq, rng, missing, topks=(2, 3, 5)):
    from whoosh import sorting, query
    obs = []

    def guard(path, fn):
        try:
            fn()
        except Exception as ex:
            obs.append({"kind": "error", "path": path, "err": type(ex).__name__, "msg": str(ex)[:160]})

    def limited(mk):
        """A limited, score-ranked observation, plus (only for recognising the recorded finding
        'WrappingMatcher.replace() hands its threshold unscaled to the child') the same call with
        that one method corrected."""
        o = mk()
        try:
            with qobs.scaled_wrapping_replace():
                alt = mk()
            if alt != o:
                o["alt"] = alt
        except Exception:
            pass
        obs.append(o)
    single = ["num", "numnc", "tag", "tagnc", "when", "flag"]

    def facet_of(key):
        fn, rv = key[0], key[1]
        if fn == "_score":
            return sorting.ScoreFacet()
        if fn == "st":
            return sorting.StoredFieldFacet("st")
        if fn == "_range":
            return sorting.RangeFacet("num", *key[3])
        if fn == "_query":
            return sorting.QueryFacet(dict(("q%d" % (i + 1), world.to_query(a)) for i, a in enumerate(key[2])))
        return sorting.FieldFacet(fn, reverse=rv)

    def rand_key():
        c = rng.random()
        if c < 0.12:
            return ["st", False]
        if c < 0.24:
            rg = rng.choice(RANGES)
            return ["_range", False, buckets_of(*rg), list(rg)]
        if c < 0.36:
            # a query facet whose queries are disjoint, so that every document has one key
            a, b = world.rand_query(rng, 1, ops=FACET_QUERY_OPS), world.rand_query(rng, 1, ops=FACET_QUERY_OPS)
            return ["_query", False, [a, {"op": "andnot", "a": b, "b": a}]]
        return [rng.choice(single), rng.random() < 0.4]
    # sorting
    for _ in range(3):
        nk = rng.choice([1, 1, 2, 3])
        # score keys only where the scores are specified exactly (QuerySem!Scored)
        keys = [["_score", False] if nk > 1 and c01_scored(aq) and rng.random() < 0.15 else rand_key()
                for _ in range(nk)]
        grev = rng.random() < 0.25
        k = rng.choice([0, 0, 1, 2, 3])

        def f(keys=keys, grev=grev, k=k):
            facets = [facet_of(key) for key in keys]
            sb = facets[0] if len(facets) == 1 else sorting.MultiFacet(facets)
            r = s.search(q, limit=k or None, sortedby=sb, reverse=grev)
            obs.append({"kind": "sorted", "path": "sortedby=%s reverse=%s limit=%s" % (
                        [key[:2] + key[3:] for key in keys], grev, k), "keys": [key[:3] for key in keys],
                        "grev": grev, "k": k, "docs": [int(h.docnum) for h in r]})
            obs.append({"kind": "len", "path": "len(sorted results)", "n": len(r)})
        guard("sorted", f)
    # grouping
    # (fields with and without a column; a reversed facet groups under the same names; of a multi-valued field
    # without overlap one of the document's values is the key - which one is not said)
    for fn, overlap, stored in (("tag", False, False), ("num", False, False), ("multi", True, False),
                                ("flag", False, False), ("st", False, True), ("multi", True, True),
                                ("tagnc", False, False), ("numnc", False, False), ("multi", False, False),
                                ("numnc", True, False), ("tagnc", True, False)):
        frev = not stored and not overlap and rng.random() < 0.4

        def g(fn=fn, overlap=overlap, stored=stored, frev=frev):
            facet = (sorting.StoredFieldFacet(fn, allow_overlap=overlap) if stored
                     else sorting.FieldFacet(fn, allow_overlap=overlap, reverse=frev))
            r = s.search(q, limit=2, groupedby={fn: facet})
            groups = r.groups(fn)
            pool = FIELDS[fn]
            out = []
            for key, dns in groups.items():
                if key is None:
                    kid = 0
                else:
                    if isinstance(key, bytes):
                        key = key.decode("utf8")
                    if fn == "flag" and key in ("t", "f"):
                        key = (key == "t")             # BOOLEAN facets report the indexed term text
                    if key in pool and type(key) == type(pool[0]):
                        kid = pool.index(key) + 1
                    elif _is_column_default(s, fn, key):
                        kid = -2                          # the column's default value used as a group key
                    else:
                        kid = -1
                out.append([kid, [int(x) for x in dns]])
            obs.append({"kind": "groups", "path": "groupedby=%s overlap=%s stored=%s reverse=%s" % (fn, overlap, stored, frev),
                        "f": "_multi1" if fn == "multi" and not overlap else fn, "overlap": overlap, "groups": out})
        guard("groups:" + fn, g)
    # range and query facets
    rg = rng.choice(RANGES)

    def gr():
        bs = buckets_of(*rg)
        r = s.search(q, limit=2, groupedby={"r": sorting.RangeFacet("num", *rg)})
        out = []
        for key, dns in r.groups("r").items():
            kid = 0 if key is None else (bs.index(list(key)) + 1 if isinstance(key, tuple) and list(key) in bs else -1)
            out.append([kid, [int(x) for x in dns]])
        obs.append({"kind": "groups", "path": "groupedby=RangeFacet(num, %s)" % (rg,), "f": "_range", "overlap": False,
                    "buckets": bs, "groups": out})
    guard("groups:range", gr)
    # date range facets: timedelta gaps, buckets [start, end) in time
    drg = rng.choice(DATE_RANGES)

    def gdr():
        start, end, gap, hardend = drg
        bs = []
        c = start
        while c < end:
            e = c + gap
            if hardend:
                e = min(e, end)
            bs.append([c, e])
            c = e
        r = s.search(q, limit=2, groupedby={"d": sorting.DateRangeFacet("when", start, end, gap, hardend=hardend)})
        out = []
        for key, dns in r.groups("d").items():
            kid = 0 if key is None else (bs.index(list(key)) + 1 if isinstance(key, tuple) and list(key) in bs else -1)
            out.append([kid, [int(x) for x in dns]])
        obs.append({"kind": "groups", "path": "groupedby=DateRangeFacet(when, %s)" % (drg,), "f": "_drange", "overlap": False,
                    "buckets": [[secs(a), secs(b)] for a, b in bs], "groups": out})
    guard("groups:daterange", gdr)
    aqs = [world.rand_query(rng, rng.randrange(0, 2), ops=FACET_QUERY_OPS) for _ in range(rng.choice([1, 2, 3]))]
    for overlap in (False, True):
        other = rng.choice([None, "zz"])

        def gq(overlap=overlap, other=other):
            names = ["q%d" % (i + 1) for i in range(len(aqs))]
            qd = dict((n, world.to_query(a)) for n, a in zip(names, aqs))
            r = s.search(q, limit=2, groupedby={"q": sorting.QueryFacet(qd, other=other, allow_overlap=overlap)})
            out = []
            for key, dns in r.groups("q").items():
                kid = 0 if key == other else (names.index(key) + 1 if key in names else -1)
                out.append([kid, [int(x) for x in dns]])
            obs.append({"kind": "groups", "path": "groupedby=QueryFacet(%d queries, other=%r, allow_overlap=%s)" % (
                        len(aqs), other, overlap), "f": "_query", "overlap": overlap, "qs": aqs, "groups": out})
        guard("groups:query", gq)
    # the other views of the groups (FacetMap types) of an unlimited search, in result order
    if c01_scored(aq) and not missing:
        for fn, overlap in (("tag", False), ("num", False), ("multi", True), ("tagnc", False)):
            mt = rng.choice(["list", "set", "count", "best"])
            sort = [] if rng.random() < 0.5 else [[rng.choice(single), rng.random() < 0.4]]

            def gv(fn=fn, overlap=overlap, mt=mt, sort=sort):
                mtype = {"list": sorting.OrderedList, "set": sorting.UnorderedList, "count": sorting.Count,
                         "best": sorting.Best}[mt]
                kw = {"sortedby": sorting.FieldFacet(sort[0][0], reverse=sort[0][1])} if sort else {}
                r = s.search(q, limit=None, groupedby={fn: sorting.FieldFacet(fn, allow_overlap=overlap, maptype=mtype)}, **kw)
                pool = FIELDS[fn]
                out = []
                for key, v in r.groups(fn).items():
                    if isinstance(key, bytes):
                        key = key.decode("utf8")
                    kid = pool.index(key) + 1 if key in pool else -1
                    out.append([kid, [int(x) for x in v] if mt in ("list", "set") else int(v)])
                obs.append({"kind": "groupview", "path": "groupedby=%s maptype=%s sortedby=%s" % (fn, mt, sort), "f": fn,
                            "overlap": overlap, "maptype": mt, "sort": sort, "groups": out})
            guard("groupview:" + fn, gv)
    # collapsing (by score ranking)
    if c01_scored(aq):
        for fn in ("tag", "num", "flag"):
            n = rng.choice([1, 2, 2, 3])
            k = rng.choice([0, 2, 4])
            # the ranking that is collapsed: by score, or (where every document has the key) by a field
            sort = [] if missing or rng.random() < 0.5 else [[rng.choice(single), rng.random() < 0.4]]

            # which documents of a key are its best: the first in the ranking, or by a separate order facet
            order = [] if missing or rng.random() < 0.5 else [[rng.choice(single), rng.random() < 0.4]]

            # ... in the direction asked for, or the whole ranking reversed (search(reverse=True))
            grev = rng.random() < 0.3

            def cfn(fn=fn, n=n, k=k, sort=sort, order=order, grev=grev):
                def mk():
                    kw = {"reverse": True} if grev else {}
                    if sort:
                        kw["sortedby"] = sorting.FieldFacet(sort[0][0], reverse=sort[0][1])
                    if order:
                        kw["collapse_order"] = sorting.FieldFacet(order[0][0], reverse=order[0][1])
                    r = s.search(q, limit=k or None, collapse=fn, collapse_limit=n, **kw)
                    return {"kind": "collapse", "path": "collapse=%s limit=%d k=%d sortedby=%s collapse_order=%s reverse=%s" % (
                            fn, n, k, sort, order, grev), "f": fn, "n": n, "k": k, "sort": sort, "order": order,
                            "grev": grev,
                            "collapsed": int(sum(r.collapsed_counts.values())) if k == 0 else -1,
                            "len": len(r),
                            "docs": [int(h.docnum) for h in r]}
                limited(mk)
            guard("collapse:" + fn, cfn)
        # ... and the plain case at several limits: the best document of each key, score-ranked, top k (documents
        # are displaced from a heap that is also the source of the pruning threshold)
        for fn2, k2 in [(f2, k2) for f2 in (["tag", "num", "flag"] if len(topks) > 3 else [rng.choice(["tag", "num", "flag"])])
                        for k2 in topks]:
            def cfn2(fn=fn2, k=k2):
                def mk():
                    r = s.search(q, limit=k, collapse=fn, collapse_limit=1)
                    return {"kind": "collapse", "path": "collapse=%s limit=1 k=%d" % (fn, k), "f": fn, "n": 1, "k": k,
                            "sort": [], "order": [], "grev": False, "collapsed": -1, "len": len(r),
                            "docs": [int(h.docnum) for h in r]}
                limited(mk)

                # the same with the matched terms recorded (one more collector wrapped around the others)
                def mkt():
                    r = s.search(q, limit=k, collapse=fn, collapse_limit=1, terms=True)
                    return {"kind": "collapse", "path": "collapse=%s limit=1 k=%d terms=True" % (fn, k), "f": fn, "n": 1,
                            "k": k, "sort": [], "order": [], "grev": False, "collapsed": -1, "len": len(r),
                            "docs": [int(h.docnum) for h in r]}
                limited(mkt)
            guard("collapse-topk:" + fn2, cfn2)
        # filter / mask
        afilt = world.rand_query(rng, 1, scored_only=True, ops=FACET_QUERY_OPS)
        amask = world.rand_query(rng, 1, scored_only=True, ops=FACET_QUERY_OPS)
        hasf, hasm = rng.random() < 0.7, rng.random() < 0.5
        k = rng.choice([0, 1, 3])

        how = rng.choice(["query", "results", "results", "set"])
        mhow = rng.choice(["query", "results", "set"])
        flim, mlim = rng.choice([None, 1, 2]), rng.choice([None, 1, 2])     # a Results filter may come from a limited search

        def ff():
            kw = {}
            if hasf:
                fq = world.to_query(afilt)
                kw["filter"] = fq if how == "query" else (s.search(fq, limit=flim) if how == "results"
                                                          else set(s.docs_for_query(fq)))
            if hasm:
                mq = world.to_query(amask)
                kw["mask"] = mq if mhow == "query" else (s.search(mq, limit=mlim) if mhow == "results"
                                                         else set(s.docs_for_query(mq)))
            def mk():
                r = s.search(q, limit=k or None, **kw)
                return {"kind": "filtered", "path": "filter=%s mask=%s limit=%d" % (hasf, hasm, k), "hasfilt": hasf,
                        "hasmask": hasm, "filt": afilt, "mask": amask, "k": k, "hits": qobs.hits_of(r)}
            limited(mk)
            # len() of the restricted results (of the limited search, and of the unlimited one)
            obs.append({"kind": "filteredlen", "path": "len(search(filter=%s mask=%s limit=%d))" % (hasf, hasm, k),
                        "hasfilt": hasf, "hasmask": hasm, "filt": afilt, "mask": amask, "k": k,
                        "n": len(s.search(q, limit=k or None, **kw)), "n_unlimited": len(s.search(q, limit=None, **kw))})
            # ... and of the same searches told not to use block qualities (optimize=False)
            obs.append({"kind": "filteredlen", "path": "len(search(filter=%s mask=%s limit=%d optimize=False))" % (hasf, hasm, k),
                        "hasfilt": hasf, "hasmask": hasm, "filt": afilt, "mask": amask, "k": k,
                        "n": len(s.search(q, limit=k or None, optimize=False, **kw)),
                        "n_unlimited": len(s.search(q, limit=None, optimize=False, **kw))})
            # ... and collapsed on top of that: the best document of each key among those the filter / mask let through
            cf = rng.choice(["tag", "num", "flag"])

            def mkc():
                r = s.search(q, limit=k or None, collapse=cf, collapse_limit=1, **kw)
                return {"kind": "collapse", "path": "collapse=%s with filter=%s mask=%s k=%d" % (cf, hasf, hasm, k), "f": cf,
                        "n": 1, "k": k, "sort": [], "order": [], "grev": False, "collapsed": -1, "len": len(r),
                        "docs": [int(h.docnum) for h in r], "hasfilt": hasf, "hasmask": hasm, "filt": afilt, "mask": amask}
            limited(mkc)
        guard("filtered", ff)
        # the limit bounds the hits whatever else the search computes, in either direction
        for rev, grouped in ((False, True), (True, False), (True, True)):
            k = rng.choice([1, 2, 3])

            def lm(rev=rev, grouped=grouped, k=k):
                def mk():
                    kw = {"groupedby": "tag"} if grouped else {}
                    r = s.search(q, limit=k, reverse=rev, **kw)
                    return {"kind": "limited", "path": "search(limit=%d, reverse=%s%s)" % (k, rev, ", groupedby=tag" if grouped else ""),
                            "k": k, "rev": rev, "docs": [int(h.docnum) for h in r]}
                limited(mk)
            guard("limited", lm)
        # combining two Results objects
        aq2 = world.rand_query(rng, 1, scored_only=True)
        if c01_scored(aq2):
            rop = rng.choice(["extend", "filter", "upgrade", "downgrade", "upgrade_and_extend"])
            k1, k2 = rng.choice([0, 2, 3]), rng.choice([0, 1, 3])

            def ro():
                def mk():
                    r1 = s.search(q, limit=k1 or None)
                    r2 = s.search(world.to_query(aq2), limit=k2 or None)
                    if rop == "downgrade":
                        r1.upgrade(r2, reverse=True)
                    else:
                        getattr(r1, rop)(r2)
                    return {"kind": "resultsop", "path": "search(limit=%d).%s(search(limit=%d))" % (k1, rop, k2), "op": rop,
                            "q2": aq2, "k1": k1, "k2": k2, "docs": [int(h.docnum) for h in r1], "n": len(r1)}
                limited(mk)
            guard("resultsop", ro)
        # paging
        pagelen = rng.choice([1, 2, 3, 10])
        pagenum = rng.choice([1, 1, 2, 3, 7])

        def pg():
            def mk():
                p = s.search_page(q, pagenum, pagelen=pagelen)
                return {"kind": "page", "path": "search_page(%d, pagelen=%d)" % (pagenum, pagelen), "pagenum": pagenum,
                        "pagelen": pagelen, "total": int(p.total), "pagecount": int(p.pagecount),
                        "offset": int(p.offset), "plen": int(p.pagelen), "docs": [int(h.docnum) for h in p]}
            limited(mk)
        guard("page", pg)
    return obs


def _is_column_default(s, fn, key):
    fobj = s.schema[fn]
    if not fobj.column_type:
        return False
    try:
        d = fobj.column_type.default_value()
        return key == d or key == fobj.from_column_value(d)
    except Exception:
        return False


def c01_scored(aq):
    op = aq["op"]
    if op in ("term", "every", "const", "null", "colq"):
        return True
    if op in ("and", "or", "dismax"):
        return all(c01_scored(k) for k in aq["kids"])
    if op in ("andnot", "require"):
        return c01_scored(aq["a"])
    if op == "andmaybe":
        return c01_scored(aq["a"]) and c01_scored(aq["b"])
    return False


def check(run):
    quick = run.tier == "quick"
    rng = random.Random(run.seed + 1414)
    run.rule = ("random multi-segment indexes (deletions; with and without missing values; column-backed and "
                "posting-backed sort fields) x random queries; sortedby with 1-3 keys / mixed directions / score / "
                "global reverse / limits, groupedby (incl. overlapping), collapse with limits, filter/mask as query / "
                "Results / set, search_page arithmetic, len(results), judged by ResultsCheck.tla (exact regime); "
                "non-trivial = accepted (index, query) whose result set is neither empty nor everything")
    from whoosh import scoring
    cases, meta = [], []
    nworlds = 8 if quick else 80
    # (after the general worlds, a number of small ones that are only asked for the best documents of each key at
    # limits 1..5: see `tall` below)
    for wi in list(range(nworlds)) + [1000 + j for j in range(14 if quick else 80)]:
        heaponly = wi >= 1000
        missing = wi % 2 == 1 and not heaponly
        # (a few very small indexes: a multi-valued field then has more values than the index has documents)
        n = rng.randrange(4, 10) if wi % 4 != 3 else rng.randrange(2, 5)
        if heaponly:
            n = rng.randrange(12, 20)
        adocs = dict(("k%d" % i, rand_doc(rng, missing)) for i in range(n))
        tall = wi % 4 == 2 or heaponly
        if tall:
            # scores spread widely (1..12 occurrences of one word) over a few more documents: what is collected
            # into, displaced from and pruned against the heap of a limited search differs from document to document
            for i in range(n, n + 5):
                adocs["k%d" % i] = rand_doc(rng, missing)
            for d in adocs.values():
                d["t"]["body"] = [[1]] * rng.randrange(1, 13)
                if rng.random() < 0.4:
                    d["k"]["tag"] = []
        plan = world.rand_plan(rng, adocs.keys(), max_segments=3)
        if missing and wi % 4 == 1:
            # a segment without any column for the sortable fields: none of its documents has a value
            # (the segments of this world are kept apart: no merging commit)
            ks = sorted(adocs)
            rng.shuffle(ks)
            cut = rng.randrange(1, len(ks) - 1)
            plan = [("commit", ks[:cut], {"merge": False}), ("commit", ks[cut:], {"merge": False})]
            commits = [st for st in plan if st[0] == "commit"]
            chosen = rng.choice(commits)[1]
            for k in chosen:
                for f in ("num", "tag", "when"):
                    adocs[k]["k"][f] = []
            # ... and a document without a value in a segment that does have the column
            others = [k for st in commits for k in st[1] if k not in chosen]
            if len(others) > 1:
                for f in ("num", "tag", "when"):
                    adocs[others[0]]["k"][f] = []
                if len(others) > 2:
                    plan.append(("delete", [others[-1]]))
        ix = build(rng, adocs, plan)
        with ix.searcher(weighting=scoring.Frequency()) as s:
            rd = s.reader()
            docs = []
            for dn in range(rd.doc_count_all()):
                k = rd.stored_fields(dn)["key"]
                d = adocs[k]
                docs.append({"live": not rd.is_deleted(dn), "t": {f: d["t"].get(f, []) for f in ("body", "title")},
                             "n": {"num": [NUMS[i - 1] for i in d["k"]["num"]],
                                   "whenv": [secs(WHENS[i - 1]) for i in d["k"]["when"]]}, "b4": 4, "k": d["k"], "key": k})
            idx = {"docs": docs}
            qs = []
            for qi in range((10 if quick else 16) if not heaponly else 1):
                aq = world.rand_query(rng, rng.randrange(0, 3), scored_only=(qi % 2 == 0),
                                      ops=["term", "every", "prefix", "and", "or", "andnot", "andmaybe", "not", "null", "dismax"])
                if tall and qi < 3:
                    aq = {"op": "term", "f": "body", "t": [1], "b4": 4}
                elif qi % 5 == 3:
                    # a condition on the per-document values of a column (ColumnQuery), alone or next to a term
                    cq = {"op": "colq", "f": "num", "rel": rng.choice(["eq", "le"]), "v": rng.choice(NUMS)}
                    other = {"op": "term", "f": "body", "t": world.rand_term(rng), "b4": 4}
                    aq = rng.choice([cq, {"op": "and", "kids": [cq, other], "b4": 4}, {"op": "or", "kids": [other, cq], "b4": 4},
                                     {"op": "andnot", "a": other, "b": cq}])
                q = world.to_query(aq)
                obs = observe(s, q, aq, rng, missing or tall, topks=(1, 2, 3, 4, 5) if tall else (2, 3, 5))
                if heaponly:
                    obs = [o for o in obs if o["kind"] in ("collapse", "error")]
                run.count(len(obs))
                qs.append({"q": aq, "obs": obs})
            if missing:
                # every document, by each column-backed key in both directions (documents without a value, in
                # segments with and without the column, must tie with one another)
                from whoosh import sorting, query
                obs = []
                for f in ("num", "when", "tag", "numnc"):
                    for rv in (False, True):
                        r = s.search(query.Every(), limit=None, sortedby=sorting.FieldFacet(f, reverse=rv))
                        obs.append({"kind": "sorted", "path": "sortedby=%s reverse-key=%s (every document)" % (f, rv),
                                    "keys": [[f, rv]], "grev": False, "k": 0, "docs": [int(h.docnum) for h in r]})
                for grev in (False, True):
                    r = s.search(query.Every(), limit=None, sortedby=sorting.StoredFieldFacet("st"), reverse=grev)
                    obs.append({"kind": "sorted", "path": "sortedby=StoredFieldFacet(st) reverse=%s (every document)" % grev,
                                "keys": [["st", False]], "grev": grev, "k": 0, "docs": [int(h.docnum) for h in r]})
                    rg = RANGES[wi % len(RANGES)]
                    r = s.search(query.Every(), limit=None, sortedby=sorting.RangeFacet("num", *rg), reverse=grev)
                    obs.append({"kind": "sorted", "path": "sortedby=RangeFacet(num, %s) reverse=%s (every document)" % (rg, grev),
                                "keys": [["_range", False, buckets_of(*rg)]], "grev": grev, "k": 0,
                                "docs": [int(h.docnum) for h in r]})
                run.count(len(obs))
                qs.append({"q": {"op": "every", "f": "", "b4": 4}, "obs": obs})
            cases.append({"idx": idx, "qs": qs})
            meta.append({"plan": plan, "nseg": len(rd.leaf_readers()), "deleted": sum(1 for d in docs if not d["live"]),
                         "missing": missing})
    rejects = qobs.judge(run, cases, name="ResultsCheck", module="ResultsCheck", chunk=20)
    # recorded finding: a column-backed facet puts the documents without a value under the column's
    # default value instead of None - recognised when that is the only difference
    extra = {}
    for ci, qi, oi, exp in rejects:
        o = cases[ci]["qs"][qi]["obs"][oi]
        if o["kind"] == "groups" and isinstance(exp.get("groups"), dict):
            got = dict((("0" if g[0] == -2 else str(g[0])), sorted(g[1])) for g in o["groups"])
            want = dict((k, sorted(v)) for k, v in exp["groups"].items())
            if got == want and any(g[0] == -2 for g in o["groups"]):
                extra[(ci, qi, oi)] = "column-facet-groups-missing-under-default"
        if o["kind"] == "collapse" and not o["order"] \
                and o["docs"] == exp.get("docs_if_valueless_documents_share_a_key") \
                and o["len"] == exp.get("len_if_valueless_documents_share_a_key") \
                and (o["docs"] != exp.get("docs") or o["len"] != exp.get("len")) \
                and (o["collapsed"] < 0 or o["collapsed"] + o["len"] == exp.get("collapsed", 0) + exp.get("len", 0)):
            extra[(ci, qi, oi)] = "column-facet-groups-missing-under-default"
    # recorded finding: WrappingMatcher.replace() unscaled - recognised when the identical call with that
    # one method corrected is accepted by the specification
    alts = [(ci, qi, oi) for ci, qi, oi, exp in rejects if "alt" in cases[ci]["qs"][qi]["obs"][oi]
            and (ci, qi, oi) not in extra]
    if alts:
        acases = [{"idx": cases[ci]["idx"], "qs": [{"q": cases[ci]["qs"][qi]["q"],
                                                      "obs": [cases[ci]["qs"][qi]["obs"][oi]["alt"]]}]}
                  for ci, qi, oi in alts]
        rej2 = set(r[0] for r in qobs.judge(run, acases, name="ResultsCheck-alt", module="ResultsCheck", chunk=20))
        for n, key in enumerate(alts):
            if n not in rej2:
                extra[key] = "wrapping-replace-unscaled"
    # recorded finding (C01): len() of a limited search undercounts after matcher.replace() pruned documents -
    # recognised when the limited length is too small and the unlimited length of the same call is right
    for ci, qi, oi, exp in rejects:
        o = cases[ci]["qs"][qi]["obs"][oi]
        if o["kind"] == "filteredlen" and o["k"] > 0 and o["n"] < exp.get("n", -1) == o["n_unlimited"]:
            extra[(ci, qi, oi)] = "limited-count-undercounts"
    c01.EXTRA_CLASSES = extra
    c01.report(run, "C14", cases, meta, rejects, "c14")
    c01.EXTRA_CLASSES = {}
    # collapsing collectors step by step (thresholds after TopCollector.remove, kept entries)
    from harness import coltrace
    coltrace.check_collectors(run, rng, 6 if quick else 60, 25, "c14-collector", collapse_fields=("num", "key"))
    bad = set((ci, qi) for ci, qi, oi, exp in rejects)
    for ci, cs in enumerate(cases):
        for qi, qo in enumerate(cs["qs"]):
            ns = [o["n"] for o in qo["obs"] if o["kind"] == "len"]
            if (ci, qi) not in bad and ns and 0 < ns[0] < len(cs["idx"]["docs"]):
                run.nontriv((ci, qi, qobs.shape(qo["q"])))


def replay(run, rp):
    raise NotImplementedError
