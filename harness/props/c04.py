"""C04 - one writer at a time; no committed update is ever lost.
Spec: IndexStore.tla (WLock/WLockFail/WUnlock guards, LockMutex, G_ReadToc under the
lock, G_TocRename: one generation forward from the newest, content chain, LockFreedom).
Binding: storage traces of racing writer threads and processes (real flock), of the
AsyncWriter and BufferedWriter front-ends, validated by IndexStoreTrace.tla."""
import json
import os
import random
import threading
import time

from harness import ixdriver, ixcommon, tlc
from harness.storage import Log, TracingFileStorage

LEVEL = "model_checking"


def txn(w, name, wr, r, keys):
    """One transaction through writer wr; returns how it ended."""
    pool = list(keys)
    r.shuffle(pool)
    for _ in range(r.randrange(1, 3)):
        k = pool.pop()
        w.api(name, "delete", k)
        w.api(name, "add", k)
        w.actor(name)
        wr.update_document(key=k, body=u"x")
    w.actor(name)
    end = r.random()
    if end < 0.6:
        wr.commit(merge=r.random() < 0.5)
        return "commit"
    if end < 0.8:
        wr.cancel()
        return "cancel"
    ixcommon.failing_block(wr, r)
    return "exception"


def racing_threads(run, rng, n):
    from whoosh.index import LockError
    items = []
    for i in range(n):
        cfg = {"storage": rng.choice(["file", "ram"]), "compound": True}
        seed = rng.randrange(1 << 30)
        nthreads = rng.choice([2, 3, 4])
        w = ixdriver.IxWorld(**cfg)
        errors = []
        wlock = threading.Lock()

        def worker(j):
            r = random.Random(seed + j)
            try:
                for _ in range(4):
                    with wlock:
                        w.nw += 1
                        name = "w%d" % w.nw
                        w.writers.append(name)
                    w.actor(name)
                    try:
                        wr = w.ix.writer(timeout=r.choice([0.0, 0.0, 0.02]), delay=0.005)
                    except LockError:
                        continue
                    except Exception as ex:
                        w.log.emit("apierror", call="writer", err=type(ex).__name__)
                        continue
                    txn(w, name, wr, r, ["t%d_a" % j, "t%d_b" % j, "shared"])
            except Exception as ex:
                errors.append(repr(ex))

        ths = [threading.Thread(target=worker, args=(j,)) for j in range(nthreads)]
        try:
            for t in ths:
                t.start()
            for t in ths:
                t.join(120)
            name = w.new_reader_name()
            ok, s = w.guarded(name, "searcher", w.ix.searcher)
            if ok:
                w.probe(name, s)
                s.close()
            t = w.trace()
            run.count(len(t))
            items.append({"trace": t, "writers": w.writers, "readers": w.readers,
                          "cfg": dict(cfg, threads=nthreads), "seed": seed, "errors": errors})
        finally:
            w.close()
    return items


def racing_processes(run, rng, n):
    """Writer *processes* racing on one directory with the real flock; all of them append to one
    shared log whose flock-protected atomic sections give the global order."""
    from whoosh import index
    from whoosh.index import LockError
    items = []
    for i in range(n):
        seed = rng.randrange(1 << 30)
        nproc = rng.choice([2, 3])
        w = ixdriver.IxWorld(storage="file")
        logpath = os.path.join(os.environ.get("TMPDIR", "/tmp"), "verif-c04-%d-%d.log" % (os.getpid(), i))
        for pth in (logpath, logpath + ".order"):
            if os.path.exists(pth):
                os.unlink(pth)
        pids = []
        try:
            for j in range(nproc):
                pid = os.fork()
                if pid == 0:
                    code = 0
                    try:
                        log = Log(path=logpath)
                        log.shared = True
                        st = TracingFileStorage(w.dir, log=log)
                        ix = st.open_index()
                        r = random.Random(seed + j)
                        for c in range(3):
                            name = "p%d_w%d" % (j, c)
                            log.set_actor(name)
                            try:
                                wr = ix.writer(timeout=r.choice([0.0, 0.05]), delay=0.005)
                            except LockError:
                                continue
                            k = "p%d_k%d" % (j, c)
                            log.emit("api", op="delete", key=k)
                            log.emit("api", op="add", key=k)
                            wr.update_document(key=k, body=u"x")
                            if r.random() < 0.75:
                                wr.commit(merge=r.random() < 0.5)
                            else:
                                wr.cancel()
                    except BaseException:
                        code = 3
                    os._exit(code)
                pids.append(pid)
            bad = 0
            for pid in pids:
                _, st_ = os.waitpid(pid, 0)
                if st_ != 0:
                    bad += 1
            log = Log(path=logpath)
            events = log.load() if os.path.exists(logpath) else []
            writers = sorted(set(e["proc"] for e in events))
            # the parent looks at the result through a fresh traced reader
            w.log.events = []
            name = w.new_reader_name()
            ok, s = w.guarded(name, "searcher", w.ix.searcher)
            if ok:
                w.probe(name, s)
                s.close()
            t = ixdriver.convert(events + w.log.events)
            run.count(len(t))
            items.append({"trace": t, "writers": writers, "readers": w.readers,
                          "cfg": {"storage": "file", "processes": nproc}, "seed": seed,
                          "errors": ["%d child process(es) failed" % bad] if bad else []})
        finally:
            w.close()
            for pth in (logpath, logpath + ".order"):
                if os.path.exists(pth):
                    os.unlink(pth)
    return items


def fork_while_locked(run, rng, n):
    """A process forks while one of its writers is open (the child inherits the lock file
    descriptor) and the child outlives the writer: commit()/cancel()/a failing with-block must
    still free the lock for the next writer."""
    from whoosh.index import LockError
    items = []
    for i in range(n):
        w = ixdriver.IxWorld(storage="file")
        pids = []
        try:
            for how in ("commit", "cancel", "exception"):
                try:
                    name, wr = w.writer()
                except LockError:
                    break             # the refused attempt is in the trace; the spec judges it
                w.api(name, "delete", "f" + how)
                w.api(name, "add", "f" + how)
                w.actor(name)
                wr.update_document(key=u"f" + how, body=u"x")
                pid = os.fork()
                if pid == 0:
                    time.sleep(1.5)
                    os._exit(0)
                pids.append(pid)
                w.actor(name)
                if how == "commit":
                    w.guarded(name, "commit", wr.commit)        # (an exception is a violation, not a driver failure)
                elif how == "cancel":
                    w.guarded(name, "cancel", wr.cancel)
                    w.log.events = [e for e in w.log.events
                                    if not (e["ev"] == "api" and e.get("key") == "fcancel")] if False else w.log.events
                else:
                    ixcommon.failing_block(wr, rng)
                w.nw += 1
                nxt = "w%d" % w.nw
                w.writers.append(nxt)
                w.actor(nxt)
                try:
                    w2 = w.ix.writer(timeout=0.0)
                    w2.cancel()
                except LockError:
                    pass          # the refused attempt is in the trace; the spec judges it
            t = w.trace()
            run.count(len(t))
            items.append({"trace": t, "writers": w.writers, "readers": w.readers,
                          "cfg": {"storage": "file", "fork_while_locked": True}, "seed": 0})
        finally:
            for pid in pids:
                try:
                    os.kill(pid, 9)
                except OSError:
                    pass
                try:
                    os.waitpid(pid, 0)
                except OSError:
                    pass
            w.close()
    return items


class _IndexProxy(object):
    """Lets a front-end writer (AsyncWriter) create its real writer under a named actor."""

    def __init__(self, w, name, pending):
        self._w = w
        self._name = name
        self._pending = pending

    def __getattr__(self, k):
        return getattr(self._w.ix, k)

    def writer(self, **kw):
        self._w.actor(self._name)
        wr = self._w.ix.writer(**kw)
        for op, key in self._pending:
            self._w.log.emit("api", op=op, key=key)
        del self._pending[:]
        return wr


def frontends(run, rng, n):
    from whoosh import writing
    from whoosh.index import LockError
    items = []
    for i in range(n):
        cfg = {"storage": rng.choice(["file", "ram"]), "compound": True}
        w = ixdriver.IxWorld(**cfg)
        try:
            # committed documents that both writers below will delete from
            bname0, base = w.writer()
            for k in (u"b0", u"b1", u"b2", u"b3"):
                w.api(bname0, "delete", k)
                w.api(bname0, "add", k)
                w.guarded(bname0, "update_document", lambda k=k: base.update_document(key=k, body=u"x"))
            w.guarded(bname0, "commit", lambda: base.commit(merge=False))
            # a plain writer holds the lock while an AsyncWriter is used; its commit renumbers the documents
            hname, holder = w.writer()
            w.api(hname, "delete", "h")
            w.api(hname, "add", "h")
            w.guarded(hname, "update_document", lambda: holder.update_document(key=u"h", body=u"x"))
            w.api(hname, "delete", "b0")
            w.guarded(hname, "delete_by_term", lambda: holder.delete_by_term("key", u"b0"))
            # ... and replaces b2, which the AsyncWriter (committing after it) deletes
            w.api(hname, "delete", "b2")
            w.api(hname, "add", "b2")
            w.guarded(hname, "update_document", lambda: holder.update_document(key=u"b2", body=u"x new"))
            # ... and b3, which the AsyncWriter deletes by query
            w.api(hname, "delete", "b3")
            w.api(hname, "add", "b3")
            w.guarded(hname, "update_document", lambda: holder.update_document(key=u"b3", body=u"x newer"))
            w.nw += 1
            aname = "w%d" % w.nw
            w.writers.append(aname)
            pending = [("delete", "b2"), ("delete", "b3"), ("delete", "a1"), ("add", "a1"), ("delete", "a2"), ("add", "a2")]
            # (a call that raises becomes an 'apierror' event, which no action of the specification allows)
            ok, aw = w.guarded(aname, "AsyncWriter", lambda: writing.AsyncWriter(_IndexProxy(w, aname, pending), delay=0.01))
            # when the lock holder commits: after the AsyncWriter's commit() (which then retries in its own
            # thread), just before it, or in the middle of the calls it is buffering
            variant = i % 3
            cfg = dict(cfg, holder_commits=["after", "before-commit", "mid-session"][variant])
            if ok:
                w.guarded(aname, "AsyncWriter.delete_by_term", lambda: aw.delete_by_term("key", u"b2"))
                from whoosh import query as _q
                w.guarded(aname, "AsyncWriter.delete_by_query", lambda: aw.delete_by_query(_q.Term("key", u"b3")))
                if variant == 2:
                    w.guarded(hname, "commit", lambda: holder.commit(optimize=True))
                w.guarded(aname, "AsyncWriter.update_document", lambda: aw.update_document(key=u"a1", body=u"x"))
                w.guarded(aname, "AsyncWriter.update_document", lambda: aw.update_document(key=u"a2", body=u"x"))
                if variant == 1:
                    w.guarded(hname, "commit", lambda: holder.commit(optimize=True))
                w.guarded(aname, "AsyncWriter.commit", aw.commit)
            if variant == 0 or not ok:
                time.sleep(rng.choice([0.0, 0.03]))
                w.guarded(hname, "commit", lambda: holder.commit(optimize=True))
            if ok and aw.is_alive():
                aw.join(60)
            # BufferedWriter holds the lock for its life time
            w.nw += 1
            bname = "w%d" % w.nw
            w.writers.append(bname)
            okb, bw = w.guarded(bname, "BufferedWriter", lambda: writing.BufferedWriter(w.ix, period=None, limit=100))
            w.nw += 1
            cname = "w%d" % w.nw
            w.writers.append(cname)
            w.actor(cname)
            try:
                w.ix.writer()
                w.log.emit("apierror", call="writer-while-buffered-writer-open", err="NoLockError")
            except LockError:
                pass
            if okb:
                w.guarded(bname, "BufferedWriter.close", bw.close)
            name = w.new_reader_name()
            ok, s = w.guarded(name, "searcher", w.ix.searcher)
            if ok:
                w.probe(name, s)
                s.close()
            t = w.trace()
            run.count(len(t))
            items.append({"trace": t, "writers": w.writers, "readers": w.readers, "cfg": dict(cfg, frontends=True),
                          "seed": 0})
        finally:
            w.close()
    return items


def failing_blocks(run, rng, n):
    """Every way a with-block can fail - an Exception, an interrupt, interpreter exit, a closed generator, a
    framework's own BaseException - cancels the writer and frees the lock: the next writer gets it at once and
    its commit is the next generation."""
    from whoosh.index import LockError
    items = []
    for i in range(n):
        cfg = {"storage": ["file", "ram"][i % 2], "compound": True, "scenario": "failing with-blocks"}
        seed = rng.randrange(1 << 30)
        w = ixdriver.IxWorld(storage=cfg["storage"])
        try:
            for j, exc in enumerate(dict.fromkeys(ixcommon.BLOCK_EXITS)):
                name, wr = w.writer()
                w.api(name, "delete", "f%d" % j)
                w.api(name, "add", "f%d" % j)
                w.actor(name)
                wr.update_document(key=u"f%d" % j, body=u"never committed")
                try:
                    with wr:
                        raise exc("boom inside with-block")
                except exc:
                    pass
                # (no waiting: the lock must be free now)
                w.nw += 1
                name = "w%d" % w.nw
                w.writers.append(name)
                w.actor(name)
                ok, wr2 = w.guarded(name, "writer", lambda: w.ix.writer(timeout=0.0))
                if ok:
                    w.api(name, "delete", "g%d" % j)
                    w.api(name, "add", "g%d" % j)
                    w.actor(name)
                    wr2.update_document(key=u"g%d" % j, body=u"committed")
                    wr2.commit()
            rn = w.new_reader_name()
            ok, s = w.guarded(rn, "searcher", w.ix.searcher)
            if ok:
                w.probe(rn, s)
            t = w.trace()
            run.count(len(t))
            items.append({"trace": t, "writers": w.writers, "readers": w.readers, "cfg": cfg, "seed": seed})
        finally:
            w.close()
    return items


_ASYNC_CHILD = r"""
import sys
from whoosh import index, writing
ix = index.open_dir(sys.argv[1])
def say(s):
    sys.stdout.write(s + "\n")
    sys.stdout.flush()
aw = writing.AsyncWriter(ix, delay=0.02)
say("acreate " + ("direct" if aw.writer is not None else "deferred"))
for k in sys.argv[2].split(","):
    aw.add_document(key=k, body=u"x")
    say("arecord " + k)
if sys.argv[3] == "early":
    sys.stdin.readline()          # the other writer commits before this commit() is called
aw.commit()
say("acommit")
say("mainend")
"""


def async_short_lived(run, rng, n):
    """AsyncFrontend.tla: a short-lived program commits through an AsyncWriter while another process holds the
    index lock, and ends; what its commit() promised must be in the index once the program is gone, one
    generation per commit.  Design model checked by TLC (safety, and under fairness that the deferred commit is
    applied); recorded runs of the real thing validated by AsyncFrontendTrace.tla."""
    import subprocess
    import sys
    import shutil
    import tempfile
    from whoosh import fields, index
    from harness import traces
    for cfg in ("AsyncFrontendMC.cfg",):
        res = tlc.run_tlc("AsyncFrontend", cfg, timeout=600, workers=4)
        run.add_tlc("AsyncFrontend/" + cfg, res)
        if res.violation:
            raise tlc.TLCError("AsyncFrontend.tla: %s\n%s" % (res.violation, tlc.tail(res.stdout, 30)))
    res = tlc.run_tlc("AsyncFrontend", "AsyncFrontendMC_daemon.cfg", timeout=600, workers=4, check=False)
    if res.violation != "invariant Durable":
        run.machinery("vacuity: AsyncFrontend.tla with a daemon thread does not violate Durable (%r)" % res.violation)
    recs, metas = [], []
    for i in range(n):
        variant = ["held", "early", "free", "held"][i % 4]
        keys = ["a1", "a2", "a3"][:rng.randrange(1, 4)]
        d = tempfile.mkdtemp(prefix="verif-c04-async-")
        tr = []
        try:
            ix = index.create_in(d, fields.Schema(key=fields.ID(stored=True, unique=True), body=fields.TEXT))
            holder = None
            if variant != "free":
                holder = ix.writer()
                holder.add_document(key=u"h", body=u"x")
                tr.append({"ev": "hacquire"})
            p = subprocess.Popen([sys.executable, "-c", _ASYNC_CHILD, d, ",".join(keys), variant],
                                 stdin=subprocess.PIPE, stdout=subprocess.PIPE, stderr=subprocess.PIPE)
            exited = False
            try:
                import queue
                lines = queue.Queue()

                def pump():
                    for raw in iter(p.stdout.readline, b""):
                        lines.put(raw.decode().strip())
                    lines.put("")
                threading.Thread(target=pump, daemon=True).start()
                while True:
                    try:
                        line = lines.get(timeout=60)
                    except queue.Empty:
                        p.kill()
                        run.violation({"check": "c04-asyncwriter-exit", "variant": variant, "event": "program-hung"},
                                      {"trace": tr})
                        break
                    if not line:
                        break
                    w = line.split()
                    ev = {"ev": w[0]}
                    if w[0] == "acreate":
                        ev["mode"] = w[1]
                    if w[0] == "arecord":
                        ev["k"] = w[1]
                    tr.append(ev)
                    if variant == "early" and w[0] == "arecord" and w[1] == keys[-1]:
                        holder.commit()
                        tr.append({"ev": "hcommit"})
                        holder = None
                        p.stdin.write(b"go\n")
                        p.stdin.flush()
                    if w[0] == "mainend":
                        break
                # the program's last statement has run; is the process still there while its commit is pending?
                time.sleep(0.3)
                if p.poll() is not None:
                    tr.append({"ev": "exit"})
                    exited = True
                if holder is not None:
                    holder.commit()
                    tr.append({"ev": "hcommit"})
                try:
                    p.wait(60)
                except subprocess.TimeoutExpired:
                    p.kill()
                    run.violation({"check": "c04-asyncwriter-exit", "variant": variant, "event": "never-exited"},
                                  {"trace": tr})
                    continue
                if not exited:
                    tr.append({"ev": "exit"})
                err = p.stderr.read().decode()[-400:]
                if p.returncode != 0:
                    run.violation({"check": "c04-asyncwriter-exit", "variant": variant, "event": "child-failed"},
                                  {"trace": tr, "stderr": err})
                    continue
            finally:
                for f in (p.stdin, p.stdout, p.stderr):
                    try:
                        f.close()
                    except Exception:
                        pass
            ix2 = index.open_dir(d)
            with ix2.searcher() as s_:
                ks = sorted(x["key"] for x in s_.all_stored_fields())
            tr.append({"ev": "probe", "keys": ks, "gen": ix2.latest_generation()})
            ix2.close()
            ix.close()
        finally:
            shutil.rmtree(d, ignore_errors=True)
        for e in tr:
            e.setdefault("mode", "")
            e.setdefault("k", "")
            e.setdefault("keys", [])
            e.setdefault("gen", 0)
        recs.append(tr)
        metas.append({"variant": variant, "keys": keys})
        run.count(len(tr))
    v = traces.validate(run, "AsyncFrontendTrace", "AsyncFrontendTrace.cfg", recs, hwm=True)
    for r in v.rejects:
        tr = recs[r["tid"]]
        ev = tr[r["l"] - 1] if r["l"] - 1 < len(tr) else {"ev": "?"}
        run.violation({"check": "c04-asyncwriter-exit", "variant": metas[r["tid"]]["variant"], "event": ev["ev"]},
                      {"trace": tr, "rejected_at": r["l"], "meta": metas[r["tid"]]})
    for i, tr in enumerate(recs):
        if any(e["ev"] == "acreate" and e["mode"] == "deferred" for e in tr):
            run.nontriv(("async-exit", json.dumps(tr, sort_keys=True)))
    run.extra["asyncwriter_short_lived"] = {"runs": len(recs), "accepted": v.accepted,
                                            "deferred": sum(1 for tr in recs for e in tr if e.get("mode") == "deferred")}
    if recs:
        run.sample({"asyncwriter_run": [[e["ev"], e["mode"] or e["k"] or e["keys"]] for e in recs[0]]})


def check(run):
    quick = run.tier == "quick"
    rng = random.Random(run.seed + 404)
    run.rule = ("IndexStore.tla model-checked incl. liveness (lock always becomes free); storage traces of 2-4 racing "
                "writer threads (file and RAM), 2-3 racing writer processes with the real flock, and the AsyncWriter/"
                "BufferedWriter front-ends, each ending in commit / cancel / exception in a with-block, validated by "
                "IndexStoreTrace.tla; non-trivial = accepted trace with >=2 commits")
    ixcommon.model_check(run, "IndexStoreMC_small.cfg" if quick else "IndexStoreMC.cfg", "IndexStoreMC")
    res = tlc.run_tlc("IndexStore", "IndexStoreLive.cfg", timeout=1800, check=False)
    run.add_tlc("IndexStoreLive", res)
    if res.violation or not res.ok:
        raise tlc.TLCError("IndexStore liveness: %s\n%s" % (res.violation, tlc.tail(res.stdout, 30)))
    items = racing_threads(run, rng, 8 if quick else 80)
    items += racing_processes(run, rng, 4 if quick else 40)
    items += frontends(run, rng, 3 if quick else 20)
    items += fork_while_locked(run, rng, 1 if quick else 4)
    items += failing_blocks(run, rng, 2 if quick else 6)
    rejects = ixcommon.validate(run, items)
    ixcommon.report(run, "c04", items, rejects)
    for it in items:
        for err in it.get("errors", []):
            run.violation({"check": "c04-exception", "err": err[:80]}, {"cfg": it["cfg"], "seed": it["seed"]})
    async_short_lived(run, rng, 4 if quick else 24)
    run.extra["lock_refusals_observed"] = sum(1 for it in items for e in it["trace"]
                                              if e["ev"] == "lock" and not e.get("res", True))


def replay(run, rp):
    raise NotImplementedError
