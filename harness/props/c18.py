"""C18 - storage back-ends and writer front-ends are interchangeable.
Spec: ContentCheck.tla.  The same document-level operations are executed under the product
{directory with/without mmap, RAM, copied to RAM} x {compound, loose} x {plain writer,
multi-process writer (procs, batch size, merged / multisegment), BufferedWriter, AsyncWriter};
every configuration's canonical dump is judged by TLC against the same abstract documents.
A BufferedWriter's own searcher must show committed + buffered documents."""
import json
import random

from harness import cworld, world, content

LEVEL = "model_checking"


def configs(rng, quick):
    out = []
    storages = [{"storage": "file", "mmap": True}, {"storage": "file", "mmap": False}, {"storage": "ram"},
                {"storage": "file", "copy_to_ram": True}]
    fronts = [{"frontend": "plain"}, {"frontend": "buffered", "limit": 2}, {"frontend": "buffered", "limit": 100},
              {"frontend": "buffered", "limit": 1, "explicit_commit": False},
              {"frontend": "async"}, {"frontend": "async", "contended": True},
              {"frontend": "mp", "procs": 2, "batchsize": 2, "multisegment": False},
              {"frontend": "mp", "procs": 3, "batchsize": 1, "multisegment": True},
              {"frontend": "mp", "procs": 1, "batchsize": 4, "multisegment": False}]
    for st in storages:
        for fe in fronts:
            if fe["frontend"] == "mp" and st.get("storage") == "ram":
                continue          # sub-processes cannot share a RamStorage
            cfg = dict(st)
            cfg.update(fe)
            cfg["compound"] = rng.random() < 0.6
            out.append(cfg)
    if quick:
        # every front-end at least once, storages sampled
        byfe = {}
        for c in out:
            byfe.setdefault((c["frontend"], c.get("limit"), c.get("procs"), c.get("contended")), []).append(c)
        out = [rng.choice(v) for v in byfe.values()] + rng.sample(out, 3)
    return out


def buffered_view(rng, adocs, keys):
    """BufferedWriter.searcher() = committed + buffered documents (spec: the same ContentCheck
    over the union), and close() leaves nothing unsaved."""
    from whoosh import writing
    cases = []
    # (documents without column values: what happens to those in a BufferedWriter is a recorded finding that
    # would otherwise end two out of three of these runs before anything else is looked at)
    adocs = dict((k, dict(d, s={}, c={}, ovr=[])) for k, d in adocs.items())
    w = cworld.CWorld({"storage": "ram"})
    try:
        half = len(keys) // 2
        w.run(adocs, [("commit", keys[:half], {"merge": False})])
        bw = writing.BufferedWriter(w.ix, period=None, limit=1000)
        for k in keys[half:]:
            bw.add_document(**cworld.concrete_kwargs(adocs[k]))
        added = list(keys)
        if len(keys) - half >= 2 and rng.random() < 0.6:
            # the document buffered last (or the last two) is deleted again while it is still in the buffer
            for k in keys[-rng.choice([1, 2]):]:
                bw.delete_by_term("key", k)
                keys = [x for x in keys if x != k]
        s = bw.searcher()
        try:
            rd = s.reader()
            idx = cworld.abstract_index(rd, adocs, order=added)
            # (the statistics of every term have been read once before they are recorded: reading is idempotent)
            for f in cworld.TEXT_FIELDS:
                for t in list(rd.lexicon(f)):
                    rd.term_info(f, t)
            obs = cworld.dump(rd, idx, w.schema, rng=rng, maxterms=10, columns=False, terminfo=True)
            obs.append({"kind": "flag", "path": "BufferedWriter.searcher() shows committed + buffered documents",
                        "value": sorted(d["key"] for d in idx["docs"] if d["live"]) == sorted(keys)})
        finally:
            s.close()
        cases.append({"idx": idx, "obs": obs, "cfg": {"view": "BufferedWriter.searcher()"}, "plan": None, "adocs": adocs})
        # commit() is a commit for everybody else too - also one that only carries deletions of documents
        # that are already on disk (nothing is in the buffer then)
        gone = []
        if rng.random() < 0.7:
            bw.commit()
            g0 = w.ix.latest_generation()
            gone = [keys[0]] + ([keys[-1]] if rng.random() < 0.5 else [])
            for k in gone:
                bw.delete_by_term("key", k)
            bw.commit()
            with w.ix.reader() as rd:
                seen = sorted(d["key"] for _, d in rd.iter_docs())
                cases.append({"idx": {"docs": []}, "obs": [
                    {"kind": "flag", "path": "a BufferedWriter.commit() that only carries deletions is visible to a new reader",
                     "value": seen == sorted(k for k in keys if k not in gone)},
                    {"kind": "flag", "path": "... and wrote exactly one new generation",
                     "value": w.ix.latest_generation() == g0 + 1}],
                    "cfg": {"view": "delete-only BufferedWriter.commit()"}, "plan": None, "adocs": adocs})
        keys = [k for k in keys if k not in gone]
        bw.close()
        with w.ix.reader() as rd:
            idx = cworld.abstract_index(rd, adocs)
            obs = cworld.dump(rd, idx, w.schema, rng=rng, maxterms=10)
            obs.append({"kind": "flag", "path": "after BufferedWriter.close() nothing is unsaved",
                        "value": sorted(d["key"] for d in idx["docs"] if d["live"]) == sorted(keys)})
        cases.append({"idx": idx, "obs": obs, "cfg": {"view": "after BufferedWriter.close()"}, "plan": None, "adocs": adocs})
    finally:
        w.close()
    return cases


def neighbours(run, rng, n):
    """Several indexes (index names, also one that begins like another) in one storage: each keeps exactly its own
    documents through the others' merges, optimisations and file clean-ups; searchers held on earlier generations
    keep theirs."""
    import shutil
    import tempfile
    from whoosh import fields
    from whoosh.filedb.filestore import FileStorage, RamStorage
    cases = []
    for i in range(n):
        names = rng.choice([["MAIN", "second"], ["MAIN", "MAIN_x"], ["a", "a_1", "a_1_b"], ["x", "x_toc"]])
        cfg = {"scenario": "several indexes in one storage", "names": names, "storage": ["file", "ram"][i % 2],
               "compound": i % 3 != 2}
        d = tempfile.mkdtemp(prefix="verif-nb-") if cfg["storage"] == "file" else None
        obs = []
        try:
            st = FileStorage(d) if d else RamStorage()
            schema = fields.Schema(key=fields.ID(stored=True, unique=True), body=fields.TEXT, n=fields.NUMERIC(sortable=True))
            # (created in any order: also the index whose name another one begins with after that other one)
            made = {}
            for nm in rng.sample(names, len(names)):
                made[nm] = st.create_index(schema, indexname=nm)
            ixs = [made[nm] for nm in names]
            model = [set() for _ in names]
            held = []
            for rnd in range(rng.randrange(3, 6)):
                for j, ix in enumerate(ixs):
                    w = ix.writer(**({} if cfg["compound"] else {"compound": False}))
                    before = sorted(model[j])
                    touched = set()
                    for num in rng.sample(range(6), rng.randrange(1, 3)):      # (each key once per session)
                        k = u"%s-%d" % (names[j], num)
                        w.update_document(key=k, body=u"xx " + k, n=rnd)
                        model[j].add(k)
                        touched.add(k)
                    # (a deletion reaches committed documents only: one that this session did not touch)
                    cands = [k for k in before if k not in touched]
                    if cands and rng.random() < 0.3:
                        k = rng.choice(cands)
                        w.delete_by_term("key", k)
                        model[j].discard(k)
                    m = rng.random()
                    w.commit(optimize=m < 0.3, merge=m < 0.7)
                    # (held searchers over loose segment files open them lazily: a recorded finding of C03)
                    if cfg["compound"] and rng.random() < 0.3:
                        held.append((j, set(model[j]), ix.searcher()))
            for j, nm in enumerate(names):
                with st.open_index(indexname=nm).searcher() as s:
                    got = sorted(dd["key"] for dd in s.documents())
                    obs.append({"kind": "flag", "path": "index %r of %r holds exactly its own documents" % (nm, names),
                                "value": got == sorted(model[j])})
            if d:
                # a copy of the storage taken while a writer is at work (its temporary directory is in there)
                from whoosh.filedb.filestore import copy_to_ram
                w = ixs[0].writer(limitmb=0.0001)
                for x in range(30):
                    w.add_document(key=u"uncommitted-%d" % x, body=u"yy " * 20, n=x)
                try:
                    ram = copy_to_ram(st)
                    same = True
                    for j, nm in enumerate(names):
                        with ram.open_index(indexname=nm).searcher() as s:
                            same = same and sorted(dd["key"] for dd in s.documents()) == sorted(model[j])
                    obs.append({"kind": "flag", "path": "copy_to_ram() during a writer's session holds the committed documents",
                                "value": same})
                finally:
                    w.cancel()
            ok = True
            for j, want, s in held:
                try:
                    ok = ok and sorted(dd["key"] for dd in s.documents()) == sorted(want) \
                        and sorted(h["key"] for h in s.search(__import__("whoosh").query.Every(), limit=None, sortedby="n")
                                   ) == sorted(want)
                finally:
                    s.close()
            obs.append({"kind": "flag", "path": "searchers held on earlier generations of %r keep their documents" % (names,),
                        "value": ok})
        except Exception as ex:
            obs.append({"kind": "error", "path": "several indexes in one storage", "err": type(ex).__name__,
                        "msg": str(ex)[:160], "where": content.where(ex)})
        finally:
            if d:
                shutil.rmtree(d, ignore_errors=True)
        run.count(len(obs))
        cases.append({"idx": {"docs": []}, "obs": obs, "cfg": cfg, "plan": None, "adocs": None})
    return cases


def check(run):
    quick = run.tier == "quick"
    rng = random.Random(run.seed + 1818)
    run.rule = ("one random corpus + operation history per round, executed under storage x packing x writer front-end "
                "configurations (quick: 9 sampled, thorough: all 25 per round); every configuration's canonical dump "
                "judged by ContentCheck.tla against the same abstract documents; BufferedWriter.searcher() view and "
                "close(); non-trivial = accepted configuration with >= 3 documents")
    cases = []
    for rnd in range(1 if quick else 6):
        n = rng.randrange(6, 10)
        keys = ["k%d" % i for i in range(n)]
        adocs = dict((k, cworld.rand_adoc(rng, k)) for k in keys)
        # two plain commits, a delete, an optimising commit over the existing segments, and a final
        # delete-only step (so that front-ends end with deletions pending and nothing buffered)
        third = max(1, n // 3)
        plan = [("commit", keys[:third], {"merge": False}), ("commit", keys[third:2 * third], {"merge": False}),
                ("delete", [keys[0]]), ("commit", keys[2 * third:], {"optimize": True}),
                ("delete", [keys[third], keys[-1]])]
        if rnd > 0 and rng.random() < 0.5:
            plan = world.rand_plan(rng, keys, max_segments=3) + [("delete", [keys[-1]])]
        for cfg in configs(rng, quick):
            cfg = dict(cfg, groups=True)       # the first documents of every commit form nested groups
            w = cworld.CWorld(cfg, variant=rnd)
            try:
                try:
                    w.run(adocs, plan)
                except Exception as ex:
                    cases.append({"idx": {"docs": []}, "obs": [{"kind": "error", "path": "building the index",
                                                                "err": type(ex).__name__, "msg": str(ex)[:160],
                                                                "where": content.where(ex)}],
                                  "cfg": cfg, "plan": plan, "adocs": adocs})
                    continue
                rd = w.reader()
                try:
                    idx = cworld.abstract_index(rd, adocs)
                    obs = cworld.dump(rd, idx, w.schema, rng=rng, maxterms=10 if quick else 25, plan=plan,
                                      groups=w.groups)
                    run.count(len(obs))
                finally:
                    rd.close()
                cases.append({"idx": idx, "obs": obs, "cfg": cfg, "plan": plan, "adocs": adocs, "variant": rnd})
            finally:
                w.close()
        try:
            cases += buffered_view(rng, adocs, keys)
        except Exception as ex:
            cases.append({"idx": {"docs": []}, "obs": [{"kind": "error", "path": "building the index",
                                                        "err": type(ex).__name__, "msg": str(ex)[:160],
                                                                "where": content.where(ex)}],
                          "cfg": {"view": "BufferedWriter round trip"}, "plan": None, "adocs": adocs})
    # hierarchical documents: many groups (with nested groups) in one large commit through each front-end
    for gi in range(2 if quick else 10):
        keys = ["g%d" % i for i in range(rng.randrange(14, 26))]
        adocs = dict((k, cworld.rand_adoc(rng, k)) for k in keys)
        plan = [("commit", keys, {"merge": False}), ("delete", [keys[3]])]
        for fe in ({"frontend": "plain"}, {"frontend": "mp", "procs": 2, "batchsize": 2, "multisegment": False},
                   {"frontend": "mp", "procs": 3, "batchsize": 4, "multisegment": False},
                   {"frontend": "mp", "procs": 2, "batchsize": 3, "multisegment": True}):
            cfg = dict(fe, storage="file", compound=True, groups="many")
            w = cworld.CWorld(cfg, variant=gi)
            try:
                try:
                    w.run(adocs, plan)
                    with w.reader() as rd:
                        idx = cworld.abstract_index(rd, adocs)
                        obs = cworld.dump(rd, idx, w.schema, rng=rng, maxterms=5, plan=plan, groups=w.groups)
                        run.count(len(obs))
                    cases.append({"idx": idx, "obs": obs, "cfg": cfg, "plan": plan, "adocs": adocs, "variant": gi})
                except Exception as ex:
                    cases.append({"idx": {"docs": []}, "obs": [{"kind": "error", "path": "building the index",
                                                                "err": type(ex).__name__, "msg": str(ex)[:160],
                                                                "where": content.where(ex)}],
                                  "cfg": cfg, "plan": plan, "adocs": adocs})
            finally:
                w.close()
    # a segment without any postings (stored values only) between ordinary ones, loose and compound
    for si in range(1 if quick else 4):
        keys = ["s%d" % i for i in range(9)]
        adocs = dict((k, cworld.rand_adoc(rng, k)) for k in keys)
        for k in keys[3:6]:
            adocs[k]["t"], adocs[k]["c"] = {}, {}
            adocs[k]["s"] = dict((f, v) for f, v in adocs[k]["s"].items() if f == "blob") or {"blob": 2}
        plan = [("commit", keys[:3], {"merge": False}), ("commit", keys[3:6], {"merge": False, "storedonly": True}),
                ("commit", keys[6:], {"merge": False})]
        for cfg in ({"storage": "file", "mmap": True, "compound": False}, {"storage": "file", "mmap": False, "compound": True},
                    {"storage": "file", "copy_to_ram": True, "compound": False},
                    {"storage": "file", "copy_to_ram": True, "compound": True}, {"storage": "ram", "compound": False},
                    {"storage": "file", "compound": True, "frontend": "mp", "procs": 2, "batchsize": 2},
                    {"storage": "file", "compound": True, "frontend": "mp", "procs": 3, "batchsize": 1, "multisegment": True},
                    {"storage": "file", "compound": True, "frontend": "async"}):
            w = cworld.CWorld(cfg, variant=si)
            try:
                try:
                    w.run(adocs, plan)
                    rd = w.reader()
                    try:
                        idx = cworld.abstract_index(rd, adocs)
                        obs = cworld.dump(rd, idx, w.schema, rng=rng, maxterms=5, plan=plan)
                        run.count(len(obs))
                    finally:
                        rd.close()
                    cases.append({"idx": idx, "obs": obs, "cfg": dict(cfg, scenario="segment without postings"),
                                  "plan": plan, "adocs": adocs, "variant": si})
                except Exception as ex:
                    cases.append({"idx": {"docs": []}, "obs": [{"kind": "error", "path": "building / opening the index",
                                                                "err": type(ex).__name__, "msg": str(ex)[:160],
                                                                "where": content.where(ex)}],
                                  "cfg": dict(cfg, scenario="segment without postings"), "plan": plan, "adocs": adocs})
            finally:
                w.close()
    # an AsyncWriter that had to wait for the lock commits with the arguments it was given: a CLEAR commit drops
    # every earlier segment, as it does with a plain writer
    from whoosh import writing
    for si in range(1 if quick else 3):
        keys = ["c%d" % i for i in range(7)]
        adocs = dict((k, cworld.rand_adoc(rng, k)) for k in keys)
        plan = [("commit", keys[:4], {"merge": False}), ("delete", keys[:4]), ("commit", keys[4:], {"merge": False})]
        for contended in (True, False):
            cfg = {"storage": "file", "compound": True, "frontend": "async", "contended": contended,
                   "scenario": "commit(mergetype=CLEAR)"}
            w = cworld.CWorld(dict(cfg, frontend="plain"), variant=si)
            try:
                try:
                    w.run(adocs, plan[:1])
                    holder = w.ix.writer() if contended else None
                    aw = writing.AsyncWriter(w.ix, delay=0.01)
                    for k in keys[4:]:
                        aw.add_document(**cworld.concrete_kwargs(adocs[k]))
                    if holder is not None:
                        aw.commit(mergetype=writing.CLEAR)          # deferred: the lock is held
                        holder.cancel()
                    else:
                        aw.commit(mergetype=writing.CLEAR)
                    if aw.is_alive():
                        aw.join(60)
                    with w.reader() as rd:
                        idx = cworld.abstract_index(rd, adocs)
                        obs = cworld.dump(rd, idx, w.schema, rng=rng, maxterms=5, plan=plan)
                        run.count(len(obs))
                    cases.append({"idx": idx, "obs": obs, "cfg": cfg, "plan": plan, "adocs": adocs, "variant": si})
                except Exception as ex:
                    cases.append({"idx": {"docs": []}, "obs": [{"kind": "error", "path": "CLEAR commit through AsyncWriter",
                                                                "err": type(ex).__name__, "msg": str(ex)[:160],
                                                                "where": content.where(ex)}],
                                  "cfg": cfg, "plan": plan, "adocs": adocs})
            finally:
                w.close()
    # BufferedWriter: a document that arrives while a commit is under way (after the buffer was handed over,
    # before the commit returns - what a second thread or the commit timer can do) is in the index after close()
    for si in range(1 if quick else 3):
        keys = ["u%d" % i for i in range(5)]
        adocs = dict((k, cworld.rand_adoc(rng, k)) for k in keys)
        for d in adocs.values():
            d["c"], d["ovr"] = {}, []          # (column values of buffered documents: recorded finding, not the subject here)
            d["s"] = dict((f, v) for f, v in d["s"].items() if f == "blob")
        plan = [("commit", keys, {"merge": False})]
        cfg = {"storage": "file", "compound": True, "frontend": "buffered", "scenario": "add_document during commit"}
        w = cworld.CWorld(dict(cfg, frontend="plain"), variant=si)
        try:
            try:
                bw = writing.BufferedWriter(w.ix, period=None, limit=100)
                for k in keys[:3]:
                    bw.add_document(**cworld.concrete_kwargs(adocs[k]))
                inner = bw.writer
                orig_commit = inner.commit
                late = list(keys[3:])

                def commit_with_late_arrival(*a, **kw):
                    while late:
                        bw.add_document(**cworld.concrete_kwargs(adocs[late.pop(0)]))
                    return orig_commit(*a, **kw)
                inner.commit = commit_with_late_arrival
                bw.commit()
                bw.close()
                with w.reader() as rd:
                    idx = cworld.abstract_index(rd, adocs)
                    obs = cworld.dump(rd, idx, w.schema, rng=rng, maxterms=5, plan=plan)
                    run.count(len(obs))
                cases.append({"idx": idx, "obs": obs, "cfg": cfg, "plan": plan, "adocs": adocs, "variant": si})
            except Exception as ex:
                cases.append({"idx": {"docs": []}, "obs": [{"kind": "error", "path": "BufferedWriter with a late arrival",
                                                            "err": type(ex).__name__, "msg": str(ex)[:160],
                                                            "where": content.where(ex)}],
                              "cfg": cfg, "plan": plan, "adocs": adocs})
        finally:
            w.close()
    # the multi-process writer merging the older segments into its own (optimize) next to the sub-writers' ones,
    # nothing deleted: every term's statistics (incl. the shortest and longest field among its documents) are asserted
    for mi in range(2 if quick else 10):
        keys = ["m%d" % i for i in range(rng.randrange(7, 12))]
        adocs = dict((k, cworld.rand_adoc(rng, k)) for k in keys)
        cut = rng.randrange(2, len(keys) - 3)
        plan = [("commit", keys[:cut], {"merge": False}), ("commit", keys[cut:], {"optimize": True})]
        cfg = {"storage": "file", "compound": mi % 2 == 0, "frontend": "mp", "procs": rng.choice([2, 3]),
               "batchsize": rng.choice([1, 2]), "multisegment": False, "scenario": "mp writer optimising"}
        w = cworld.CWorld(cfg, variant=mi)
        try:
            try:
                w.run(adocs, plan)
                with w.reader() as rd:
                    idx = cworld.abstract_index(rd, adocs)
                    obs = cworld.dump(rd, idx, w.schema, rng=rng, maxterms=10 if quick else 25, plan=plan)
                    run.count(len(obs))
                cases.append({"idx": idx, "obs": obs, "cfg": cfg, "plan": plan, "adocs": adocs, "variant": mi})
            except Exception as ex:
                cases.append({"idx": {"docs": []}, "obs": [{"kind": "error", "path": "building the index",
                                                            "err": type(ex).__name__, "msg": str(ex)[:160],
                                                            "where": content.where(ex)}],
                              "cfg": cfg, "plan": plan, "adocs": adocs})
        finally:
            w.close()
    cases += neighbours(run, rng, 4 if quick else 24)
    rejects = content.judge(run, cases)
    content.report(run, "c18", cases, rejects)
    run.extra["configurations"] = len(cases)
    frontend_design(run, quick)


def frontend_design(run, quick):
    """WriterFrontends.tla: the BufferedWriter under two threads as a design model (TLC: every interleaving of
    add / update / commit / search / close at the granularity of the object's lock and of the wrapped writer's
    commit), and spec -> code: behaviours exported by WriterFrontendsGen.tla are imposed on a real BufferedWriter
    (threads held at the lock and at two storage operations of the commit) and the real object is compared with
    the specified state after every step (harness/frontends.py)."""
    from harness import tlc, frontends
    res = tlc.run_tlc("WriterFrontends", "WriterFrontendsMC.cfg", timeout=1200)
    run.add_tlc("WriterFrontendsMC", res)
    if res.violation:
        raise tlc.TLCError("WriterFrontends.tla (the code as it is): %s\n%s" % (res.violation, tlc.tail(res.stdout, 30)))
    # the configuration that releases the lock after the snapshot (the code as it was) must show each race:
    # the model is able to express them (non-vacuity of the four invariants)
    found = {}
    for inv in ("NoRaceError", "NothingLost", "SearchBounds", "QuiescentView"):
        r = tlc.run_tlc("WriterFrontends", "WriterFrontendsMC_unlocked_%s.cfg" % inv, timeout=600, check=False)
        found[inv] = r.violation
        if r.violation != "invariant " + inv:
            run.machinery("vacuity: WriterFrontends.tla without the lock held across commit does not violate %s (%r)"
                          % (inv, r.violation))
    run.extra["races_found_by_TLC_in_the_unlocked_configuration"] = found
    gen = tlc.run_tlc("WriterFrontendsGen", "WriterFrontendsGen.cfg", simulate=15 if quick else 400, depth=80,
                      seed=run.seed + 18, workers=8)
    run.add_tlc("WriterFrontendsGen", gen)
    behs = gen.tagged.get("BEH", [])
    if len(behs) < 20:
        run.machinery("WriterFrontendsGen exported only %d behaviours" % len(behs))
    results = frontends.replay_all(behs)
    blocked = parked = 0
    for beh, r in zip(behs, results):
        run.count(len(beh))
        run.traces += 1
        if r and "machinery" in r:
            run.machinery("BufferedWriter replay: " + r["machinery"])
            continue
        waits = sum(1 for e in beh if e["a"] == "Call" and e["st"]["mutex"] not in ("none", e["t"]))
        blocked += waits
        parked += sum(1 for e in beh if e["a"] == "Com2")
        if r:
            run.violation({"check": "c18-bufferedwriter-replay", "action": r["action"], "call": r["call"],
                           "fields": r["fields"]},
                          {"behaviour": beh, "step": r["step"], "problem": r["problem"]})
        elif waits:
            run.nontriv(("bw-replay", json.dumps(beh, sort_keys=True)))
    run.extra["bufferedwriter_replay"] = {"behaviours": len(behs), "steps": sum(len(b) for b in behs),
                                          "calls_made_while_the_other_thread_commits": blocked,
                                          "commits_held_at_the_TOC_write": parked}
    if behs:
        run.sample({"bufferedwriter_behaviour": [[e["t"], e["a"], e["op"], e["k"], e["id"]] for e in behs[0]]})
    if not blocked:
        run.machinery("vacuity: no replayed behaviour has a call made while the other thread commits")


def replay(run, rp):
    raise NotImplementedError
