"""C11 - every matcher is a faithful forward cursor over its result list.
C12 shares the machinery (quality events).  Spec: MatcherTrace.tla; the reference list of
top-level matchers is additionally judged against QuerySem!Denote (QueryCheck 'list')."""
import random

from harness import world, qobs, mtrace, traces as tr

LEVEL = "model_checking"
NOFUZZY = ["term", "every", "null", "prefix", "wildcard", "regex", "termrange", "numrange", "phrase", "and", "or",
           "dismax", "andnot", "andmaybe", "require", "not", "const"]


def weightings(mode):
    from whoosh import scoring
    if mode == "exact":
        return [("Frequency", scoring.Frequency())]
    return [("BM25F", scoring.BM25F()), ("BM25F(B=0.2,K1=2)", scoring.BM25F(B=0.2, K1=2.0)),
            ("BM25F(title_B=1)", scoring.BM25F(B=0.5, title_B=1.0)), ("TF_IDF", scoring.TF_IDF()),
            ("PL2", scoring.PL2()), ("PL2(c=3)", scoring.PL2(c=3.0)), ("Frequency", scoring.Frequency()),
            ("Multi", scoring.MultiWeighting(scoring.BM25F(), title=scoring.TF_IDF())),
            ("Function", scoring.FunctionWeighting(lambda s, f, t, m: m.weight() * 0.5 + 1.0)),
            ("DFree", scoring.DFree()), ("Reverse(BM25F)", scoring.ReverseWeighting(scoring.BM25F()))]


NOTIMPL = {}


def report_notimpl(run, meta):
    for (what, cls), where in sorted(NOTIMPL.items()):
        mt = meta[where[0]]
        run.violation({"check": "notimpl", "call": what, "cls": cls},
                      {"q": mt["q"], "plan": mt["plan"], "idx": mt["idx"], "count": len(where)})
    NOTIMPL.clear()


def collect(run, rng, nworlds, nqueries, mode, thresholds_fn, quality, nsteps=(4, 14), ndocs=(4, 12), depth=2,
            scored_only=True, ops=NOFUZZY, spans=False, docgen=None, qgen=None, plangen=None, qbias=0.0,
            blocklimits=(None, 1, 2, 3), nested=False, sweep=False, weighting=None):
    """Returns (traces, meta, listcases)."""
    trs, meta, cases = [], [], []
    for wi in range(nworlds):
        n = rng.randrange(ndocs[0], ndocs[1] + 1)
        adocs = {"k%d" % i: world.rand_doc(rng, boosts=(wi % 3 == 2)) for i in range(n)}
        if docgen:
            adocs = docgen(rng, n)
        if mode == "rank" and wi % 2 == 1:
            # document boosts that are not dyadic: the stored (32-bit) weight is not the weight that was given
            for d in adocs.values():
                d["b4"] = rng.choice([4, 4, 0.4, 1.2, 2.8, 13.2])
        plan = plangen(rng, adocs) if plangen else world.rand_plan(rng, adocs.keys())
        il = rng.choice([None, None, 3, 5])
        w = world.World(adocs, plan, storage="ram", blocklimit=rng.choice(list(blocklimits)), inlinelimit=il)
        try:
            wname, wobj = weighting or rng.choice(weightings(mode))
            with w.ix.searcher(weighting=wobj) as s:
                idx = w.abstract_index(s.reader())
                qs = []
                for qi in range(nqueries):
                    aq = world.rand_query(rng, rng.randrange(0, depth + 1), scored_only=scored_only, ops=ops)
                    if qgen:
                        aq = qgen(rng)
                    elif nested and qi % 7 == 6:
                        aq = world.rand_nested_query(rng)       # parent / child matchers
                        if rng.random() < 0.5:
                            other = world.rand_query(rng, 0, scored_only=True)
                            op = rng.choice(["and", "or", "andnot"])
                            aq = {"op": "andnot", "a": aq, "b": other} if op == "andnot" else \
                                {"op": op, "kids": [aq, other] if rng.random() < 0.5 else [other, aq], "b4": 4}
                    if spans and qi % 5 == 4:
                        aq = world.rand_span_query(rng, rng.randrange(1, 3))
                    if mode != "rank" and "scale" in aq:
                        # (coordinated scores are not dyadic: they are only compared in the rank regime)
                        aq = dict((k, v) for k, v in aq.items() if k != "scale")
                    if mode == "rank" and aq["op"] == "or" and len(aq["kids"]) >= 2 and qi % 3 == 0:
                        aq["scale"] = rng.choice([0.5, 0.9, 0.99])       # coordination bonus (CoordMatcher)
                    q = world.to_query(aq)
                    targets = [("top", s, -1)]
                    if not s.is_atomic():
                        targets += [("leaf", sub, li) for li, (sub, off) in enumerate(s.leaf_searchers())]
                    if "nested" in qobs.ops_of(aq) or any(o.startswith("nested") for o in qobs.ops_of(aq)):
                        # (a parent and its children live in one segment: a matcher over the whole multi-segment
                        # index, where "the parent before a document" can lie in another segment, is given no meaning)
                        targets = [t for t in targets if t[0] == "leaf"] or targets
                    kind, srch, leafno = rng.choice(targets)
                    nc = rng.random() < 0.5
                    if sweep == "skip":
                        # every (position, target) pair: fresh matcher, j steps, skip_to(t), one more step
                        probe = mtrace.Recorder(mode)
                        okp, mp = probe.call("matcher()", lambda: q.matcher(srch, srch.context(needs_current=nc)))
                        ids = []
                        if okp:
                            okp, ids = probe.call("all_ids", lambda: [int(x) for x in mp.all_ids()])
                        pairs = [(j, t) for j in range(min(len(ids or []), 6))
                                 for t in range(ids[j] + 1, srch.reader().doc_count_all() + 2)]
                        if len(pairs) > 40:
                            pairs = rng.sample(pairs, 40)
                        for j, t in pairs:
                            rec = mtrace.Recorder(mode)
                            ok, m = rec.call("matcher()", lambda: q.matcher(srch, srch.context(needs_current=nc)))
                            if ok:
                                mtrace.run_skip(rec, m, j, t)
                            ev = rec.finish()
                            trs.append(ev)
                            run.count(len(ev))
                            meta.append({"q": aq, "target": kind, "leaf": leafno, "needs_current": nc, "weighting": wname,
                                         "plan": plan, "idx": idx, "matcher": type(m).__name__ if ok else None,
                                         "tree": repr(m)[:4000] if ok else "", "mode": mode, "program": rec.program,
                                         "adocs": adocs, "blocklimit": w.blocklimit, "inlinelimit": il, "quality": quality})
                        continue
                    if sweep:
                        # one short trace per threshold: fresh matcher, a few steps, skip_to_quality(threshold)
                        probe = mtrace.Recorder(mode)
                        okp, mp = probe.call("matcher()", lambda: q.matcher(srch, srch.context(needs_current=nc)))
                        ths = sorted(set(thresholds_fn(probe, mp))) if okp else []
                        for th in ths:
                            rec = mtrace.Recorder(mode)
                            ok, m = rec.call("matcher()", lambda: q.matcher(srch, srch.context(needs_current=nc)))
                            if ok:
                                mtrace.run_sweep(rec, m, rng.randrange(0, 4), th, blockscan=quality)
                            ev = rec.finish()
                            trs.append(ev)
                            run.count(len(ev))
                            meta.append({"q": aq, "target": kind, "leaf": leafno, "needs_current": nc, "weighting": wname,
                                         "plan": plan, "idx": idx, "matcher": type(m).__name__ if ok else None,
                                         "tree": repr(m)[:4000] if ok else "", "mode": mode, "program": rec.program,
                                         "adocs": adocs, "blocklimit": w.blocklimit, "inlinelimit": il, "quality": quality})
                        continue
                    rec = mtrace.Recorder(mode)
                    ok, m = rec.call("matcher()", lambda: q.matcher(srch, srch.context(needs_current=nc)))
                    if ok:
                        rdr = srch.reader()
                        hot = [d for d in range(rdr.doc_count_all()) if rdr.is_deleted(d)]
                        mtrace.run_program(rec, m, rng, rng.randrange(*nsteps), thresholds=thresholds_fn(rec, m),
                                           blockscan=quality, maxid=len(idx["docs"]), hot=hot, qbias=qbias)
                    ev = rec.finish()
                    for what, cls in set(rec.notimpl):
                        NOTIMPL.setdefault((what, cls), []).append(len(trs))
                    if not quality:
                        ev = [e for e in ev if e["ev"] not in ("quality", "blockscan")]
                    trs.append(ev)
                    run.count(len(ev))
                    meta.append({"q": aq, "target": kind, "leaf": leafno, "needs_current": nc, "weighting": wname,
                                 "plan": plan, "idx": idx, "matcher": type(m).__name__ if ok else None, "tree": repr(m)[:4000] if ok else "",
                                 "mode": mode, "program": rec.program, "adocs": adocs, "blocklimit": w.blocklimit,
                                 "inlinelimit": il,
                                 "quality": quality})
                    if kind == "top" and mode == "exact" and ev and ev[0]["ev"] == "new":
                        qs.append({"q": aq, "obs": [{"kind": "list", "list": ev[0]["ref"], "cmp": "full",
                                                     "path": "matcher-stepping"}], "t": len(trs) - 1})
                if qs:
                    cases.append({"idx": idx, "qs": qs})
        finally:
            w.close()
    return trs, meta, cases


def reexecute(mt, patch=None):
    """Re-runs the recorded program of one trace on a freshly built index/matcher.
    Returns the new event list (what --replay and finding classification use)."""
    import contextlib
    adocs = mt["adocs"]
    w = world.World(adocs, [tuple(s) for s in mt["plan"]], storage="ram", blocklimit=mt.get("blocklimit"),
                    inlinelimit=mt.get("inlinelimit"))
    try:
        wobj = dict(weightings(mt["mode"]))[mt["weighting"]]
        with w.ix.searcher(weighting=wobj) as s:
            srch = s if mt["leaf"] < 0 else s.leaf_searchers()[mt["leaf"]][0]
            q = world.to_query(mt["q"])
            rec = mtrace.Recorder(mt["mode"])
            with (patch() if patch else contextlib.nullcontext()):
                ok, m = rec.call("matcher()", lambda: q.matcher(srch, srch.context(needs_current=mt["needs_current"])))
                if ok:
                    mtrace.reexecute(rec, m, [list(x) for x in mt["program"]], blockscan=mt.get("quality", False))
            ev = rec.finish()
            if not mt.get("quality", False):
                ev = [e for e in ev if e["ev"] not in ("quality", "blockscan")]
            return ev
    finally:
        w.close()


def classify(run, trs, meta, rejects):
    """class 'wrapping-replace-unscaled': a replace() dropped a better entry, and the very same
    program is accepted once WrappingMatcher.replace() divides the threshold by its boost."""
    cand = [r for r in rejects if r["why"] == "replace-lost-or-changed-better-entry"]
    classes = {}
    if cand:
        alt = [reexecute(meta[r["tid"]], patch=qobs.scaled_wrapping_replace) for r in cand]
        v2 = tr.validate(run, "MatcherTrace", "MatcherTrace.cfg", alt, name="MatcherTrace-reexec", chunk=300)
        bad = set(x["tid"] for x in v2.rejects)
        for n, r in enumerate(cand):
            if n not in bad:
                classes[r["tid"]] = "wrapping-replace-unscaled"
    bound_clauses = ("block_quality-below", "max_quality-below", "skipq-lost", "replace-lost")
    for r in rejects:
        wn = meta[r["tid"]]["weighting"]
        if r["tid"] not in classes and r["why"].startswith(bound_clauses):
            if wn.startswith("PL2"):
                classes[r["tid"]] = "pl2-bounds-not-monotone"
            elif wn.startswith("DFree"):
                classes[r["tid"]] = "dfree-bounds-not-monotone"
            elif wn.startswith("Reverse"):
                classes[r["tid"]] = "reverse-weighting-bounds"
    for r in rejects:
        mt = meta[r["tid"]]
        if r["tid"] not in classes and mt["weighting"].startswith("Reverse") \
                and r["why"] in ("all_ids", "is_active", "id", "score"):
            classes[r["tid"]] = "reverse-weighting-negative-scores"
    return classes


def judge_traces(run, pid, trs, meta, check):
    v = tr.validate(run, "MatcherTrace", "MatcherTrace.cfg", trs, name="MatcherTrace", chunk=300)
    rejected = set()
    classes = classify(run, trs, meta, v.rejects)
    for r in v.rejects:
        t = trs[r["tid"]]
        e = t[r["l"] - 1]
        mt = meta[r["tid"]]
        rejected.add(r["tid"])
        sig = {"check": check, "why": r["why"], "ev": e["ev"], "call": e.get("call", ""), "err": e.get("err", ""),
               "matcher": mt["matcher"], "weighting": mt["weighting"], "shape": qobs.shape(mt["q"]),
               "target": mt["target"], "needs_current": mt["needs_current"]}
        if r["tid"] in classes:
            sig["class"] = classes[r["tid"]]
        run.violation(sig, {"trace": t, "line": r["l"], "cur": r.get("cur"), "q": mt["q"], "plan": mt["plan"],
                            "idx": mt["idx"], "target": mt["target"], "meta": mt})
    for i, t in enumerate(trs):
        if i not in rejected and len(t) > 6 and t and t[0]["ev"] == "new" and len(t[0]["ref"]) > 1:
            run.nontriv((check, i))
    if trs:
        run.sample({"matcher_trace": trs[0][:6], "query": meta[0]["q"], "matcher": meta[0]["matcher"]})


def check(run):
    quick = run.tier == "quick"
    rng = random.Random(run.seed + 1111)
    run.rule = ("random call programs (next, skip_to, skip_to_quality(0), replace(0), copy, reset, all_ids, reads) "
                "over matchers that real queries produce on real multi-segment indexes (top-level and per-segment, "
                "needs_current on/off); each trace validated by MatcherTrace.tla; reference lists of top-level "
                "matchers judged against QuerySem!Denote; non-trivial = accepted trace with >6 events over a list "
                "of >1 entries")
    trs, meta, cases = collect(run, rng, 12 if quick else 120, 30 if quick else 40, "exact",
                               lambda rec, m: (0,), quality=False, spans=True, nested=True)
    judge_traces(run, "C11", trs, meta, "c11")
    report_notimpl(run, meta)
    # every query type, also those whose scores nothing fixes (negation, phrases, multi-term queries): the cursor
    # protocol is the same - against the matcher's own list, on segments with deletions too
    def anyq(r):
        if r.random() < 0.35:
            # negations of rare terms (few postings: the negated matcher runs out early and gets replaced)
            t = {"op": "term", "f": r.choice(world.TEXT_FIELDS), "t": world.rand_term(r), "b4": 4}
            form = r.choice(["not", "not", "andnot-every", "and-not", "or-not", "andmaybe-not", "andmaybe-not"])
            if form == "not":
                return {"op": "not", "q": t}
            if form == "andnot-every":
                return {"op": "andnot", "a": {"op": "every", "f": "", "b4": 4}, "b": t}
            other = {"op": "term", "f": r.choice(world.TEXT_FIELDS), "t": world.rand_term(r), "b4": 4}
            if form == "andmaybe-not":
                # (the optional side goes on after its negated term has run out: quality calls reach an exhausted
                # multi-segment matcher)
                return {"op": "andmaybe", "a": other, "b": {"op": "not", "q": t}}
            return {"op": "and" if form == "and-not" else "or", "kids": [other, {"op": "not", "q": t}], "b4": 4}
        return world.rand_query(r, r.randrange(0, 3), scored_only=False, ops=NOFUZZY)
    trs2, meta2, _ = collect(run, rng, 6 if quick else 60, 30 if quick else 40, "exact", lambda rec, m: (0,),
                             quality=False, scored_only=False, ndocs=(8, 16), qgen=anyq)
    judge_traces(run, "C11", trs2, meta2, "c11-any")
    report_notimpl(run, meta2)
    # longer lists with a regular shape: one term in every document, one in every 2nd/3rd, a sparse third one
    # (targets of skip_to fall between the postings of the sparse side while the dense side has some there)
    from harness.props import c12
    trs3, meta3, _ = collect(run, rng, 5 if quick else 40, 16 if quick else 24, "exact", lambda rec, m: (0,),
                             quality=False, ndocs=(12, 30), nsteps=(6, 16), docgen=c12.stepped_docs,
                             qgen=c12.stepped_query, plangen=c12.stepped_plan, blocklimits=(1, 2, 3, 4, None))
    judge_traces(run, "C11", trs3, meta3, "c11-stepped")
    report_notimpl(run, meta3)
    # parent/child matchers on their own (and under one connective), on longer segments: skip_to targets fall on
    # parents, on children of wanted and of unwanted parents, behind the last parent
    def nestedq(r):
        aq = world.rand_nested_query(r)
        if r.random() < 0.3:
            other = world.rand_query(r, 0, scored_only=True)
            op = r.choice(["and", "or", "andnot"])
            aq = {"op": "andnot", "a": aq, "b": other} if op == "andnot" else \
                {"op": op, "kids": [aq, other] if r.random() < 0.5 else [other, aq], "b4": 4}
        return aq
    trs4, meta4, cases4 = collect(run, rng, 6 if quick else 50, 20 if quick else 30, "exact", lambda rec, m: (0,),
                                  quality=False, ndocs=(6, 16), nsteps=(4, 12),
                                  docgen=lambda r, n: world.family_docs(r, n) if r.random() < 0.5 else
                                  {"k%d" % i: world.rand_doc(r) for i in range(n)},
                                  qgen=lambda r: world.family_query(r) if r.random() < 0.5 else nestedq(r))
    judge_traces(run, "C11", trs4, meta4, "c11-nested")
    report_notimpl(run, meta4)
    # ... and every (position, target) pair of skip_to on them, from a fresh matcher
    fplan = lambda r, adocs: [("commit", sorted(adocs), {"merge": False})]
    trs5, meta5, _ = collect(run, rng, 4 if quick else 30, 6 if quick else 10, "exact", lambda rec, m: (0,),
                             quality=False, ndocs=(6, 14), docgen=world.family_docs, qgen=world.family_query,
                             plangen=fplan, sweep="skip")
    judge_traces(run, "C11", trs5, meta5, "c11-nested-skips")
    report_notimpl(run, meta5)
    from harness.props import c01
    nbase = len(meta)
    meta = meta + meta4
    for c in cases4:
        for qo in c["qs"]:
            qo["t"] += nbase
    cases = cases + cases4
    rejects = qobs.judge(run, cases)
    for ci, qi, oi, exp in rejects:
        qo = cases[ci]["qs"][qi]
        mt = meta[qo["t"]]
        run.violation({"check": "c11-list", "shape": qobs.shape(mt["q"]), "matcher": mt["matcher"],
                       "needs_current": mt["needs_current"]},
                      {"q": mt["q"], "idx": cases[ci]["idx"], "plan": mt["plan"], "obs": qo["obs"][oi], "expected": exp})


def replay(run, rp):
    """Re-executes the recorded program on the current tree and re-validates it."""
    mt = rp["payload"]["meta"]
    ev = reexecute(mt)
    judge_traces(run, run.pid, [ev], [mt], rp["sig"].get("check", "replay"))
