"""C08 - stored values and column values come back unchanged for the right document.
Spec: ContentCheck.tla (stored / column clauses): which value id belongs to which document
after any history; absent => absent (stored) / default (column).  Values come from injective
pools covering the value classes of the statement; a value that comes back changed, or from
another document, maps to a different id and is rejected by TLC."""
import random

from harness import cworld, world, content

LEVEL = "model_checking"


def failed_add_case(rng):
    """An add_document() that raises part-way (a value outside a NUMERIC field's domain) must
    leave nothing behind: the documents added after it carry only their own values."""
    keys = ["f%d" % i for i in range(6)]
    adocs = dict((k, cworld.rand_adoc(rng, k)) for k in keys)
    for k in keys[1::2]:
        adocs[k]["s"] = {}            # the documents right after a failed add supply no stored fields
        adocs[k]["c"] = {}
    w = cworld.CWorld({"storage": "ram"})
    try:
        wr = w.ix.writer()
        for i, k in enumerate(keys):
            if i % 2 == 1:
                bad = cworld.concrete_kwargs(adocs[keys[i - 1]])
                bad["key"] = u"never-added-%d" % i
                bad["blob"] = u"SECRET of a rejected document"
                bad["num"] = 2 ** 40              # out of the 32-bit domain: add_document raises
                try:
                    wr.add_document(**bad)
                except Exception:
                    pass
            wr.add_document(**cworld.concrete_kwargs(adocs[k]))
        wr.commit()
        plan = [("commit", keys, {})]
        with w.reader() as rd:
            idx = cworld.abstract_index(rd, adocs)
            obs = cworld.dump(rd, idx, w.schema, rng=rng, maxterms=20, plan=plan)
        return [{"idx": idx, "obs": obs, "cfg": {"case": "add_document raising between documents"}, "plan": plan,
                 "adocs": adocs}]
    except Exception as ex:
        return [{"idx": {"docs": []}, "obs": [{"kind": "error", "path": "failed-add scenario", "err": type(ex).__name__,
                                               "msg": str(ex)[:160], "where": content.where(ex)}],
                 "cfg": {"case": "add_document raising between documents"}, "plan": None}]
    finally:
        w.close()


def huge_segment_case(run, rng, n=33200):
    """One segment with more than 2^15 documents: variable-length columns then store an explicit offset
    array (retyped as offsets grow past 255 / 65535); about half of the documents have no value."""
    keys = ["h%d" % i for i in range(n)]
    adocs = {}
    for i, k in enumerate(keys):
        d = {"key": k, "t": {}, "n": {}, "s": {}, "c": {}, "b4": 4}
        if rng.random() < 0.5:
            d["s"]["blob"] = rng.choice([1, 2, 3])
        if rng.random() < 0.5:
            d["c"]["cvar"] = rng.choice([1, 2, 3])
        if rng.random() < 0.3:
            d["s"]["tags"] = d["c"]["tags"] = rng.randrange(1, 4)
        # stretches where every other document has no value, so that the document whose value pushes the
        # column's running offset past 255 and past 65535 is directly followed by one without a value
        if 100 <= i < 500:
            d["c"].pop("cvar", None)
            d["s"].pop("tags", None)
            d["c"].pop("tags", None)
            if i % 2 == 0:
                d["c"]["cvar"] = 1
                d["s"]["tags"] = d["c"]["tags"] = 1 + (i // 2) % 3
        elif 1000 <= i < 1500:
            d["c"].pop("cvar", None)
            if i % 2 == 0:
                d["c"]["cvar"] = 4               # 400 bytes
        adocs[k] = d
    plan = [("commit", keys, {})]
    cfg = {"storage": "file", "mmap": True, "compound": False, "case": "one segment of %d documents" % n}
    w = cworld.CWorld(cfg)
    try:
        w.run(adocs, plan)
        rd = w.reader()
        try:
            idx = cworld.abstract_index(rd, adocs)
            obs = cworld.dump(rd, idx, w.schema, rng=rng, maxterms=0, vectors=False, terminfo=False, plan=plan)
            obs = [o for o in obs if o["kind"] in ("stored", "counts", "error")
                   or (o["kind"] == "column" and o.get("f") in ("cvar", "tags"))]
            obs.append({"kind": "flag", "path": "single segment", "value": len(rd.leaf_readers()) == 1})
            run.count(len(obs))
        finally:
            rd.close()
        return [{"idx": idx, "obs": obs, "cfg": cfg, "plan": [["commit", "%d documents" % n]], "adocs": None}]
    except Exception as ex:
        return [{"idx": {"docs": []}, "obs": [{"kind": "error", "path": "huge segment", "err": type(ex).__name__,
                                               "msg": str(ex)[:160], "where": content.where(ex)}],
                 "cfg": cfg, "plan": None}]
    finally:
        w.close()


def added_columns(run, rng, n):
    """sorting.add_sortable(): columns added afterwards to the segments of an existing index (with deletions, also
    of the last documents of a segment) hold each document's own value - read by document number, as sort key and
    after a later merge."""
    from whoosh import fields, sorting, query
    from whoosh.filedb.filestore import RamStorage
    cases = []
    for i in range(n):
        schema = fields.Schema(key=fields.ID(stored=True, unique=True), chap=fields.ID(stored=True),
                               price=fields.NUMERIC(stored=True), body=fields.TEXT)
        ix = RamStorage().create_index(schema)
        obs = []
        cfg = {"scenario": "add_sortable", "round": i}
        try:
            model, k = {}, 0
            for seg in range(rng.choice([1, 2, 3])):
                w = ix.writer()
                segkeys = []
                for _ in range(rng.randrange(3, 9)):
                    key = u"k%02d" % k
                    k += 1
                    d = {"key": key, "body": u"xx"}
                    if rng.random() < 0.85:
                        d["chap"] = u"chapter-" + u"x" * rng.randrange(0, 6)
                    if rng.random() < 0.85:
                        d["price"] = rng.randrange(-5, 500)
                    w.add_document(**d)
                    model[key] = d
                    segkeys.append(key)
                w.commit(merge=False)
                # deletions: the last documents of the segment, or one in the middle
                dels = segkeys[-rng.randrange(1, 3):] if rng.random() < 0.6 else [segkeys[len(segkeys) // 2]]
                if rng.random() < 0.8:
                    w = ix.writer()
                    for key in dels:
                        w.delete_by_term("key", key)
                        model.pop(key)
                    w.commit(merge=False)
            with ix.writer() as w:
                sorting.add_sortable(w, "chap", sorting.StoredFieldFacet("chap"))
                sorting.add_sortable(w, "price", sorting.FieldFacet("price"))
                w.mergetype = None

            def look(label):
                with ix.searcher() as s:
                    rd = s.reader()
                    okc = okp = True
                    cc, cp = rd.column_reader("chap"), rd.column_reader("price")
                    for dn in rd.all_doc_ids():
                        st = rd.stored_fields(dn)
                        d = model[st["key"]]
                        if "chap" in d and cc[dn] != d["chap"]:
                            okc = False
                        if "price" in d and cp[dn] != d["price"]:
                            okp = False
                    obs.append({"kind": "flag", "path": "%s: the added text column holds each document's own value" % label,
                                "value": okc})
                    obs.append({"kind": "flag", "path": "%s: the added numeric column holds each document's own value" % label,
                                "value": okp})
                    withp = sorted((d["price"], key) for key, d in model.items() if "price" in d)
                    got = [h["key"] for h in s.search(query.Every(), limit=None, sortedby="price") if "price" in model[h["key"]]]
                    obs.append({"kind": "flag", "path": "%s: sorting by the added column" % label,
                                "value": [p for p, _ in withp] == [model[key]["price"] for key in got]})
            look("after add_sortable")
            w = ix.writer()
            w.commit(optimize=True)
            look("after a later optimize")
        except Exception as ex:
            obs.append({"kind": "error", "path": "add_sortable scenario", "err": type(ex).__name__, "msg": str(ex)[:160],
                        "where": content.where(ex)})
        run.count(len(obs))
        cases.append({"idx": {"docs": []}, "obs": obs, "cfg": cfg, "plan": None, "adocs": None})
    return cases


def check(run):
    quick = run.tier == "quick"
    rng = random.Random(run.seed + 808)
    run.rule = ("corpora with sparse stored/column fields over value pools (unicode incl. non-BMP, bytes, ints at "
                "the 32/64-bit limits, floats incl. -0.0/denormal/1e300, Decimal, datetimes incl. min/max/microsecond, "
                "booleans, nested lists/dicts, 300 distinct reference values, long values pushing column offsets past "
                "2^16) x histories with merges and deletions x {compound, loose} x {mmap, no mmap, RAM, copied to RAM}; "
                "stored_fields / column_reader / Hit[field] judged by ContentCheck.tla; non-trivial = accepted "
                "configuration with >= 3 documents")
    cases = []
    rounds = [(12, False)] * (3 if quick else 12) + [(360 if quick else 420, True)] * (1 if quick else 2)
    for rnd, (n, big) in enumerate(rounds):
        keys = ["k%d" % i for i in range(n)]
        adocs = dict((k, cworld.rand_adoc(rng, k)) for k in keys)
        if big:
            # many distinct reference values (> 256) and long variable values (offsets > 2^16)
            for i, k in enumerate(keys):
                d = adocs[k]
                # (every seventh document has no reference value - also after the 256th distinct value has
                # been seen, from where on the references take two bytes)
                d["c"].pop("cref", None)
                if i % 7 != 6:
                    d["c"]["cref"] = 6 + (i % 300)
                if i % 3 != 2:
                    d["c"]["cvar"] = 4                   # a 400 byte value
                    d["c"]["ccomp"] = 4
        plan = world.rand_plan(rng, keys, max_segments=4)
        if big:
            # (one segment has to hold them, written directly: a merge writes a value - the default - for every
            # document; a second, small commit merges everything or stays apart)
            cut = len(keys) - 6
            plan = [("commit", keys[:cut], {"merge": False}), ("commit", keys[cut:], {"optimize": rnd % 2 == 0, "merge": False})]
        if rnd % 3 == 1 and not big:
            # segments that have no file at all for some (or any) column, next to segments that do: the documents
            # of the last commits carry no column values, and nothing merges them
            bare = keys[-4:]
            for k in bare[:2]:
                adocs[k]["c"] = {}
                adocs[k]["s"] = dict((f, v) for f, v in adocs[k]["s"].items() if f in ("blob", "flag"))
            for k in bare[2:]:
                for f in ("num", "tags", "cvar"):
                    adocs[k]["c"].pop(f, None)
                    adocs[k]["s"].pop(f, None)
            plan = [("commit", keys[:4], {"merge": False}), ("commit", keys[4:-4], {"merge": False}),
                    ("commit", bare[:2], {"merge": False}), ("commit", bare[2:], {"merge": False})]
        elif rnd % 2 == 0:
            # deletions that are then merged away: live documents after a deleted one move up
            live = [k for k in keys if k not in [x for st in plan if st[0] == "delete" for x in st[1]]]
            if len(live) > 3:
                plan += [("delete", [live[0], live[2]]), ("commit", [], {"optimize": True})]
        cfgs = [{"storage": "file", "mmap": True, "compound": True}, {"storage": "file", "mmap": False, "compound": False},
                {"storage": "ram", "compound": True}, {"storage": "file", "copy_to_ram": True, "compound": True}]
        if quick:
            cfgs = [cfgs[rnd % 4], cfgs[(rnd + 1) % 4]]
        for cfg in cfgs:
            w = cworld.CWorld(cfg, variant=rnd)
            try:
                try:
                    w.run(adocs, plan)
                except Exception as ex:
                    cases.append({"idx": {"docs": []}, "obs": [{"kind": "error", "path": "building the index",
                                                                "err": type(ex).__name__, "msg": str(ex)[:160],
                                                                "where": content.where(ex)}],
                                  "cfg": cfg, "plan": plan, "adocs": adocs if n < 30 else None})
                    continue
                rd = w.reader()
                try:
                    idx = cworld.abstract_index(rd, adocs)
                    obs = cworld.dump(rd, idx, w.schema, rng=rng, maxterms=0, vectors=False, terminfo=False, plan=plan)
                    obs = [o for o in obs if o["kind"] in ("stored", "column", "counts", "livekeys", "error", "flag")]
                    # Hit[field] / Searcher.stored_fields agree with the reader (stored first, column fallback)
                    from whoosh import query
                    with w.ix.searcher() as s:
                        r = s.search(query.Every(), limit=None)
                        ok = True
                        for hit in r:
                            sf = s.stored_fields(hit.docnum)
                            for f in ("num", "when", "tags"):
                                if f in sf and hit[f] != sf[f]:
                                    ok = False
                        obs.append({"kind": "flag", "path": "Hit[field] == stored_fields(docnum)[field]", "value": ok})
                    run.count(len(obs))
                finally:
                    rd.close()
                cases.append({"idx": idx, "obs": obs, "cfg": cfg, "plan": plan, "adocs": adocs if n < 30 else None,
                              "variant": rnd})
            finally:
                w.close()
    if not quick:
        cases += huge_segment_case(run, rng)
    # the _stored_<field> override: the stored value differs from the indexed one
    from whoosh import fields
    from whoosh.filedb.filestore import RamStorage
    ix = RamStorage().create_index(fields.Schema(key=fields.ID(stored=True), body=fields.TEXT(stored=True)))
    with ix.writer() as w:
        w.add_document(key=u"a", body=u"indexed text", _stored_body=u"what is stored")
        w.add_document(key=u"b", body=u"plain")
    with ix.searcher() as s:
        got = dict((d["key"], d["body"]) for d in s.documents())
        found = [h["key"] for h in s.search(__import__("whoosh").query.Term("body", u"indexed"))]
    cases.append({"idx": {"docs": []}, "cfg": {"case": "_stored_ override"}, "plan": None,
                  "obs": [{"kind": "flag", "path": "_stored_body value is what comes back", "value": got == {"a": u"what is stored", "b": u"plain"}},
                          {"kind": "flag", "path": "the document is found by its indexed text", "value": found == ["a"]}]})
    cases += failed_add_case(rng)
    cases += added_columns(run, rng, 6 if quick else 40)
    rejects = content.judge(run, cases, chunk=4)
    content.report(run, "c08", cases, rejects)


def replay(run, rp):
    raise NotImplementedError
