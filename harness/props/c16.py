"""C16 - the query parser accepts any input and honours the documented language.

Spec: QueryLang.tla (expression trees, Render = their text under the documented precedence,
Meaning = the query they denote), QueryLangInputs.tla (the token alphabet and the input
strings for totality), QueryLangCheck.tla (binding).

Semantic half (spec -> code -> spec): random expression trees are rendered *by TLC*, the
text is parsed by every shipped parser configuration that speaks that part of the language,
the parsed query is run on a real multi-segment index, and TLC judges the selected documents
against QuerySem!Denote(Meaning(tree)).

Totality half: TLC enumerates every string of at most N tokens over the language's alphabet
(plus random longer ones); every parser configuration parses each, every parsed query is
searched on an index with every field type; TLC judges each distinct outcome."""
import os
import random
import tempfile

from harness import world, qobs, tlc

LEVEL = "model_checking"

SUBST = {"<dquote>": u'"', "<backslash>": u"\\", "<eacute>": u"é", "<emoji>": u"\U0001F600", "<tab>": u"\t"}


# ---------------------------------------------------------------------------
# parser configurations
# ---------------------------------------------------------------------------

def semantic_parsers(schema):
    """name -> (parser, cfg for QueryLang!Meaning, language: 'full' | 'plusminus')"""
    from whoosh import qparser
    from whoosh.qparser import syntax
    return {
        "default": (qparser.QueryParser("body", schema), {"group": "and", "fields": ["body"], "multi": "or"}, "full"),
        "orgroup": (qparser.QueryParser("body", schema, group=syntax.OrGroup),
                    {"group": "or", "fields": ["body"], "multi": "or"}, "full"),
        "orgroup.factory": (qparser.QueryParser("body", schema, group=syntax.OrGroup.factory(0.9)),
                            {"group": "or", "fields": ["body"], "multi": "or"}, "full"),
        "multifield": (qparser.MultifieldParser(["body", "title"], schema),
                       {"group": "and", "fields": ["body", "title"], "multi": "or"}, "full"),
        "multifield.or": (qparser.MultifieldParser(["body", "title"], schema, group=syntax.OrGroup,
                                                   fieldboosts={"body": 1.0, "title": 2.0}),
                          {"group": "or", "fields": ["body", "title"], "multi": "or"}, "full"),
        "default+gtlt": (_with(qparser.QueryParser("body", schema), qparser.GtLtPlugin()),
                         {"group": "and", "fields": ["body"], "multi": "or"}, "full+cmp"),
        "simple": (qparser.SimpleParser("body", schema), {"group": "or", "fields": ["body"], "multi": "or"},
                   "plusminus"),
        "dismax": (qparser.DisMaxParser({"body": 1.0, "title": 1.5}, schema),
                   {"group": "or", "fields": ["body", "title"], "multi": "dismax"}, "plusminus"),
    }


def _with(parser, plugin):
    parser.add_plugin(plugin)
    return parser


def rich_schema():
    from whoosh import fields
    return fields.Schema(body=fields.TEXT, title=fields.TEXT(stored=True), tag=fields.KEYWORD(commas=True),
                         key=fields.ID(stored=True, unique=True), num=fields.NUMERIC(int, sortable=True),
                         price=fields.NUMERIC(float), when=fields.DATETIME(sortable=True), flag=fields.BOOLEAN,
                         ng=fields.NGRAM(minsize=2, maxsize=3), ngw=fields.NGRAMWORDS(minsize=2, maxsize=3),
                         st=fields.STORED, dec=fields.NUMERIC(int, decimal_places=2))


def rich_index():
    import datetime
    import decimal
    from whoosh.filedb.filestore import RamStorage
    ix = RamStorage().create_index(rich_schema())
    for part in ([0, 1], [2]):
        w = ix.writer()
        for i in part:
            w.add_document(body=u"a ab b* yes now %d" % i, title=u"ab a é", tag=u"a,ab", key=u"k%d" % i, num=i - 1,
                           price=1.5 * i, when=datetime.datetime(2010, 1, 2 + i), flag=bool(i % 2), ng=u"abab",
                           ngw=u"ab abab", st=u"x", dec=decimal.Decimal("1.50"))
        w.commit(merge=False)
    return ix


def totality_parsers(schema):
    from whoosh import qparser
    from whoosh.qparser import syntax, plugins, dateparse
    import datetime
    out = {}
    out["default"] = lambda: qparser.QueryParser("body", schema)
    out["orgroup"] = lambda: qparser.QueryParser("body", schema, group=syntax.OrGroup)
    out["orgroup.factory"] = lambda: qparser.QueryParser("body", schema, group=syntax.OrGroup.factory(0.9))
    out["multifield"] = lambda: qparser.MultifieldParser(["body", "title", "num"], schema,
                                                         fieldboosts={"title": 2.0})
    out["simple"] = lambda: qparser.SimpleParser("body", schema)
    out["dismax"] = lambda: qparser.DisMaxParser({"body": 1.0, "title": 1.5}, schema)
    out["noschema"] = lambda: qparser.QueryParser("body", None)
    out["default-field-numeric"] = lambda: qparser.QueryParser("num", schema)
    out["default-field-date"] = lambda: qparser.QueryParser("when", schema)
    out["default-field-ngram"] = lambda: qparser.QueryParser("ng", schema)

    def optional1():
        p = qparser.QueryParser("body", schema)
        p.add_plugin(plugins.FuzzyTermPlugin())
        p.add_plugin(plugins.GtLtPlugin())
        p.add_plugin(plugins.RegexPlugin())
        p.add_plugin(dateparse.DateParserPlugin(basedate=datetime.datetime(2010, 1, 5)))
        p.add_plugin(plugins.SingleQuotePlugin()) if not any(isinstance(x, plugins.SingleQuotePlugin)
                                                            for x in p.plugins) else None
        return p
    out["fuzzy+gtlt+regex+dates"] = optional1

    def optional2():
        p = qparser.QueryParser("body", schema)
        p.add_plugin(plugins.PlusMinusPlugin())
        p.add_plugin(plugins.CopyFieldPlugin({"body": "title"}))
        p.add_plugin(plugins.FieldAliasPlugin({"title": ["t", "nosuch"]}))
        p.add_plugin(plugins.PseudoFieldPlugin({"pseudo": lambda node: node}))
        p.replace_plugin(plugins.PhrasePlugin())
        p.add_plugin(plugins.SequencePlugin())
        return p
    out["plusminus+copyfield+alias+pseudo+sequence"] = optional2

    def optional3():
        p = qparser.QueryParser("body", schema)
        p.add_plugin(plugins.FunctionPlugin({"fn": lambda *a, **k: None}))
        p.add_plugin(plugins.PrefixPlugin())
        p.remove_plugin_class(plugins.WildcardPlugin)
        p.add_plugin(plugins.WildcardPlugin())
        return p
    out["function+prefix"] = optional3
    return out


# ---------------------------------------------------------------------------
# expression trees (inputs only: their text and meaning come from QueryLang.tla)
# ---------------------------------------------------------------------------

def rword(rng):
    return [rng.randrange(1, 4) for _ in range(rng.randrange(1, 3))]


def rand_leaf(rng, cmp=False):
    f = rng.choice(["", "", "", "title", "body"])
    if cmp and rng.random() < 0.5:
        # (bounds among the values the documents have: whether the bound itself is included shows)
        return {"op": "cmp", "f": "num", "rel": rng.choice(["<", "<=", "=<", ">", ">=", "=>", "=<", "=>"]),
                "n": rng.randrange(-3, 8)}
    k = rng.random()
    if k < 0.08:
        # a word the title analyzer breaks at hyphens (always written with the field prefix)
        return {"op": "multi", "f": "title", "parts": [rword(rng) for _ in range(rng.randrange(2, 4))]}
    if k < 0.45:
        return {"op": "word", "f": f, "t": rword(rng)}
    if k < 0.6:
        return {"op": "phrase", "f": f, "words": [rword(rng) for _ in range(rng.randrange(2, 4))],
                "slop": rng.choice([0, 0, 2, 3])}
    if k < 0.7:
        return {"op": "prefix", "f": f, "t": [rng.randrange(1, 4)]}
    if k < 0.8:
        pat = [rng.choice([1, 2, 3, -1, -2]) for _ in range(rng.randrange(2, 4))]
        if not any(c < 0 for c in pat):
            pat[rng.randrange(len(pat))] = rng.choice([-1, -2])
        if pat == [-2] * len(pat):
            pat[0] = 1
        return {"op": "wild", "f": f, "t": pat}
    if k < 0.9:
        lo, hi = rword(rng), rword(rng)
        if rng.random() < 0.5:
            # bounds that contain the letters of the range keyword: [ato TO b], [toa TO cto], [to TO to]
            lo = rng.choice([[7, 8], [7, 8] + lo, lo + [7, 8], lo + [7, 8], lo[:1] + [7, 8] + lo[1:]])
            hi = rng.choice([[7, 8], [7, 8] + hi, hi + [7, 8], hi])
        if rng.random() < 0.25:
            # one word as both bounds (a word some document has): [a TO a] is that word, {a TO a] and [a TO a} nothing
            lo = hi = [rng.randrange(1, 4)]
            return {"op": "range", "f": f, "lo": lo, "hi": hi, "haslo": True, "hashi": True,
                    "loexcl": rng.random() < 0.5, "hiexcl": rng.random() < 0.5}
        return {"op": "range", "f": f, "lo": lo, "hi": hi, "haslo": rng.random() < 0.8, "hashi": rng.random() < 0.8,
                "loexcl": rng.random() < 0.4, "hiexcl": rng.random() < 0.4}
    lo, hi = sorted([rng.randrange(-4, 9), rng.randrange(-4, 9)])
    if rng.random() < 0.2:
        hi = lo
    return {"op": "nrange", "f": "num", "lo": lo, "hi": hi, "haslo": rng.random() < 0.8, "hashi": rng.random() < 0.8,
            "loexcl": rng.random() < 0.4, "hiexcl": rng.random() < 0.4}


def rand_leaf_simple(rng):
    return {"op": "word", "f": rng.choice(["", "", "title"]), "t": [rng.randrange(1, 4)]}


def fix_open_range(e):
    if e["op"] in ("range", "nrange") and not e["haslo"] and not e["hashi"]:
        e["haslo"] = True
    return e


def rand_expr(rng, depth, cmp=False):
    if depth <= 0 or rng.random() < 0.2:
        return fix_open_range(rand_leaf(rng, cmp))
    op = rng.choice(["not", "and", "and", "or", "or", "andnot", "andmaybe", "require", "group", "group", "boost",
                     "fgroup"])
    sub = lambda: rand_expr(rng, depth - 1, cmp)
    if op == "not":
        return {"op": "not", "e": sub()}
    if op in ("and", "or", "group"):
        return {"op": op, "kids": [sub() for _ in range(rng.randrange(2, 4))]}
    if op in ("andnot", "andmaybe", "require"):
        if rng.random() < 0.4:
            # an unparenthesised chain of the same operator: a OP b OP c [OP d]
            e = {"op": op, "a": rand_leaf_simple(rng), "b": rand_leaf_simple(rng)}
            for _ in range(rng.randrange(1, 3)):
                e = {"op": op, "a": e, "b": rand_leaf_simple(rng)}
            return e
        return {"op": op, "a": sub(), "b": sub()}
    if op == "boost":
        return {"op": "boost", "e": sub(), "n": rng.choice([2, 3])}
    if rng.random() < 0.4:
        # a parenthesised group nested inside the field group: title:((a OR b) c), title:(a AND (b OR c))
        leaf = lambda: rand_leaf_simple(rng)
        inner = {"op": rng.choice(["or", "or", "and"]), "kids": [leaf(), leaf()]}
        outer = {"op": "and" if inner["op"] == "or" else "or", "kids": [inner, leaf()]}
        if rng.random() < 0.5:
            outer["kids"].reverse()
        if inner["op"] == "or" and rng.random() < 0.4:
            outer = {"op": "group", "kids": outer["kids"]}
        return {"op": "fgroup", "f": rng.choice(["title", "body"]), "e": strip_fields(outer)}
    return {"op": "fgroup", "f": rng.choice(["title", "body"]), "e": strip_fields(sub())}


def rand_stopped(rng):
    """clauses written side by side, some of them words the analyzer removes, alone or as a whole parenthesised /
    field group ("a the", "a (the)", "the title:(the the) b"): they are gone from the query"""
    stop = lambda f="": {"op": "stop", "f": f}
    kids = [rand_leaf_simple(rng) for _ in range(rng.randrange(1, 3))]
    for _ in range(rng.randrange(1, 3)):
        form = rng.choice(["word", "word", "group", "fgroup", "fword"])
        if form == "word":
            x = stop()
        elif form == "fword":
            x = stop(rng.choice(["title", "body"]))
        elif form == "group":
            x = {"op": "group", "kids": [stop() for _ in range(rng.randrange(1, 3))]}
        else:
            x = {"op": "fgroup", "f": rng.choice(["title", "body"]),
                 "e": {"op": "group", "kids": [stop() for _ in range(rng.randrange(1, 3))]}}
        kids.insert(rng.randrange(0, len(kids) + 1), x)
    return {"op": "group", "kids": kids}


def strip_fields(e):
    """Inside f:( ... ) the generated clauses carry no field prefix of their own (a nested prefix is
    also legal and is generated separately by leaving some)."""
    if isinstance(e, dict):
        out = dict((k, strip_fields(v)) for k, v in e.items())
        if out.get("op") in ("word", "phrase", "prefix", "wild", "range") and "f" in out:
            out["f"] = ""
        if out.get("op") == "multi":
            out = {"op": "word", "f": "", "t": out["parts"][0]}
        return out
    if isinstance(e, list):
        return [strip_fields(x) for x in e]
    return e


def rand_pm(rng):
    items = []
    for _ in range(rng.randrange(1, 5)):
        k = rng.random()
        e = {"op": "word", "f": "", "t": rword(rng)} if k < 0.75 else \
            {"op": "phrase", "f": "", "words": [rword(rng) for _ in range(2)], "slop": 0}
        items.append({"sign": rng.choice(["", "", "+", "-"]), "e": e})
    return {"op": "pm", "items": items}


# ---------------------------------------------------------------------------

def _tlc_json(cases, cfg):
    fd, path = tempfile.mkstemp(prefix="verif-ql-", suffix=".json")
    os.close(fd)
    try:
        tlc.write_json(path, cases)
        return tlc.run_tlc("QueryLangCheck", cfg, env={"TRACE_FILE": path}, timeout=1800)
    finally:
        os.unlink(path)


def semantic(run, rng, nworlds, nexprs):
    from whoosh import scoring
    total = 0
    for wi in range(nworlds):
        n = rng.randrange(5, 10)
        adocs = {"k%d" % i: world.rand_doc(rng, nletters=3, maxtoks=5, gaps=False) for i in range(n)}
        for d in adocs.values():
            # words around the range keyword: to, toa, bto, ...
            for f in world.TEXT_FIELDS:
                if d["t"].get(f) and rng.random() < 0.3:
                    d["t"][f] = d["t"][f] + [rng.choice([[7, 8], [7, 8, rng.randrange(1, 4)], [rng.randrange(1, 4), 7, 8]])]
        plan = world.rand_plan(rng, adocs.keys(), max_segments=3)
        w = world.World(adocs, plan, storage="ram")
        try:
            parsers = semantic_parsers(w.schema)
            with w.ix.searcher(weighting=scoring.Frequency()) as s:
                idx = w.abstract_index(s.reader())
                cases = []
                for pname, (parser, cfg, lang) in sorted(parsers.items()):
                    exprs = [rand_expr(rng, rng.randrange(0, 4), cmp=(lang == "full+cmp")) if lang.startswith("full")
                             else rand_pm(rng) for _ in range(nexprs)]
                    if lang.startswith("full"):
                        exprs += [rand_stopped(rng) for _ in range(max(2, nexprs // 6))]
                    cases.append({"idx": idx, "cfg": cfg, "parser": pname, "qs": [{"e": e, "obs": []} for e in exprs]})
                # phase 1: TLC renders the expressions
                res = _tlc_json(cases, "QueryLangRender.cfg")
                run.add_tlc("QueryLang-render[%d]" % wi, res)
                texts = {}
                for r in res.tagged.get("RENDER", []):
                    texts[(r["tid"] - 1, r["qi"] - 1)] = r["text"]
                if len(texts) != sum(len(c["qs"]) for c in cases):
                    raise tlc.TLCError("QueryLangRender produced %d of %d texts\n%s" % (
                        len(texts), sum(len(c["qs"]) for c in cases), tlc.tail(res.stdout)))
                # phase 2: the real parser and the real index
                for ci, cs in enumerate(cases):
                    parser = parsers[cs["parser"]][0]
                    for qi, qo in enumerate(cs["qs"]):
                        text = texts[(ci, qi)]
                        qo["text"] = text
                        try:
                            q = parser.parse(text)
                            qo["parsed"] = repr(q)[:300]
                            ids = sorted(int(h.docnum) for h in s.search(q, limit=None))
                            qo["obs"].append({"kind": "ids", "path": cs["parser"], "ids": ids})
                        except Exception as ex:
                            qo["obs"].append({"kind": "error", "path": cs["parser"], "err": type(ex).__name__,
                                              "msg": str(ex)[:200]})
                        run.count(1)
                # phase 3: TLC judges
                res = _tlc_json(cases, "QueryLangCheck.cfg")
                run.add_tlc("QueryLang-judge[%d]" % wi, res)
                if res.violation:
                    raise tlc.TLCError("QueryLangCheck: %s\n%s" % (res.violation, tlc.tail(res.stdout)))
                nq = sum(len(c["qs"]) for c in cases)
                if res.distinct != nq:
                    raise tlc.TLCError("QueryLangCheck evaluated %d of %d\n%s" % (res.distinct, nq, tlc.tail(res.stdout)))
                run.traces += nq
                bad = set()
                for r in res.tagged.get("REJECT", []):
                    ci, qi, oi = r["tid"] - 1, r["qi"] - 1, r["oi"] - 1
                    cs, qo = cases[ci], cases[ci]["qs"][qi]
                    o = qo["obs"][oi]
                    bad.add((ci, qi))
                    sig = {"check": "c16-meaning", "parser": cs["parser"], "kind": o["kind"],
                           "err": o.get("err", ""), "shape": eshape(qo["e"])}
                    # the parser normalizes what it builds: the recorded (test-pinned) defects of
                    # And.normalize() (C15) show up here too - recognised when the identical parse and
                    # search with that one method corrected selects exactly the expected documents
                    if o["kind"] == "ids":
                        from harness.props import c15
                        for cname, patch in c15.ALTS:
                            try:
                                with patch():
                                    q2 = parsers[cs["parser"]][0].parse(qo["text"])
                                    ids2 = sorted(int(h.docnum) for h in s.search(q2, limit=None))
                            except Exception:
                                continue
                            if ids2 == list(r["expected"]["ids"]):
                                sig["class"] = cname
                                break
                    run.violation(sig,
                                  {"text": qo["text"], "parsed": qo.get("parsed"), "expr": qo["e"], "obs": o,
                                   "expected": r["expected"], "idx": idx, "plan": plan, "cfg": cs["cfg"]})
                for ci, cs in enumerate(cases):
                    for qi, qo in enumerate(cs["qs"]):
                        ids = [o["ids"] for o in qo["obs"] if o["kind"] == "ids"]
                        if (ci, qi) not in bad and ids and 0 < len(ids[0]) < len(idx["docs"]):
                            run.nontriv((wi, ci, qi))
                if wi == 0:
                    run.sample({"text": cases[0]["qs"][0]["text"], "expression": cases[0]["qs"][0]["e"],
                                "parser": cases[0]["parser"], "observations": cases[0]["qs"][0]["obs"]})
                total += nq
        finally:
            w.close()
    return total


def eshape(e):
    op = e["op"]
    if op in ("and", "or", "group"):
        return "%s(%s)" % (op, ",".join(eshape(k) for k in e["kids"]))
    if op in ("andnot", "andmaybe", "require"):
        return "%s(%s,%s)" % (op, eshape(e["a"]), eshape(e["b"]))
    if op in ("not", "boost", "fgroup"):
        return "%s(%s)" % (op, eshape(e["e"]))
    if op == "pm":
        return "pm(%s)" % ",".join(i["sign"] + eshape(i["e"]) for i in e["items"])
    return op


def totality(run, n_exh, n_rand, rand_len, n_edge):
    from whoosh.qparser import QueryParserError
    from whoosh.query import QueryError
    fd, path = tempfile.mkstemp(prefix="verif-qi-", suffix=".json")
    os.close(fd)
    try:
        res = tlc.run_tlc("QueryLangInputs", "QueryLangInputs.cfg", workers=1, seed=run.seed + 16,
                          env={"OUT_FILE": path, "N_EXH": n_exh, "N_RAND": n_rand, "RAND_LEN": rand_len, "N_EDGE": n_edge}, timeout=1800)
        run.add_tlc("QueryLangInputs", res)
        import json
        inp = json.load(open(path))
    finally:
        os.unlink(path)

    def concrete(sx):
        for k, v in SUBST.items():
            sx = sx.replace(k, v)
        return sx
    strings = sorted(set(concrete(x) for x in inp["exhaustive"] + inp["random"] + inp["deep"]))
    run.note("totality inputs from TLC: %d exhaustive (<= %d tokens of %d, and <= %d tokens in each grammar "
             "context), %d random (%d tokens)" % (len(inp["exhaustive"]), n_exh, len(inp["tokens"]), n_edge,
                                                   len(inp["random"]), rand_len))
    global _TOT_STRINGS, _TOT_IX
    _TOT_STRINGS = strings
    _TOT_IX = rich_index()        # built once, inherited by the forked workers
    names = sorted(totality_parsers(rich_schema()))
    import multiprocessing
    with multiprocessing.get_context("fork").Pool(min(16, len(names))) as pool:
        parts = pool.map(_totality_worker, names)
    outcomes = {}
    for part in parts:
        outcomes.update(part)
    run.count(len(strings) * len(names))
    obs = [{"kind": "outcome", "path": k[0], "parse": k[1], "search": k[2], "n": v["n"], "examples": v["examples"]}
           for k, v in sorted(outcomes.items())]
    dummy = {"op": "word", "f": "", "t": [1]}
    cases = [{"idx": {"docs": []}, "cfg": {"group": "and", "fields": ["body"], "multi": "or"},
              "qs": [{"e": dummy, "obs": [o]} for o in obs]}]
    res = _tlc_json(cases, "QueryLangCheck.cfg")
    run.add_tlc("QueryLang-outcomes", res)
    if res.distinct != len(obs):
        raise tlc.TLCError("QueryLangCheck evaluated %d of %d outcomes\n%s" % (res.distinct, len(obs), tlc.tail(res.stdout)))
    run.traces += len(obs)
    for r in res.tagged.get("REJECT", []):
        o = obs[r["qi"] - 1]
        run.violation({"check": "c16-totality", "parser": o["path"], "parse": o["parse"], "search": o["search"]},
                      {"count": o["n"], "examples": o["examples"]})
    run.extra["outcomes"] = [[o["path"], o["parse"], o["search"], o["n"]] for o in obs]


_TOT_STRINGS = []
_TOT_IX = None


def reconfigured(run):
    """A parser is its set of plug-ins, not the history that led to it: a parser that has already parsed
    something and is then reconfigured (remove_plugin by object / by class, add_plugin, replace_plugin) must
    parse every input like a parser freshly built with the same plug-ins."""
    from whoosh import qparser
    from whoosh.qparser import plugins as pl
    schema = rich_schema()

    def fresh():
        return qparser.QueryParser("body", schema)

    def by_obj(cls):
        def f(p):
            for x in [x for x in p.plugins if isinstance(x, cls)]:
                p.remove_plugin(x)
        return f
    scenarios = [
        ("remove_plugin(WildcardPlugin object)", by_obj(pl.WildcardPlugin), lambda p: p.remove_plugin_class(pl.WildcardPlugin)),
        ("remove_plugin(PhrasePlugin object)", by_obj(pl.PhrasePlugin), lambda p: p.remove_plugin_class(pl.PhrasePlugin)),
        ("remove_plugin(BoostPlugin object)", by_obj(pl.BoostPlugin), lambda p: p.remove_plugin_class(pl.BoostPlugin)),
        ("remove_plugin_class(RangePlugin)", lambda p: p.remove_plugin_class(pl.RangePlugin), lambda p: p.remove_plugin_class(pl.RangePlugin)),
        ("add_plugin(FuzzyTermPlugin)", lambda p: p.add_plugin(pl.FuzzyTermPlugin()), lambda p: p.add_plugin(pl.FuzzyTermPlugin())),
        ("add_plugin(GtLtPlugin)", lambda p: p.add_plugin(pl.GtLtPlugin()), lambda p: p.add_plugin(pl.GtLtPlugin())),
        ("replace_plugin(OperatorsPlugin(And=&&))", lambda p: p.replace_plugin(pl.OperatorsPlugin(And="&&")),
         lambda p: p.replace_plugin(pl.OperatorsPlugin(And="&&"))),
        # (removing a plug-in and adding it again moves it to the end of the list, which may reorder plug-ins of
        # equal priority: not compared with a fresh parser - the order of equals is nowhere specified)
    ]
    strings = _TOT_STRINGS[::max(1, len(_TOT_STRINGS) // 700)]

    def outcome(p, text):
        try:
            return repr(p.parse(text))
        except Exception as ex:
            return "raised " + type(ex).__name__
    for name, change, build in scenarios:
        used = fresh()
        for warm in (u"a* AND \"a b\"^2 [a TO b]", u"title:(a OR b) c~"):
            outcome(used, warm)
        change(used)
        ref = fresh()
        build(ref)
        bad = []
        for text in strings:
            a, b = outcome(used, text), outcome(ref, text)
            if a != b:
                bad.append({"text": text, "reconfigured": a[:200], "fresh": b[:200]})
        run.count(len(strings))
        if bad:
            run.violation({"check": "c16-reconfigured", "scenario": name}, {"count": len(bad), "examples": bad[:3]})
        else:
            run.nontriv(("reconfigured", name))


def _totality_worker(pname):
    """All input strings through one parser configuration (one process per configuration)."""
    from whoosh.qparser import QueryParserError
    from whoosh.query import QueryError
    ix = _TOT_IX
    outcomes = {}
    with ix.searcher() as s:
        parser = totality_parsers(ix.schema)[pname]()
        for text in _TOT_STRINGS:
            try:
                q = parser.parse(text)
                pr = "query"
            except QueryParserError:
                q, pr = None, "QueryParserError"
            except Exception as ex:
                q, pr = None, type(ex).__name__
            sr = "none"
            if q is not None:
                try:
                    s.search(q, limit=3)
                    sr = "ok"
                except QueryError:
                    sr = "QueryError"
                except Exception as ex:
                    sr = type(ex).__name__
            key = (pname, pr, sr)
            rec = outcomes.get(key)
            if rec is None:
                outcomes[key] = {"n": 1, "examples": [text]}
            else:
                rec["n"] += 1
                if len(rec["examples"]) < 3 or (len(text) < len(rec["examples"][-1])):
                    rec["examples"] = sorted(rec["examples"] + [text], key=len)[:3]
    return outcomes


def check(run):
    quick = run.tier == "quick"
    rng = random.Random(run.seed + 1616)
    run.rule = ("semantic: random expression trees rendered by TLC (QueryLang!Render) -> parsed by every parser "
                "configuration speaking that part of the language -> searched on random multi-segment indexes -> "
                "documents judged by TLC against Denote(Meaning(tree)); totality: every string of <= N tokens of the "
                "alphabet in QueryLangInputs.tla plus random longer ones x 13 parser configurations, parse and "
                "search outcomes judged by TLC; non-trivial = accepted expression selecting some but not all documents")
    semantic(run, rng, 3 if quick else 30, 25 if quick else 40)
    if quick:
        totality(run, 2, 1500, 5, 1)
    else:
        totality(run, 3, 20000, 6, 2)
    reconfigured(run)


def replay(run, rp):
    raise NotImplementedError
