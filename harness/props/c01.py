"""C01 - search returns exactly the documents that satisfy the query.
Spec: QuerySem.tla (Denote); binding: QueryCheck.tla judges observations of
every access path over real indexes built through real writers."""
import random

from harness import world, qobs

LEVEL = "model_checking"
PATHS = ("docs_for_query", "query.docs", "unlimited", "limited", "unscored", "sorted", "terms")


def build_cases(run, rng, nworlds, nqueries, ndocs=(3, 7), depth=2, nletters=2, blocklimit=None,
                paths=PATHS, scored_only=False, ops=None, storage=None, cmp="members", limits=(1, 2, 3),
                kinds=None, alt=False, qgen=None, maxtoks=5, worldgen=None, plangen=None):
    cases, meta = [], []
    for wi in range(nworlds):
        n = rng.randrange(ndocs[0], ndocs[1] + 1)
        adocs = {"k%d" % i: world.rand_doc(rng, nletters=nletters, boosts=(wi % 3 == 2), maxtoks=maxtoks) for i in range(n)}
        if worldgen:
            adocs, qgen = worldgen(rng, n)
        plan = plangen(rng, adocs) if plangen else world.rand_plan(rng, adocs.keys())
        wcfg = {"storage": storage or rng.choice(["ram", "file"]),
                "blocklimit": blocklimit if blocklimit else rng.choice([None, 1, 2, 3]), "compound": rng.random() < 0.7}
        w = world.World(adocs, plan, **wcfg)
        try:
            from whoosh import scoring
            with w.ix.searcher(weighting=scoring.Frequency()) as s:
                idx = w.abstract_index(s.reader())
                qs = []
                for qi in range(nqueries):
                    aq = qgen(rng) if qgen else world.rand_query(rng, rng.randrange(0, depth + 1), nletters=nletters,
                                                                 scored_only=scored_only, ops=ops)
                    q = world.to_query(aq)
                    obs = qobs.obs_paths(s, q, paths, limits=limits, cmp=cmp, alt=alt, aq=aq)
                    if kinds:
                        obs = [o for o in obs if o["kind"] in kinds]
                    qs.append({"q": aq, "obs": obs})
                    run.count(len(obs))
                cases.append({"idx": idx, "qs": qs})
                meta.append({"plan": plan, "nseg": len(s.reader().leaf_readers()),
                             "deleted": sum(1 for d in idx["docs"] if not d["live"]), "world": wcfg,
                             "paths": list(paths), "limits": list(limits), "cmp": cmp})
        finally:
            w.close()
    return cases, meta


EXTRA_CLASSES = {}


def _rename_op(q, old, new):
    if isinstance(q, dict):
        return dict((k, (new if (k == "op" and v == old) else _rename_op(v, old, new))) for k, v in q.items())
    if isinstance(q, list):
        return [_rename_op(x, old, new) for x in q]
    return q


def classify(run, cases, meta, rejects):
    """Attach a 'class' to rejects that are instances of a recorded finding.
    Every class is decided by a precise criterion, never by query shape alone."""
    classes = {}
    # (1) fuzzy over a single segment behaves as plain Levenshtein: re-judge the
    # same observations against the spec with the fuzzy distance swapped.
    fz = sorted(set((ci, qi) for ci, qi, oi, exp in rejects
                    if "fuzzy" in qobs.ops_of(cases[ci]["qs"][qi]["q"])))
    if fz:
        alt = [{"idx": cases[ci]["idx"],
                "qs": [{"q": _rename_op(cases[ci]["qs"][qi]["q"], "fuzzy", "fuzzylev"),
                        "obs": cases[ci]["qs"][qi]["obs"]}]} for ci, qi in fz]
        rej2 = set((r[0], r[2]) for r in qobs.judge(run, alt, name="QueryCheck-fuzzylev"))
        pos = dict((k, n) for n, k in enumerate(fz))
        for ci, qi, oi, exp in rejects:
            if (ci, qi) in pos and (pos[(ci, qi)], oi) not in rej2:
                classes[(ci, qi, oi)] = "fuzzy-single-segment-levenshtein"
    # (2) len(results) of a limited search undercounts although the unlimited
    # count of the same query was accepted
    for ci, qi, oi, exp in rejects:
        o = cases[ci]["qs"][qi]["obs"][oi]
        if (ci, qi, oi) in classes:
            continue
        if o["kind"] == "count" and "limit=" in o["path"] and "limit=None" not in o["path"] \
                and "sortedby" not in o["path"] and o["n"] < exp.get("n", 0):
            others = [r for r in rejects if r[0] == ci and r[1] == qi and r[2] != oi
                      and not (cases[ci]["qs"][qi]["obs"][r[2]]["kind"] == "count"
                               and "limit=" in cases[ci]["qs"][qi]["obs"][r[2]]["path"])]
            if not others:
                classes[(ci, qi, oi)] = "limited-count-undercounts"
    # (3) a limited search loses hits because WrappingMatcher.replace() hands its threshold
    # unscaled to the child: the same search with that one method corrected gives exactly
    # what the specification expects
    for ci, qi, oi, exp in rejects:
        o = cases[ci]["qs"][qi]["obs"][oi]
        if (ci, qi, oi) not in classes and o["kind"] == "ranked" and "alt" in o \
                and [list(h) for h in exp.get("hits", [])] == o["alt"] and o["alt"] != o["hits"]:
            classes[(ci, qi, oi)] = "wrapping-replace-unscaled"
    # ... the same for the matched terms of a limited search (a pruned branch no longer reports its term)
    # and for the scores of its hits (a pruned branch no longer adds its part)
    mt = [(ci, qi, oi) for ci, qi, oi, exp in rejects if (ci, qi, oi) not in classes
          and cases[ci]["qs"][qi]["obs"][oi]["kind"] in ("matchedterms", "scoresub")
          and "alt" in cases[ci]["qs"][qi]["obs"][oi]
          and cases[ci]["qs"][qi]["obs"][oi]["alt"] != cases[ci]["qs"][qi]["obs"][oi]["hits"]]
    if mt:
        acases = [{"idx": cases[ci]["idx"], "qs": [{"q": cases[ci]["qs"][qi]["q"], "obs": [
            dict(cases[ci]["qs"][qi]["obs"][oi], hits=cases[ci]["qs"][qi]["obs"][oi]["alt"])]}]} for ci, qi, oi in mt]
        bad = set(r[0] for r in qobs.judge(run, acases, name="QueryCheck-alt"))
        for n, key in enumerate(mt):
            if n not in bad:
                classes[key] = "wrapping-replace-unscaled"
    return classes


def report(run, pid, cases, meta, rejects, check):
    bad = set()
    classes = classify(run, cases, meta, rejects) if rejects else {}
    for ci, qi, oi, exp in rejects:
        cs = cases[ci]
        qo = cs["qs"][qi]
        o = qo["obs"][oi]
        bad.add((ci, qi))
        sig = {"check": check, "path": o.get("path"), "kind": o["kind"], "shape": qobs.shape(qo["q"]),
               "ops": sorted(qobs.ops_of(qo["q"])), "err": o.get("err", ""),
               "deletions": meta[ci]["deleted"] > 0, "multiseg": meta[ci]["nseg"] > 1}
        cl = classes.get((ci, qi)) or classes.get((ci, qi, oi)) or EXTRA_CLASSES.get((ci, qi, oi))
        if cl:
            sig["class"] = cl
        run.violation(sig, {"idx": cs["idx"], "plan": meta[ci]["plan"], "q": qo["q"], "obs": o, "expected": exp,
                            "world": meta[ci].get("world"), "paths": meta[ci].get("paths"),
                            "limits": meta[ci].get("limits"), "cmp": meta[ci].get("cmp")})
    for ci, cs in enumerate(cases):
        for qi, qo in enumerate(cs["qs"]):
            if (ci, qi) not in bad:
                # non-trivial: the query matches something but not everything
                ids = [o.get("ids", o.get("hits")) for o in qo["obs"]
                       if o["kind"] == "ids" or (o["kind"] == "ranked" and o["k"] == 0)]
                if ids and 0 < len(ids[0]) < len(cs["idx"]["docs"]):
                    run.nontriv((ci, qi, qobs.shape(qo["q"])))
    if cases:
        run.sample({"query": cases[0]["qs"][0]["q"], "observations": cases[0]["qs"][0]["obs"][:3],
                    "index_docs": len(cases[0]["idx"]["docs"]), "history": meta[0]["plan"]})


def big_cases(run, rng, nworlds, cmp="members", paths=("docs_for_query", "query.docs", "unlimited", "unscored")):
    """One large, sparse segment (more than one 2048-document window of the array-based union matcher):
    a few dozen documents carry terms, the rest are empty."""
    from whoosh import scoring
    cases, meta = [], []
    for wi in range(nworlds):
        n = rng.randrange(2100, 4700)
        carriers = set(rng.sample(range(n), rng.randrange(12, 50)))
        if wi % 2 == 0:
            # postings placed around the window boundaries: a first window, an empty stretch after its end,
            # the next posting, and postings close to the end of the window that starts there
            c0, g = rng.randrange(0, 100), rng.randrange(100, 600)
            p = c0 + 2048 + g
            n = p + 2048 + rng.randrange(1, 200)
            carriers = set([c0, p, rng.randrange(p + 2048 - g + 1, p + 2048), p + 2047]
                           + rng.sample(range(c0 + 1, c0 + 2048), 8) + rng.sample(range(p + 1, p + 2048 - g), 6))
        adocs = {}
        for i in range(n):
            d = {"t": {}, "n": {}, "b4": 4}
            if i in carriers:
                d["t"]["body"] = [[rng.randrange(1, 4)] for _ in range(rng.randrange(1, 3))]
            adocs["k%d" % i] = d
        plan = [("commit", ["k%d" % i for i in range(n)], {"merge": False})]
        w = world.World(adocs, plan, storage="ram")
        try:
            with w.ix.searcher(weighting=scoring.Frequency()) as s:
                idx = w.abstract_index(s.reader())
                qs = []
                T = lambda c: {"op": "term", "f": "body", "t": [c], "b4": 4}
                for aq in ({"op": "or", "kids": [T(1), T(2), T(3)], "b4": 4},
                           {"op": "or", "kids": [T(3), T(1), T(2), T(1)], "b4": 4},
                           {"op": "or", "kids": [T(1), T(2), T(3)], "b4": 4, "mtype": 1},
                           {"op": "prefix", "f": "body", "t": [rng.randrange(1, 4)], "b4": 4},
                           {"op": "wildcard", "f": "body", "t": [-1], "b4": 4},
                           {"op": "andnot", "a": {"op": "or", "kids": [T(1), T(2), T(3)], "b4": 4}, "b": T(2)}):
                    q = world.to_query(aq)
                    obs = qobs.obs_paths(s, q, paths, cmp=cmp)
                    qs.append({"q": aq, "obs": obs})
                    run.count(len(obs))
                cases.append({"idx": idx, "qs": qs})
                meta.append({"plan": [["commit", "%d documents" % n]], "nseg": 1, "deleted": 0})
        finally:
            w.close()
    return cases, meta


def replay_world(run, rp, check):
    """Re-executes a recorded (index, query, access path) on the current tree and has TLC judge it again.
    Used by the properties whose observations are QueryCheck observations over harness.world indexes."""
    p = rp["payload"]
    if not p.get("world") or any(isinstance(st[1], str) for st in p["plan"]):
        raise NotImplementedError("this replay file carries no re-executable index description")
    from whoosh import scoring
    adocs = dict((d["key"], {"t": d["t"], "n": d["n"], "b4": d.get("b4", 4)}) for d in p["idx"]["docs"])
    w = world.World(adocs, [tuple(st) for st in p["plan"]], **p["world"])
    try:
        with w.ix.searcher(weighting=scoring.Frequency()) as s:
            idx = w.abstract_index(s.reader())
            obs = qobs.obs_paths(s, world.to_query(p["q"]), tuple(p.get("paths") or PATHS),
                                 limits=tuple(p.get("limits") or (1, 2, 3)), cmp=p.get("cmp") or "members", alt=True)
            obs = [o for o in obs if o.get("path") == p["obs"].get("path")] or obs
            run.count(len(obs))
            cases = [{"idx": idx, "qs": [{"q": p["q"], "obs": obs}]}]
            meta = [{"plan": p["plan"], "nseg": len(s.reader().leaf_readers()),
                     "deleted": sum(1 for d in idx["docs"] if not d["live"]), "world": p["world"],
                     "paths": p.get("paths"), "limits": p.get("limits"), "cmp": p.get("cmp")}]
    finally:
        w.close()
    rejects = qobs.judge(run, cases)
    report(run, run.pid, cases, meta, rejects, check)


def near_phrase_world(rng, n):
    """Documents written around one phrase: its words in order with the middle word repeated and a varying
    number of other tokens (or removed stop words) in between, also reversed or with a word missing - so that
    the distances lie on both sides of every slop.  Queries: the phrase and its parts with slop 1..3, as
    Phrase, Sequence and nested span queries."""
    f = rng.choice(world.TEXT_FIELDS)
    pool = [[1], [2], [1, 2], [2, 1], [1, 1], [2, 2]]
    words = rng.sample(pool, 3) if rng.random() < 0.8 else [pool[0], pool[1], pool[0]]
    others = [t for t in pool if t not in words] or [[2, 2]]
    filler = lambda: [0] if rng.random() < 0.25 else rng.choice(others)
    adocs = {}
    for i in range(n):
        toks = []
        seq = list(words)
        if rng.random() < 0.2:
            seq.reverse()
        if rng.random() < 0.15:
            seq.pop(rng.randrange(len(seq)))
        for wi, w in enumerate(seq):
            reps = rng.choice([1, 1, 2, 3]) if 0 < wi < len(seq) - 1 else rng.choice([1, 1, 1, 2])
            for r in range(reps):
                toks.append(w)
                if r + 1 < reps and rng.random() < 0.3:
                    toks.append(filler())
            if wi + 1 < len(seq):
                toks += [filler() for _ in range(rng.choice([0, 0, 1, 1, 2, 3]))]
        d = world.rand_doc(rng)
        d["t"][f] = toks[:10]
        adocs["k%d" % i] = d

    def qgen(r):
        c = r.random()
        slop = r.choice([1, 2, 2, 3])
        term = lambda w: {"op": "term", "f": f, "t": w, "b4": 4}
        if c < 0.4:
            return {"op": "phrase", "f": f, "words": list(words), "slop": slop, "b4": 4}
        if c < 0.55:
            i = r.randrange(0, 2)
            return {"op": "phrase", "f": f, "words": words[i:i + 2], "slop": slop, "b4": 4}
        if c < 0.7:
            return {"op": "sequence", "kids": [term(w) for w in words], "slop": slop, "ordered": r.random() < 0.7}
        if c < 0.85:
            return {"op": "spannear2", "kids": [term(w) for w in words], "slop": slop, "ordered": r.random() < 0.7,
                    "mindist": r.choice([1, 1, 0, 2])}
        return {"op": "spannear", "a": {"op": "spannear", "a": term(words[0]), "b": term(words[1]), "slop": slop,
                                        "ordered": True, "mindist": 1},
                "b": term(words[2]), "slop": r.choice([1, 2, 3]), "ordered": r.random() < 0.7, "mindist": 1}
    return adocs, qgen


def negation_world(rng, n):
    """Most documents contain the negated term, a good part of them gets deleted (unmerged): the inverse
    matcher has to step over matches and deleted documents that follow one another."""
    t = world.rand_term(rng)
    f = rng.choice(world.TEXT_FIELDS)
    adocs = {}
    for i in range(n):
        d = world.rand_doc(rng)
        if rng.random() < 0.7:
            d["t"][f] = d["t"].get(f, []) + [t]
        adocs["k%d" % i] = d

    def qgen(r):
        term = {"op": "term", "f": f, "t": t, "b4": 4}
        other = {"op": "term", "f": r.choice(world.TEXT_FIELDS), "t": world.rand_term(r), "b4": 4}
        form = r.choice(["not", "andnot-every", "and-not", "or-not", "andnot"])
        if form == "not":
            return {"op": "not", "q": term}
        if form == "andnot-every":
            return {"op": "andnot", "a": {"op": "every", "f": "", "b4": 4}, "b": term}
        if form == "andnot":
            return {"op": "andnot", "a": other, "b": term}
        return {"op": "and" if form == "and-not" else "or", "kids": [other, {"op": "not", "q": term}], "b4": 4}
    return adocs, qgen


def negation_plan(rng, adocs):
    ks = sorted(adocs)
    cut = rng.randrange(1, len(ks))
    parts = [ks] if rng.random() < 0.5 else [ks[:cut], ks[cut:]]
    plan = [("commit", p, {"merge": False}) for p in parts]
    plan.append(("delete", rng.sample(ks, max(1, len(ks) * 2 // 5))))
    return plan


def check(run):
    quick = run.tier == "quick"
    rng = random.Random(run.seed + 101)
    run.rule = ("random commit/merge/delete histories x random query trees; every access path observed and "
                "judged by TLC against QuerySem!Denote; non-trivial = accepted (index, query) whose result "
                "set is neither empty nor everything")
    cases, meta = build_cases(run, rng, 30 if quick else 120, 25 if quick else 40)
    rejects = qobs.judge(run, cases)
    report(run, "C01", cases, meta, rejects, "c01")
    # span queries (positional constraints): documents with more tokens, so that spans nest and overlap
    cases, meta = build_cases(run, rng, 10 if quick else 100, 25 if quick else 40, ndocs=(3, 8), maxtoks=8,
                              qgen=lambda r: world.rand_span_query(r, r.randrange(1, 4)))
    rejects = qobs.judge(run, cases, name="QueryCheck-spans")
    report(run, "C01", cases, meta, rejects, "c01-spans")
    # negations over segments with unmerged deletions
    cases, meta = build_cases(run, rng, 8 if quick else 60, 10 if quick else 16, ndocs=(8, 16), worldgen=negation_world,
                              plangen=negation_plan)
    rejects = qobs.judge(run, cases, name="QueryCheck-negation")
    report(run, "C01", cases, meta, rejects, "c01-negation")
    # phrases and spans at the edge of their slop
    cases, meta = build_cases(run, rng, 8 if quick else 80, 16 if quick else 24, ndocs=(4, 9), worldgen=near_phrase_world)
    rejects = qobs.judge(run, cases, name="QueryCheck-nearphrase")
    report(run, "C01", cases, meta, rejects, "c01-nearphrase")
    # terms that start with letters beyond the basic plane (and with an accented one): open-ended term ranges,
    # prefixes and patterns over them
    def astral(r):
        if r.random() < 0.4:
            # a range that is open at the top (or at the bottom), starting anywhere in the alphabet
            lo = world.rand_term(r, 6, 2)
            q = {"op": "termrange", "f": r.choice(world.TEXT_FIELDS), "lo": lo, "hi": lo, "haslo": True, "hashi": False,
                 "loexcl": r.random() < 0.3, "hiexcl": False, "b4": 4}
            if r.random() < 0.25:
                q.update(haslo=False, hashi=True)
            return q if r.random() < 0.7 else {"op": "not", "q": q}
        return world.rand_query(r, r.randrange(0, 2), nletters=6,
                                ops=["term", "termrange", "prefix", "wildcard", "regex", "and", "or", "not", "andnot"])
    cases, meta = build_cases(run, rng, 4 if quick else 40, 16 if quick else 24, ndocs=(5, 10), nletters=6, qgen=astral)
    rejects = qobs.judge(run, cases, name="QueryCheck-astral")
    report(run, "C01", cases, meta, rejects, "c01-astral")
    # nested (parent / child) queries
    # (Query.docs() evaluates over the whole index at once, where "the parent before a document" can lie in
    # another segment; documents without a parent in their own segment only exist in generated data, so
    # that path is left out rather than given a meaning)
    cases, meta = build_cases(run, rng, 8 if quick else 80, 20 if quick else 30, ndocs=(4, 10),
                              paths=tuple(x for x in PATHS if x != "query.docs"),
                              qgen=lambda r: world.rand_nested_query(r))
    rejects = qobs.judge(run, cases, name="QueryCheck-nested")
    report(run, "C01", cases, meta, rejects, "c01-nested")
    # ... on indexes that have the shape the nested queries are meant for (groups of a parent and its children)
    cases, meta = build_cases(run, rng, 5 if quick else 50, 12 if quick else 20, ndocs=(6, 16),
                              paths=tuple(x for x in PATHS if x != "query.docs"),
                              worldgen=lambda r, n: (world.family_docs(r, n), world.family_query))
    rejects = qobs.judge(run, cases, name="QueryCheck-families")
    report(run, "C01", cases, meta, rejects, "c01-families")
    cases, meta = big_cases(run, rng, 2 if quick else 12)
    rejects = qobs.judge(run, cases, name="QueryCheck-large", chunk=2)
    report(run, "C01", cases, meta, rejects, "c01-large")


def replay(run, rp):
    replay_world(run, rp, rp["sig"].get("check", "c01"))
