"""C07 - deletes, updates and cancel have exact, durable semantics.
Spec: IndexStore.tla - content[g] = (content[g-1] \\ dels) u adds at the commit point
(the dictionary model), DeleteCount for the values delete_by_* return, cancel / failing
with-block = WUnlock without rename (content untouched), ProbeOK for every reader.
Binding: long random histories over successive writers, probing after every commit through
every read API named in the property; traces validated by IndexStoreTrace.tla."""
import random

from harness import ixdriver, ixcommon

LEVEL = "model_checking"


def _force_unlock(wr):
    try:
        if getattr(wr, "writelock", None) is not None:
            wr.writelock.release()
    except Exception:
        pass


def history(rng, wld, nsteps, keys):
    from whoosh import query, fields
    searchers = []
    extra_fields = 0
    dupseq = [0]
    dupkeys = set()
    for step in range(nsteps):
        name, wr = wld.writer()
        pool = list(keys)
        rng.shuffle(pool)
        used_uids = set()      # key discipline also for the second unique field: once per writer
        # schema changes come first (documented: not after data was added to the writer)
        sc = rng.random()
        wld.actor(name)
        pending_fields = extra_fields          # takes effect only if this writer commits
        pend_dup, pend_undup = set(), set()
        if sc < 0.15 and extra_fields < 2:
            pending_fields = extra_fields + 1
            wld.guarded(name, "add_field", lambda: wr.add_field("extra%d" % pending_fields, fields.KEYWORD(stored=True)))
        elif sc < 0.25 and extra_fields > 0:
            wld.guarded(name, "remove_field", lambda: wr.remove_field("extra%d" % extra_fields))
            pending_fields = extra_fields - 1
        elif sc < 0.31 and extra_fields > 0:
            # the same name removed and added again (as another type) by one writer: no net change in names
            wld.guarded(name, "remove_field", lambda: wr.remove_field("extra%d" % extra_fields))
            wld.guarded(name, "add_field", lambda: wr.add_field("extra%d" % extra_fields, fields.ID(stored=True)))
        elif sc < 0.37 and extra_fields < 2:
            # a field added and removed again by one writer
            wld.guarded(name, "add_field", lambda: wr.add_field("extra%d" % (extra_fields + 1), fields.KEYWORD(stored=True)))
            wld.guarded(name, "remove_field", lambda: wr.remove_field("extra%d" % (extra_fields + 1)))
        for _ in range(rng.randrange(0, 5)):
            if not pool:
                break
            op = rng.random()
            k = pool.pop()
            wld.actor(name)
            # a key that has coexisting documents (added with add_document) is only deleted, not updated:
            # what update_document does to several documents with one "unique" value is not specified
            if k in dupkeys and op < 0.42:
                op = 0.45
            if op < 0.35:
                # second unique field: sometimes supplied, with values that collide across keys
                uid = rng.choice([0, 0, 1, 2, 3, 4]) if getattr(wld, "use_uid", False) else 0
                if uid in used_uids:
                    uid = 0
                used_uids.add(uid)
                wld.log.emit("api", op="update", key=k, uid=uid)
                wld.actor(name)
                kw = {"uid": uid} if uid else {}
                kw["tags"] = u" ".join(rng.sample([u"ta", u"tb", u"tc"], rng.randrange(0, 4)))
                wr.update_document(key=k, body=u"xx %s" % k, n=len(k) + step, **kw)
            elif op < 0.42:
                # a plain add_document of a key that may already be live (no uniqueness is enforced):
                # the documents coexist until a delete or update selects them all
                dupseq[0] += 1
                pend_dup.add(k)
                uid = 1000 + dupseq[0]
                wld.log.emit("api", op="adddup", key=k, uid=uid)
                wld.actor(name)
                wr.add_document(key=k, uid=uid, body=u"xx %s" % k, n=len(k) + step)
            elif op < 0.5:
                ret = wr.delete_by_term("key", k)
                pend_undup.add(k)
                wld.log.emit("api", op="deletemany", keys=[k], ret=int(ret))
            elif op < 0.65:
                ks = [k] + ([pool.pop()] if pool else [])
                q = query.Or([query.Term("key", x) for x in ks])
                ret = wr.delete_by_query(q)
                pend_undup.update(ks)
                wld.log.emit("api", op="deletemany", keys=ks, ret=int(ret))
            elif op < 0.75:
                # delete by document number: find the committed document carrying k, if any
                with wr.searcher() as s:
                    dns = list(s.document_numbers(key=k))       # (several when the key was added twice)
                if dns and rng.random() < 0.25:
                    # ... deleted by number and restored again in the same session (delete=False): no change
                    wld.actor(name)

                    def there_and_back():
                        for dn in dns:
                            wr.delete_document(dn)
                        for dn in dns:
                            wr.delete_document(dn, delete=False)
                    wld.guarded(name, "delete_document(delete=False)", there_and_back)
                elif dns:
                    wld.actor(name)
                    pend_undup.add(k)
                    for dn in dns:
                        wr.delete_document(dn)
                    wld.log.emit("api", op="deletemany", keys=[k], ret=-1)
        wld.actor(name)
        end = rng.random()
        if end < 0.12:
            # (an exception from cancel() is a violation, not a driver failure; the lock is released for the
            # rest of the history either way)
            ok, _ = wld.guarded(name, "cancel", wr.cancel)
            if not ok:
                _force_unlock(wr)
        elif end < 0.2:
            ok, _ = wld.guarded(name, "with-block", lambda: ixcommon.failing_block(wr, rng))
            if not ok:
                _force_unlock(wr)
        elif end < 0.45:
            wr.commit(merge=False)
            extra_fields = pending_fields
            dupkeys.difference_update(pend_undup)
            dupkeys.update(pend_dup)
        elif end < 0.6:
            wr.commit(optimize=True)
            extra_fields = pending_fields
            dupkeys.difference_update(pend_undup)
            dupkeys.update(pend_dup)
        else:
            wr.commit()
            extra_fields = pending_fields
            dupkeys.difference_update(pend_undup)
            dupkeys.update(pend_dup)
        rname = wld.new_reader_name()
        ok, s = wld.guarded(rname, "searcher", wld.reader_handle().searcher)
        if ok:
            wld.probe(rname, s)
            if rng.random() < 0.3:
                searchers.append((rname, s))
            else:
                s.close()
        for i, (nm, s) in enumerate(list(searchers)):
            wld.probe(nm, s)
            if rng.random() < 0.4:
                # a long-lived searcher that is refreshed instead of reopened
                nm2 = wld.new_reader_name()
                ok, s2 = wld.guarded(nm2, "refresh", s.refresh)
                if ok and s2 is not s:
                    searchers[i] = (nm2, s2)
                    wld.probe(nm2, s2)
    for nm, s in searchers:
        s.close()


def prelude(wld, keys):
    """A directed opening: one segment whose documents share sparse terms in an interleaved pattern, then an
    update that supersedes a document in the middle of it without merging (the old version stays in the
    segment, deleted).  Conjunctions must not see the superseded version."""
    plan = [u"ta", u"tb", u"ta tb", u"ta tb", u"tc", u"ta tc", u"tb tc"]
    name, wr = wld.writer()
    for k, tg in zip(keys, plan):
        wld.actor(name)
        wld.log.emit("api", op="update", key=k, uid=0)
        wr.update_document(key=k, body=u"xx %s" % k, n=1, tags=tg)
    wld.actor(name)
    wr.commit(merge=False)
    for victim in (keys[2], keys[5]):
        name, wr = wld.writer()
        wld.actor(name)
        wld.log.emit("api", op="update", key=victim, uid=0)
        wr.update_document(key=victim, body=u"xx %s" % victim, n=2, tags=u"")
        wld.actor(name)
        wr.commit(merge=False)
        rname = wld.new_reader_name()
        ok, s = wld.guarded(rname, "searcher", wld.reader_handle().searcher)
        if ok:
            wld.probe(rname, s)
            s.close()


def prelude_emptied(wld, keys):
    """A directed opening: every document is deleted and the index optimized (which can leave a segment
    without documents at the head of the segment list), then documents arrive in two unmerged commits; the
    history that follows deletes and updates by key and by document number."""
    def put(ks, **kw):
        name, wr = wld.writer()
        for k in ks:
            wld.actor(name)
            wld.log.emit("api", op="update", key=k, uid=0)
            wr.update_document(key=k, body=u"xx %s" % k, n=1)
        wld.actor(name)
        wr.commit(**kw)
    put(keys[:4])
    name, wr = wld.writer()
    for k in keys[:4]:
        wld.actor(name)
        ret = wr.delete_by_term("key", k)
        wld.log.emit("api", op="deletemany", keys=[k], ret=int(ret))
    wld.actor(name)
    wr.commit(optimize=True)
    put(keys[:3], merge=False)
    put(keys[3:5], merge=False)
    rname = wld.new_reader_name()
    ok, s = wld.guarded(rname, "searcher", wld.reader_handle().searcher)
    if ok:
        wld.probe(rname, s)
        s.close()


def check(run):
    quick = run.tier == "quick"
    rng = random.Random(run.seed + 707)
    run.rule = ("random histories of update/delete_by_term/delete_by_query/delete_document/add_field/remove_field "
                "with commit (default, merge=False, optimize), cancel and failing with-blocks over successive "
                "writers (key discipline: each key at most once per writer), file/RAM, compound on/off; after every "
                "commit the live keys through 9 read paths, doc_count, has_deletions and the values delete_by_* "
                "returned are judged by IndexStoreTrace.tla; non-trivial = accepted trace with >=2 commits")
    ixcommon.model_check(run, "IndexStoreMC_small.cfg" if quick else "IndexStoreMC.cfg", "IndexStoreMC")
    items = []
    for i in range(20 if quick else 200):
        cfg = {"storage": rng.choice(["file", "ram"]), "compound": rng.random() < 0.7, "reopen": i % 3 == 1}
        seed = rng.randrange(1 << 30)
        w = ixdriver.IxWorld(**cfg)
        w.rich_probe = True
        w.use_uid = (i % 2 == 1)
        try:
            if i % 4 == 0:
                prelude(w, ["k%d" % j for j in range(7)])
            elif i % 4 == 2:
                prelude_emptied(w, ["k%d" % j for j in range(7)])
            history(random.Random(seed), w, 8 if quick else 25, ["k%d" % j for j in range(7)])
            t = w.trace()
            run.count(len(t))
            items.append({"trace": t, "writers": w.writers, "readers": w.readers, "cfg": cfg, "seed": seed})
        finally:
            w.close()
    rejects = ixcommon.validate(run, items)
    ixcommon.report(run, "c07", items, rejects)


def replay(run, rp):
    raise NotImplementedError
