"""C15 - query rewriting never changes what a query means.
Spec: QuerySem!Denote of the ORIGINAL query is the oracle for what every rewritten form
(normalize, & | -, with_boost, replace of an absent term, apply/accept identity, deepcopy,
pickle, simplify) matches on real indexes; idempotence / never-raises / estimate_size are
recorded as facts and bounds.  Judged by QueryCheck.tla."""
import copy
import pickle
import random

from harness import world, qobs, patches
from harness.props import c01

LEVEL = "model_checking"
# fuzzy expansion has its own property (C19) and a recorded finding there
NOFUZZY = ["term", "every", "null", "prefix", "wildcard", "regex", "termrange", "numrange", "phrase", "and", "or",
           "dismax", "andnot", "andmaybe", "require", "not", "const"]


import os
DEBUG = bool(os.environ.get('VERIF_DEBUG'))
ALTS = [("and-absorbs-fielded-every", patches.and_keeps_clauses_next_to_fielded_every),
        ("and-of-nested-ranges-keeps-outer", patches.nested_ranges_intersect_to_inner),
        ("and-range-intersection-unsound-for-multivalued-fields", patches.and_does_not_merge_ranges),
        ("and-normalize-both-findings", patches.and_normalize_every_and_ranges)]


def range_compound(rng, numeric=None, ops=("or", "or", "and", "dismax")):
    """And/Or of 2-3 ranges over one field with end points from a tiny pool: overlapping,
    nested, touching (inclusive/exclusive on either side), duplicate and empty ranges."""
    if numeric is None:
        numeric = rng.random() < 0.4
    kids = []
    for _ in range(rng.choice([2, 2, 3])):
        if numeric:
            lo, hi = sorted([rng.randrange(-1, 4), rng.randrange(-1, 4)])
            kids.append({"op": "numrange", "f": "num", "lo": lo, "hi": hi, "haslo": rng.random() < 0.85,
                         "hashi": rng.random() < 0.85, "loexcl": rng.random() < 0.5, "hiexcl": rng.random() < 0.5,
                         "b4": 4})
        else:
            pool = [[1], [1, 2], [2], [2, 1]]
            lo, hi = sorted([rng.choice(pool), rng.choice(pool)])
            kids.append({"op": "termrange", "f": "body", "lo": lo, "hi": hi, "haslo": rng.random() < 0.85,
                         "hashi": rng.random() < 0.85, "loexcl": rng.random() < 0.5, "hiexcl": rng.random() < 0.5,
                         "b4": 4})
    if rng.random() < 0.3:
        kids.append(world.rand_query(rng, 0, ops=["term"]))
    rng.shuffle(kids)
    return {"op": rng.choice(list(ops)), "kids": kids, "b4": 4}


def wide_ranges(rng):
    """Or / DisjunctionMax of 3-4 term ranges with end points from a pool of seven words: which ranges overlap
    depends on what has been merged before (a clause passed over may overlap the merged range)"""
    pool = [[1], [1, 1], [1, 2], [2], [2, 1], [2, 2], [3]]
    kids = []
    spans = [sorted(rng.sample(range(len(pool)), 2)) for _ in range(rng.choice([3, 3, 4]))]
    if rng.random() < 0.6:
        # the first range does not reach the second, the third bridges them (in this order)
        a1, c1, a2, b1, c2, b2 = sorted(rng.sample(range(len(pool)), 6))
        spans = [[a1, a2], [b1, b2], [c1, c2]] + spans[3:]
    for i, j in spans:
        kids.append({"op": "termrange", "f": "body", "lo": pool[i], "hi": pool[j], "haslo": True, "hashi": True,
                     "loexcl": rng.random() < 0.2, "hiexcl": rng.random() < 0.2, "b4": 4})
    return {"op": rng.choice(["or", "or", "dismax"]), "kids": kids, "b4": 4}


def swapped_twins(rng):
    """two positional queries of one class that differ only in the order of their operands, side by side in one
    compound (they are different queries: duplicate elimination must keep both)"""
    f = rng.choice(world.TEXT_FIELDS)
    # (two different common words, so that some document has them in one order only)
    ta, tb = rng.choice([([1], [2]), ([2], [1]), ([1], [1, 2]), ([2], [2, 1]), ([1, 2], [2])])
    a = {"op": "term", "f": f, "t": ta, "b4": 4}
    b = {"op": "term", "f": f, "t": tb, "b4": 4}
    kind = rng.choice(["spannear", "spannear", "spanbefore", "spancontains", "spannot", "spancond", "sequence"])
    if kind == "spannear":
        mk = lambda x, y: {"op": "spannear", "a": x, "b": y, "slop": rng.choice([1, 2]), "ordered": True, "mindist": 1}
        sl = mk(a, b)
        tw = dict(sl, a=b, b=a)
    elif kind == "sequence":
        sl = {"op": "sequence", "kids": [a, b], "slop": 1, "ordered": True}
        tw = dict(sl, kids=[b, a])
    else:
        sl = {"op": kind, "a": a, "b": b}
        tw = {"op": kind, "a": b, "b": a}
    return {"op": rng.choice(["or", "or", "and"]), "kids": [sl, tw], "b4": 4}


def rewrites(s, q, q2, aq, aq2):
    """[(label, abstract query whose Denote is the oracle, callable producing the rewritten query)]"""
    from whoosh import query
    out = [
        ("normalize", aq, lambda: q.normalize()),
        ("normalize.normalize", aq, lambda: q.normalize().normalize()),
        ("and-operator", {"op": "and", "kids": [aq, aq2], "b4": 4}, lambda: q & q2),
        ("or-operator", {"op": "or", "kids": [aq, aq2], "b4": 4}, lambda: q | q2),
        ("sub-operator", {"op": "andnot", "a": aq, "b": aq2}, lambda: q - q2),
        ("with_boost", aq, lambda: q.with_boost(2.0)),
        ("replace-absent", aq, lambda: q.replace("body", u"zzz-not-a-term", u"yyy")),
        # a (field, text) pair is absent as long as the field differs, whatever clause carries the text
        ("replace-same-text-in-another-field", aq, lambda: _replace_elsewhere(q)),
        ("apply-identity", aq, lambda: q.apply(lambda x: x)),
        ("accept-identity", aq, lambda: q.accept(lambda x: x)),
        ("deepcopy", aq, lambda: copy.deepcopy(q)),
        ("pickle", aq, lambda: pickle.loads(pickle.dumps(q, 2))),
        ("simplify", aq, lambda: q.simplify(s.reader())),
        # (a wrapper that carries an attribute next to its child must come through the generic rewrites)
        ("weightingquery.with_boost", aq, lambda: _wq(q).with_boost(2.0)),
        ("weightingquery.apply-identity", aq, lambda: _wq(q).apply(lambda x: x)),
        ("weightingquery.accept-identity", aq, lambda: _wq(q).accept(lambda x: x)),
        ("parser-roundtrip-normalize", aq, lambda: q.normalize().normalize()),
    ]
    return out


def _wq(q):
    from whoosh import query, scoring
    return query.WeightingQuery(q, scoring.Frequency())


def _replace_elsewhere(q):
    texts = sorted(set(t for _, t in q.iter_all_terms())) if hasattr(q, "iter_all_terms") else []
    for t in texts[:4]:
        q = q.replace("no_such_field", t, u"yyy")
    return q


def check(run):
    quick = run.tier == "quick"
    rng = random.Random(run.seed + 1515)
    run.rule = ("random query trees over all public query types (empty compounds, Null, Every, duplicates, nested "
                "same-type compounds with boosts, overlapping ranges) x random multi-segment indexes; the documents "
                "matched by 13 rewritten forms are judged by TLC against QuerySem!Denote of the original; "
                "idempotence/no-exception/estimate_size recorded; non-trivial = result neither empty nor everything")
    cases, meta = [], []
    nworlds, nq = (10, 25) if quick else (100, 40)
    for wi in range(nworlds):
        n = rng.randrange(3, 8)
        adocs = {"k%d" % i: world.rand_doc(rng) for i in range(n)}
        # documents that hold two common words in one order only (what tells two positional queries with swapped
        # operands apart)
        for j, toks in enumerate(rng.sample([[[1], [2]], [[2], [1]], [[2], [1, 2]], [[1, 2], [2]], [[1], [1, 2]]], 3)):
            adocs["o%d" % j] = {"t": {"body": toks, "title": toks}, "n": {}, "b4": 4}
        plan = world.rand_plan(rng, adocs.keys())
        w = world.World(adocs, plan, storage="ram")
        try:
            with w.ix.searcher() as s:
                idx = w.abstract_index(s.reader())
                qs = []
                for qi in range(nq):
                    aq = world.rand_query(rng, rng.randrange(0, 3), ops=NOFUZZY) if rng.random() < 0.7 \
                        else range_compound(rng)
                    if qi % 6 in (0, 1) and rng.random() < 0.5:
                        # "the documents without a value in field f" next to a positive clause (and the other forms in
                        # which a fielded Every stands where it must not be taken for "everything")
                        ev = {"op": "every", "f": rng.choice(world.TEXT_FIELDS + ("num",)), "b4": 4}
                        x = world.rand_query(rng, rng.randrange(0, 2), ops=NOFUZZY) if rng.random() < 0.5 \
                            else {"op": "every", "f": "", "b4": 4}
                        aq = rng.choice([{"op": "andnot", "a": x, "b": ev}, {"op": "andnot", "a": x, "b": ev},
                                         {"op": "and", "kids": [x, {"op": "not", "q": ev}], "b4": 4},
                                         {"op": "andmaybe", "a": x, "b": ev}, {"op": "require", "a": x, "b": ev}])
                    if qi % 6 in (2, 3) and rng.random() < 0.8:
                        # conjunctions of numeric ranges (nested, overlapping, touching) / swapped positional twins
                        aq = rng.choice([lambda: range_compound(rng, numeric=True, ops=("and", "and", "or")),
                                         lambda: swapped_twins(rng), lambda: swapped_twins(rng),
                                         lambda: wide_ranges(rng)])()
                    if qi % 6 == 5:
                        aq = world.rand_span_query(rng, rng.randrange(1, 3))      # positional (span) queries
                    elif qi % 6 == 4:
                        # compounds that carry attributes besides their clauses
                        f = rng.choice(world.TEXT_FIELDS)
                        terms = [world.rand_term(rng) for _ in range(rng.randrange(2, 4))]
                        # (mostly words that do occur near one another in some document, in either order)
                        cands = [d["t"][f] for d in adocs.values() if len([t for t in d["t"].get(f, []) if t != [0]]) >= 2]
                        if cands and rng.random() < 0.8:
                            toks = [t for t in rng.choice(cands) if t != [0]]
                            i = rng.randrange(0, len(toks) - 1)
                            terms = toks[i:i + rng.randrange(2, 4)]
                            if rng.random() < 0.5:
                                terms = terms[::-1]
                        aq = {"op": "sequence", "kids": [{"op": "term", "f": f, "t": list(t), "b4": 4} for t in terms],
                              "slop": rng.choice([2, 3, 4]), "ordered": rng.random() < 0.5}
                        if rng.random() < 0.5:
                            # ... next to a sibling that differs in nothing but such an attribute
                            twin = dict(aq)
                            if rng.random() < 0.5:
                                twin["ordered"] = not aq["ordered"]
                            else:
                                twin["slop"] = 1
                            kids = [aq, twin] if rng.random() < 0.5 else [twin, aq]
                            aq = {"op": rng.choice(["or", "and"]), "kids": kids, "b4": 4}
                    elif qi % 6 == 2 and rng.random() < 0.6:
                        # an expanding term clause (at distance 0 it is the term itself) next to ordinary ones
                        f = rng.choice(world.TEXT_FIELDS)
                        fz = {"op": "fuzzy", "f": f, "t": world.rand_term(rng), "maxdist": 0, "prefix": 0, "b4": 4}
                        aq = {"op": rng.choice(["and", "or"]), "kids": [fz, world.rand_query(rng, 0, ops=NOFUZZY)], "b4": 4} \
                            if rng.random() < 0.6 else fz
                        if rng.random() < 0.4:
                            # two expanding clauses that differ in one attribute only (a one-letter word: its
                            # neighbours at distance 1 are the same with and without transpositions)
                            a1 = {"op": "fuzzy", "f": f, "t": [rng.randrange(1, 3)], "maxdist": 1, "prefix": 0, "b4": 4}
                            a2 = dict(a1, prefix=1) if rng.random() < 0.6 else dict(a1, maxdist=0)
                            kids = [a1, a2] if rng.random() < 0.5 else [a2, a1]
                            aq = {"op": rng.choice(["and", "or", "dismax"]), "kids": kids, "b4": 4}
                    elif qi % 6 == 3 and rng.random() < 0.6:
                        aq = world.rand_nested_query(rng)       # parent / child queries (wrap a query and a parent set)
                    aq2 = world.rand_query(rng, rng.randrange(0, 2), ops=NOFUZZY)
                    q, q2 = world.to_query(aq), world.to_query(aq2)
                    repr0 = repr(q)
                    groups = {}
                    for label, oracle, fn in rewrites(s, q, q2, aq, aq2):
                        key = repr(sorted(oracle.items(), key=str)) if False else id(oracle) if oracle is aq else label
                        obs = groups.setdefault(key, {"q": oracle, "obs": []})["obs"]
                        try:
                            rq = fn()
                            ids = sorted(int(d) for d in s.docs_for_query(rq))
                            o = {"kind": "ids", "path": label, "ids": ids, "rq": repr(rq)[:400]}
                            if DEBUG and label == "normalize":
                                again = sorted(int(d) for d in s.docs_for_query(world.to_query(aq).normalize()))
                                if again != ids:
                                    print("DEBUG-NONDET", aq, ids, again, repr(q), repr(rq))
                            for cls, patch in ALTS:
                                try:
                                    with patch():
                                        o.setdefault("alts", {})[cls] = sorted(int(d) for d in s.docs_for_query(fn()))
                                except Exception:
                                    pass
                            obs.append(o)
                            if label == "normalize":
                                obs.append({"kind": "flag", "path": "normalize-idempotent",
                                            "value": bool(repr(rq.normalize()) == repr(rq) or rq.normalize() == rq)})
                                obs.append({"kind": "atleast", "path": "estimate_size",
                                            "n": int(q.estimate_size(s.reader()))})
                                oe = {"kind": "atleast", "path": "normalized.estimate_size",
                                      "n": int(rq.estimate_size(s.reader()))}
                                for cls, patch in ALTS:
                                    try:
                                        with patch():
                                            oe.setdefault("alts", {})[cls] = int(fn().estimate_size(s.reader()))
                                    except Exception:
                                        pass
                                obs.append(oe)
                        except Exception as ex:
                            obs.append({"kind": "error", "path": label, "err": type(ex).__name__, "msg": str(ex)[:150]})
                        run.count()
                    # rewriting returns new queries: the original is what it was (also after a replace() of a
                    # word it does contain)
                    try:
                        words = sorted(set(t for _, t in q.iter_all_terms())) if hasattr(q, "iter_all_terms") else []
                        for fname in world.TEXT_FIELDS:
                            for wd in words[:3]:
                                q.replace(fname, wd, u"zzz")
                        unchanged = repr(q) == repr0
                    except Exception as ex:
                        unchanged = "raised %s" % type(ex).__name__
                    groups.setdefault(id(aq), {"q": aq, "obs": []})["obs"].append(
                        {"kind": "flag", "path": "original-unchanged-by-rewriting", "value": unchanged is True,
                         "detail": str(unchanged)})
                    qs.extend(groups.values())
                # queries on column values inside compounds: rewriting keeps them (equal ones once) and never raises
                from whoosh import query as _q
                cond = lambda v: v > 3
                flags = []
                for label, mkq, want in (
                        ("And([ColumnQuery, Term]).normalize() keeps both clauses",
                         lambda: _q.And([_q.ColumnQuery("num", 1), _q.Term("body", u"a")]).normalize(), 2),
                        ("Or of one ColumnQuery twice normalizes to it",
                         lambda: _q.Or([_q.ColumnQuery("num", 1), _q.ColumnQuery("num", 1)]).normalize(), 0),
                        ("Or of two different ColumnQuery conditions keeps both",
                         lambda: _q.Or([_q.ColumnQuery("num", 1), _q.ColumnQuery("num", 2), _q.ColumnQuery("num", cond),
                                        _q.ColumnQuery("num", cond)]).normalize(), 3),
                        ("ColumnQuery & Term, ColumnQuery | Term, Term - ColumnQuery",
                         lambda: _q.And([(_q.ColumnQuery("num", 1) & _q.Term("body", u"a")),
                                         (_q.ColumnQuery("num", 1) | _q.Term("body", u"a")),
                                         (_q.Term("body", u"a") - _q.ColumnQuery("num", 1))]), 3)):
                    try:
                        r = mkq()
                        n = len(r.subqueries) if hasattr(r, "subqueries") else 0
                        flags.append({"kind": "flag", "path": label, "value": n == want, "detail": repr(r)[:160]})
                    except Exception as ex:
                        flags.append({"kind": "error", "path": label, "err": type(ex).__name__, "msg": str(ex)[:100]})
                if wi == 0:
                    qs.append({"q": {"op": "null"}, "obs": flags})
                cases.append({"idx": idx, "qs": qs})
                meta.append({"plan": plan, "nseg": len(s.reader().leaf_readers()),
                             "deleted": sum(1 for d in idx["docs"] if not d["live"])})
        finally:
            w.close()
    rejects = qobs.judge(run, cases)
    # recorded finding: the identical rewrite with And.normalize() corrected gives what the spec expects
    extra = {}
    for ci, qi, oi, exp in rejects:
        o = cases[ci]["qs"][qi]["obs"][oi]
        if o["kind"] == "atleast":
            for cls, _ in ALTS:
                alt = o.get("alts", {}).get(cls)
                if alt is not None and alt >= exp.get("n", 1 << 60) and alt != o["n"]:
                    extra[(ci, qi, oi)] = cls
                    break
        if o["kind"] == "ids":
            for cls, _ in ALTS:
                alt = o.get("alts", {}).get(cls)
                if alt is not None and alt == list(exp.get("ids", [None])) and alt != o["ids"]:
                    extra[(ci, qi, oi)] = cls
                    break
    c01.EXTRA_CLASSES = extra
    c01.report(run, "C15", cases, meta, rejects, "c15")
    c01.EXTRA_CLASSES = {}


def replay(run, rp):
    raise NotImplementedError
