"""C05 - limiting a search to the top N never changes which hits win or their scores.
Exact regime: QuerySem!TopK is the oracle (scoring.Frequency, dyadic boosts, small
posting blocks so that block skipping and matcher replacement engage).
Rank regime: every shipped weighting; limit=k must be the prefix of the code's own
limit=None ranking, judged by TLC on rank-interned scores (QueryCheck 'prefix')."""
import random

from harness import world, qobs
from harness.props import c01

LEVEL = "model_checking"
# fuzzy expansion is the subject of C19 (and of a recorded finding there)
NOFUZZY = ["term", "every", "null", "prefix", "wildcard", "regex", "termrange", "numrange", "phrase", "and", "or",
           "dismax", "andnot", "andmaybe", "require", "not", "const"]


def check(run):
    quick = run.tier == "quick"
    rng = random.Random(run.seed + 505)
    run.rule = ("random multi-segment indexes with blocklimit 1..3 x random scored query trees x limits 1..6; "
                "hits (documents, scores, order) judged by TLC against QuerySem!TopK; non-trivial = accepted case "
                "whose result set is neither empty nor everything; Collector.tla model-checked (threshold soundness, "
                "exact top-K, exact count) and every step of traced real collections (collect / threshold handed to "
                "replace and skip_to_quality / final ranking / len) validated by CollectorTrace.tla")
    cases, meta = c01.build_cases(run, rng, 14 if quick else 150, 30 if quick else 40, ndocs=(6, 14), depth=3,
                                  paths=("unlimited", "limited", "terms"), scored_only=True, cmp="full", kinds=("ranked", "error", "matchedterms"), ops=NOFUZZY, alt=True,
                                  limits=(1, 2, 3, 4, 6))
    # the rewrite chain Union -> AndMaybe -> Intersection of replace(): unions and optional clauses over
    # terms only, more documents, small limits, so that replacements happen repeatedly within one search
    c2, m2 = c01.build_cases(run, rng, 10 if quick else 100, 30 if quick else 40, ndocs=(10, 20), depth=3,
                             paths=("unlimited", "limited", "terms"), scored_only=True, cmp="full",
                             kinds=("ranked", "error", "matchedterms"), ops=["term", "every", "or", "andmaybe", "and"], alt=True,
                             limits=(1, 2, 3, 4))
    cases += c2
    meta += m2
    # stepped posting lists (see C12): frequencies that jump between runs of documents, one term everywhere,
    # one in every 2nd/3rd document, a sparse third one - conjunctions, optional and excluded clauses over them,
    # small limits, so that the collector skips by quality across misaligned blocks
    from harness.props import c12
    c3, m3 = c01.build_cases(run, rng, 6 if quick else 60, 14 if quick else 20, ndocs=(14, 30), blocklimit=None,
                             paths=("unlimited", "limited"), scored_only=True, cmp="full", kinds=("ranked", "error"),
                             alt=True, limits=(1, 2, 3, 5), storage="ram",
                             worldgen=lambda r, n: (c12.stepped_docs(r, n), lambda r2: _noscale(c12.stepped_query(r2))),
                             plangen=c12.stepped_plan)
    cases += c3
    meta += m3
    # every document holds all three terms of a conjunction (nested intersections moving inside blocks)
    c4, m4 = c01.build_cases(run, rng, 8 if quick else 60, 8 if quick else 12, ndocs=(12, 26), blocklimit=None,
                             paths=("unlimited", "limited"), scored_only=True, cmp="full", kinds=("ranked", "error"),
                             alt=True, limits=(1, 2, 3), storage="ram",
                             worldgen=lambda r, n: (c12.dense_docs(r, n), c12.dense_query), plangen=c12.stepped_plan)
    cases += c4
    meta += m4
    rejects = qobs.judge(run, cases)
    c01.report(run, "C05", cases, meta, rejects, "c05")
    rank_regime(run, rng, 6 if quick else 60, 12 if quick else 16)
    # the stepped lists under every weighting, with the coordination bonus (Or(scale=...) over low-weighted clauses:
    # the coordinated score of a document with both terms exceeds the union's own score)
    rank_regime(run, rng, 6 if quick else 40, 10, check="c05-rank-stepped", blocklimits=(1, 2, 3, 4),
                docgen=c12.stepped_docs, qgen=c12.stepped_query, plangen=c12.stepped_plan)
    # a term of a field that is not scorable (scored by its posting weight under every model, its bounds taken
    # from the term's statistics) beside scored clauses
    rank_regime(run, rng, 6 if quick else 40, 8, check="c05-rank-keyword", blocklimits=(1, 2, 3, 4),
                docgen=c12.stepped_docs, qgen=c12.kw_query, plangen=c12.stepped_plan)
    # positional queries (phrases with slop, span queries) over lists where the conjunction underneath holds
    # documents - and whole blocks - without a matching span: a limited search skips by quality *inside* the span
    # matcher
    rank_regime(run, rng, 10 if quick else 60, 8 if quick else 12, check="c05-rank-spans", blocklimits=(1, 2, 3, 4),
                docgen=lambda r, n: (c12.span_docs if r.random() < 0.7 else c12.stepped_docs)(r, n),
                qgen=c12.stepped_span_query, plangen=c12.stepped_plan)
    # the collector itself: design model (Collector.tla) and step-by-step validation of real collections
    from harness import coltrace, tlc
    for cfg in ("CollectorMC.cfg", "CollectorMC_collapse.cfg"):
        res = tlc.run_tlc("Collector", cfg, timeout=600)
        run.add_tlc("Collector/" + cfg, res)
        if res.violation:
            raise tlc.TLCError("Collector.tla: %s violated in the design model\n%s" % (res.violation, tlc.tail(res.stdout)))
    pr = coltrace.check_collectors(run, rng, 8 if quick else 80, 25, "c05-collector")
    if not pr:
        run.machinery("vacuity: no collector trace contains a threshold handed to the matcher")
    run.extra["optimisation_engaged"] = qobs.ENGAGED.copy()
    if not qobs.ENGAGED.get("skipped") and not qobs.ENGAGED.get("replaced"):
        run.machinery("vacuity: no limited search engaged block skipping or matcher replacement")


def _noscale(aq):
    """The exact regime has no coordination bonus (QuerySem gives an Or the sum of its matching clauses): the same
    query without `scale`; the scaled form is judged in the rank regime."""
    if isinstance(aq, dict):
        return dict((k, _noscale(v)) for k, v in aq.items() if k != "scale")
    if isinstance(aq, list):
        return [_noscale(x) for x in aq]
    return aq


def rank_weightings():
    from whoosh import scoring
    from harness.props import c09

    class Raised(scoring.BM25F):           # a final() hook that raises every score
        use_final = True

        def final(self, searcher, docnum, score):
            return score * 3.0 + 2.0

    class ByNumber(scoring.TF_IDF):        # a final() hook that depends on the document
        use_final = True

        def final(self, searcher, docnum, score):
            return score + (docnum % 3) * 1.5
    return c09.all_weightings() + [("BM25F+raising final", Raised()), ("TF_IDF+final(docnum)", ByNumber())]


def _intern(lists):
    """scores of several (doc, score) lists -> ranks (higher = better).  Values of *different* lists that agree
    within a relative 1e-9 get one rank (a rewritten matcher tree adds the same numbers up in another order); two
    different values of the first list - the exhaustive ranking - never do: the code orders that list by the exact
    floats, and two scores one bit apart are not a tie whose document order could be judged."""
    first = set(float(sc) for _, sc in lists[0]) if lists else set()
    vals = sorted(set(float(sc) for lst in lists for _, sc in lst))
    ranks, last, r, hasfirst = {}, None, 0, False
    for v in vals:
        near = last is not None and abs(v - last) <= 1e-9 * max(1.0, abs(v), abs(last))
        if not near or (v in first and hasfirst):
            r += 1
            hasfirst = False
        hasfirst = hasfirst or v in first
        ranks[v] = r
        last = v
    return [[[int(d), ranks[float(sc)]] for d, sc in lst] for lst in lists]


def rank_regime(run, rng, nworlds, nqueries, docgen=None, qgen=None, plangen=None, check="c05-rank",
                blocklimits=(1, 2, 3, None)):
    """Every weighting model (shipped ones, Multi/Function weightings, final() hooks): search(limit=k) is the
    prefix of the code's own search(limit=None), which lists exactly QuerySem's matching documents best first."""
    cases, meta = [], []
    for wi in range(nworlds):
        n = rng.randrange(8, 24)
        adocs = docgen(rng, n) if docgen else {"k%d" % i: world.rand_doc(rng, boosts=(wi % 2 == 1)) for i in range(n)}
        plan = plangen(rng, adocs) if plangen else world.rand_plan(rng, adocs.keys())
        wcfg = {"storage": "ram", "blocklimit": rng.choice(list(blocklimits))}
        w = world.World(adocs, plan, **wcfg)
        try:
            idx = None
            queries = [qgen(rng) if qgen else world.rand_query(rng, rng.randrange(0, 3), scored_only=True, ops=NOFUZZY)
                       for _ in range(nqueries)]
            qobs_by_q = [{"q": aq, "obs": []} for aq in queries]
            for wname, wobj in rng.sample(rank_weightings(), 4):
                with w.ix.searcher(weighting=wobj) as s:
                    if idx is None:
                        idx = w.abstract_index(s.reader())
                    for qi, aq in enumerate(queries):
                        q = world.to_query(aq)
                        try:
                            full = [(h.docnum, h.score) for h in s.search(q, limit=None)]
                            for k in rng.sample([1, 2, 3, 5, 8], 2):
                                hits = [(h.docnum, h.score) for h in s.search(q, limit=k)]
                                lists = [full, hits]
                                alt = None
                                try:
                                    with qobs.scaled_wrapping_replace():
                                        alt = [(h.docnum, h.score) for h in s.search(q, limit=k)]
                                    lists.append(alt)
                                except Exception:
                                    alt = None
                                il = _intern(lists)
                                o = {"kind": "topprefix", "path": "%s limit=%d" % (wname, k), "k": k, "full": il[0], "hits": il[1]}
                                if alt is not None and il[2] != il[1]:
                                    o["alt"] = il[2]
                                qobs_by_q[qi]["obs"].append(o)
                        except Exception as ex:
                            qobs_by_q[qi]["obs"].append({"kind": "error", "path": wname, "err": type(ex).__name__,
                                                         "msg": str(ex)[:120]})
                        run.count(2)
            cases.append({"idx": idx, "qs": qobs_by_q})
            meta.append({"plan": plan, "nseg": 0, "deleted": sum(1 for d in idx["docs"] if not d["live"]), "world": wcfg})
        finally:
            w.close()
    rejects = qobs.judge(run, cases, name="QueryCheck-rank")
    # recorded finding (WrappingMatcher.replace unscaled): recognised when the same limited search with that one
    # method corrected is the prefix of the exhaustive ranking
    extra = {}
    for ci, qi, oi, exp in rejects:
        o = cases[ci]["qs"][qi]["obs"][oi]
        if o["kind"] == "topprefix" and "alt" in o and o["alt"] == o["full"][:o["k"]]:
            extra[(ci, qi, oi)] = "wrapping-replace-unscaled"
    c01.EXTRA_CLASSES = extra
    c01.report(run, "C05", cases, meta, rejects, check)
    c01.EXTRA_CLASSES = {}


def replay(run, rp):
    c01.replay_world(run, rp, rp["sig"].get("check", "c05"))
