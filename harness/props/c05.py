"""C05 - limiting a search to the top N never changes which hits win or their scores.
Exact regime: QuerySem!TopK is the oracle (scoring.Frequency, dyadic boosts, small
posting blocks so that block skipping and matcher replacement engage).
Rank regime: every shipped weighting; limit=k must be the prefix of the code's own
limit=None ranking, judged by TLC on rank-interned scores (QueryCheck 'prefix')."""
import random

from harness import world, qobs
from harness.props import c01

LEVEL = "model_checking"
# fuzzy expansion is the subject of C19 (and of a recorded finding there)
NOFUZZY = ["term", "every", "null", "prefix", "wildcard", "termrange", "numrange", "phrase", "and", "or",
           "dismax", "andnot", "andmaybe", "require", "not", "const"]


def check(run):
    quick = run.tier == "quick"
    rng = random.Random(run.seed + 505)
    run.rule = ("random multi-segment indexes with blocklimit 1..3 x random scored query trees x limits 1..6; "
                "hits (documents, scores, order) judged by TLC against QuerySem!TopK; non-trivial = accepted case "
                "whose result set is neither empty nor everything; Collector.tla model-checked (threshold soundness, "
                "exact top-K, exact count) and every step of traced real collections (collect / threshold handed to "
                "replace and skip_to_quality / final ranking / len) validated by CollectorTrace.tla")
    cases, meta = c01.build_cases(run, rng, 14 if quick else 150, 30 if quick else 40, ndocs=(6, 14), depth=3,
                                  paths=("unlimited", "limited", "terms"), scored_only=True, cmp="full", kinds=("ranked", "error", "matchedterms"), ops=NOFUZZY, alt=True,
                                  limits=(1, 2, 3, 4, 6))
    # the rewrite chain Union -> AndMaybe -> Intersection of replace(): unions and optional clauses over
    # terms only, more documents, small limits, so that replacements happen repeatedly within one search
    c2, m2 = c01.build_cases(run, rng, 10 if quick else 100, 30 if quick else 40, ndocs=(10, 20), depth=3,
                             paths=("unlimited", "limited", "terms"), scored_only=True, cmp="full",
                             kinds=("ranked", "error", "matchedterms"), ops=["term", "every", "or", "andmaybe", "and"], alt=True,
                             limits=(1, 2, 3, 4))
    cases += c2
    meta += m2
    rejects = qobs.judge(run, cases)
    c01.report(run, "C05", cases, meta, rejects, "c05")
    # the collector itself: design model (Collector.tla) and step-by-step validation of real collections
    from harness import coltrace, tlc
    for cfg in ("CollectorMC.cfg", "CollectorMC_collapse.cfg"):
        res = tlc.run_tlc("Collector", cfg, timeout=600)
        run.add_tlc("Collector/" + cfg, res)
        if res.violation:
            raise tlc.TLCError("Collector.tla: %s violated in the design model\n%s" % (res.violation, tlc.tail(res.stdout)))
    pr = coltrace.check_collectors(run, rng, 8 if quick else 80, 25, "c05-collector")
    if not pr:
        run.machinery("vacuity: no collector trace contains a threshold handed to the matcher")
    run.extra["optimisation_engaged"] = qobs.ENGAGED.copy()
    if not qobs.ENGAGED.get("skipped") and not qobs.ENGAGED.get("replaced"):
        run.machinery("vacuity: no limited search engaged block skipping or matcher replacement")


def replay(run, rp):
    c01.replay_world(run, rp, rp["sig"].get("check", "c05"))
