"""C13 - numeric and date fields order and range-match exactly.
Spec: NumericTiers.tla (transcription of split_ranges, Coverage checked by TLC for every
(step, s, e) of a bit width); NumericTiersTrace.tla judges the sub-ranges the real function
returns; real NUMERIC/DATETIME range searches are judged by QuerySem!InRange over
rank-interned values (QueryCheck.tla); the order-isomorphism / round-trip / domain facts about
the sortable encoding are 'flag' observations."""
import datetime
import decimal
import random

from harness import tlc, qobs, traces as tr

LEVEL = "model_checking"


def split_cases(rng, quick):
    from whoosh.util.numeric import split_ranges
    cases = []
    # 8 bits: every step, every interval (thorough) / a boundary-biased sample (quick)
    pairs = [(s, e) for s in range(256) for e in range(s, 256)]
    if quick:
        hot = [0, 1, 2, 15, 16, 17, 127, 128, 129, 239, 240, 241, 254, 255]
        pairs = [(s, e) for s in hot for e in hot if s <= e] + rng.sample(pairs, 300)
    for step in range(1, 9):
        for s, e in pairs:
            cases.append({"bits": 8, "step": step, "s": s, "e": e,
                          "ranges": [list(r) for r in split_ranges(8, step, s, e)]})
    for bits in (16, 24):      # (TLC integers are 32-bit; wider domains are covered by the field searches)
        top = 2 ** bits - 1
        hot = [0, 1, 2, 255, 256, 2 ** (bits - 1) - 1, 2 ** (bits - 1), 2 ** (bits - 1) + 1, top - 300, top - 1, top]
        for _ in range(150 if quick else 3000):
            s = rng.choice(hot) if rng.random() < 0.5 else rng.randrange(0, top + 1)
            e = rng.choice(hot) if rng.random() < 0.5 else rng.randrange(0, top + 1)
            if s > e:
                s, e = e, s
            step = rng.randrange(1, 9)
            cases.append({"bits": bits, "step": step, "s": s, "e": e,
                          "ranges": [list(r) for r in split_ranges(bits, step, s, e)]})
    return cases


def okey(v):
    """Key of the domain's total order (floats: -0.0 directly below 0.0)."""
    import math
    if isinstance(v, float):
        return (v, 0 if math.copysign(1.0, v) < 0 else 1)
    return (v, 1)


def field_configs():
    from whoosh import fields
    D = decimal.Decimal
    dt = datetime.datetime
    cfgs = []
    for bits in (8, 16, 32, 64):
        for signed in (True, False):
            lo = -(2 ** (bits - 1)) if signed else 0
            hi = 2 ** (bits - 1) - 1 if signed else 2 ** bits - 1
            pool = sorted(set([lo, lo + 1, lo + 2, lo + 15, lo + 16, lo + 17, -1 if signed else 1, 0, 1, 2, 3, 5, 7,
                               hi - 17, hi - 16, hi - 15, hi - 2, hi - 1, hi, hi // 2, lo // 2 if signed else 9]))
            pool = [v for v in pool if lo <= v <= hi]
            cfgs.append(("int%d%s" % (bits, "s" if signed else "u"),
                         lambda step, bits=bits, signed=signed: fields.NUMERIC(int, bits=bits, signed=signed, shift_step=step, stored=True),
                         pool, [lo - 1, hi + 1]))
    fpool = [float("-inf"), -1e308, -3.5, -1.0, -5e-324, -0.0, 0.0, 5e-324, 2.2250738585072014e-308, 1.0, 1.5, 3.5, 1e308,
             float("inf")]
    cfgs.append(("float64", lambda step: fields.NUMERIC(float, bits=64, shift_step=step, stored=True), fpool, []))
    dpool = [D("-99.99"), D("-1.50"), D("-0.01"), D("0.00"), D("0.01"), D("0.50"), D("1.49"), D("1.50"), D("99.99")]
    cfgs.append(("decimal2", lambda step: fields.NUMERIC(int, bits=32, decimal_places=2, shift_step=step, stored=True), dpool, []))
    tpool = [dt(1, 1, 1), dt(1, 1, 1, 0, 0, 0, 1), dt(1969, 12, 31, 23, 59, 59, 999999), dt(1970, 1, 1),
             dt(1999, 12, 31, 23, 59, 59, 999998), dt(1999, 12, 31, 23, 59, 59, 999999), dt(2000, 1, 1),
             dt(2000, 1, 1, 0, 0, 0, 1), dt(2024, 2, 29, 12, 0, 0, 500000), dt(9999, 12, 31, 23, 59, 59, 999999)]
    cfgs.append(("datetime", lambda step: fields.DATETIME(stored=True), tpool, []))
    return cfgs


def _numtext(v):
    """the text a user types for the number v"""
    if isinstance(v, float):
        return repr(v)
    if hasattr(v, "microsecond"):
        # a fully specified date: YYYYMMDDhhmmssuuuuuu (an instant, so that exclusive bounds have one meaning)
        return u"%04d%02d%02d%02d%02d%02d%06d" % (v.year, v.month, v.day, v.hour, v.minute, v.second, v.microsecond)
    return str(v)


def field_cases(run, rng, quick):
    """Real indexes over each field configuration; range searches judged by QuerySem on ranks."""
    from whoosh import fields, query
    from whoosh.filedb.filestore import RamStorage
    cases, metas, flags = [], [], []
    for name, mk, pool, outside in field_configs():
        steps = [0, 4, 3, 7] if quick else [0, 1, 2, 3, 4, 5, 6, 7, 8]
        if name == "datetime":
            steps = [4]
        for step in steps:
            ftype = mk(step)
            schema = fields.Schema(key=fields.ID(stored=True), num=ftype)
            ix = RamStorage().create_index(schema)
            docs = []
            try:
                w = ix.writer()
                for i in range(min(len(pool) + 4, 16)):
                    v = rng.choice(pool)
                    docs.append(v)
                    w.add_document(key=u"d%d" % i, num=v)
                w.add_document(key=u"none")           # a document without a value
                w.commit()
                # a second segment
                w = ix.writer()
                for i in range(4):
                    v = rng.choice(pool)
                    docs.append(v)
                    w.add_document(key=u"e%d" % i, num=v)
                w.commit(merge=False)
            except Exception as ex:
                # every value of the pool is in the field's documented domain: indexing it must not fail
                try:
                    w.cancel()
                except Exception:
                    pass
                cases.append({"idx": {"docs": []}, "qs": [{"q": {"op": "null"}, "obs": [
                    {"kind": "error", "path": "%s/step%d indexing %r" % (name, step, docs[-1] if docs else None),
                     "err": type(ex).__name__, "msg": str(ex)[:120]}]}]})
                metas.append({"plan": [name, step], "nseg": 0, "deleted": 0})
                continue
            # facts about the encoding (flags)
            try:
                sortable = [ftype.to_bytes(v) for v in pool]
                # total order of the domain: -0.0 sorts directly below 0.0
                mono = all((okey(a) < okey(b)) == (sa < sb) for (a, sa) in zip(pool, sortable) for (b, sb) in zip(pool, sortable))
                back = all(okey(ftype.from_bytes(ftype.to_bytes(v))) == okey(v) for v in pool)
                why = ""
            except Exception as ex:
                mono, back, why = False, False, " (%s: %s)" % (type(ex).__name__, str(ex)[:80])
            flags.append(({"kind": "flag", "path": "%s/step%d: to_bytes order-isomorphic on the pool" % (name, step), "value": bool(mono), "why": why}))
            flags.append(({"kind": "flag", "path": "%s/step%d: from_bytes(to_bytes(v)) == v" % (name, step), "value": bool(back)}))
            for v in outside:
                rejected = False
                try:
                    ftype.to_bytes(v)
                except Exception:
                    rejected = True
                flags.append({"kind": "flag", "path": "%s/step%d: value %r outside the domain is rejected at indexing" % (name, step, v),
                              "value": rejected})
                try:
                    q = query.NumericRange("num", v, None)
                    with ix.searcher() as s:
                        n = len(list(s.docs_for_query(q)))
                    rejected = False
                except Exception:
                    rejected = True
                flags.append({"kind": "flag", "path": "%s/step%d: bound %r outside the domain is rejected at query time" % (name, step, v),
                              "value": rejected})
            # range queries on ranks
            with ix.searcher() as s:
                rd = s.reader()
                universe = sorted(set(okey(v) for v in pool))
                rank = dict((k, 2 * i + 1) for i, k in enumerate(universe))       # odd ranks: pool values
                unkey = dict((okey(v), v) for v in pool)
                adocs = []
                for dn in range(rd.doc_count_all()):
                    st = rd.stored_fields(dn)
                    adocs.append({"live": True, "t": {}, "n": {"num": [rank[okey(st["num"])]] if "num" in st else []}, "b4": 4})
                idx = {"docs": adocs}
                qs = []
                for _ in range(12 if quick else 60):
                    ka, kb = rng.choice(universe), rng.choice(universe)
                    if rng.random() < 0.2:
                        kb = ka           # a one-point interval (empty when a bound is exclusive)
                    if ka > kb:
                        ka, kb = kb, ka
                    a, b = unkey[ka], unkey[kb]
                    haslo, hashi = rng.random() < 0.8, rng.random() < 0.8
                    loex, hiex = rng.random() < 0.4, rng.random() < 0.4
                    aq = {"op": "numrange", "f": "num", "lo": rank[ka], "hi": rank[kb], "haslo": haslo, "hashi": hashi,
                          "loexcl": loex, "hiexcl": hiex, "b4": 4}
                    cls = query.DateRange if name == "datetime" else query.NumericRange
                    q = cls("num", a if haslo else None, b if hashi else None, startexcl=loex, endexcl=hiex)
                    obs = []
                    try:
                        obs.append({"kind": "ids", "path": "%s/step%d %s" % (name, step, cls.__name__),
                                    "ids": sorted(int(d) for d in s.docs_for_query(q))})
                        # the same interval as the query parser hands it to the field (FieldType.parse_range)
                        if True:
                            q2 = ftype.parse_range("num", _numtext(a) if haslo else None, _numtext(b) if hashi else None,
                                                   loex, hiex)
                            if q2 is not None:
                                obs.append({"kind": "ids", "path": "%s/step%d parse_range" % (name, step),
                                            "ids": sorted(int(d) for d in s.docs_for_query(q2))})
                        # sorting by the field must follow the same order (values present)
                        r = s.search(q, limit=None, sortedby="num") if getattr(ftype, "sortable", False) else None
                    except Exception as ex:
                        obs.append({"kind": "error", "path": "%s/step%d" % (name, step), "err": type(ex).__name__, "msg": str(ex)[:120]})
                    run.count()
                    qs.append({"q": aq, "obs": obs})
                cases.append({"idx": idx, "qs": qs})
                metas.append({"plan": [name, step], "nseg": 2, "deleted": 0})
    # one query object asked of two indexes whose field of that name differs in one attribute only (signedness,
    # width, precision step): what it selects depends on the index it is asked of, not on where it was asked before
    for bits in (8, 16, 32):
        top = (1 << (bits - 1)) - 1
        pool = sorted(set([0, 1, 2, 5, 10, 100, top - 1, top, top // 2]))
        variants = [fields.NUMERIC(int, bits=bits, signed=True), fields.NUMERIC(int, bits=bits, signed=False),
                    fields.NUMERIC(int, bits=bits, signed=True, shift_step=0 if bits > 8 else 3),
                    fields.NUMERIC(int, bits=64, signed=True)]
        rng.shuffle(variants)
        worlds = []
        for ftype in variants:
            ix = RamStorage().create_index(fields.Schema(key=fields.ID(stored=True), num=ftype))
            w = ix.writer()
            vals = [rng.choice(pool) for _ in range(10)]
            for i, v in enumerate(vals):
                w.add_document(key=u"d%d" % i, num=v)
            w.commit()
            worlds.append((ix, vals))
        rank = dict((v, 2 * i + 1) for i, v in enumerate(pool))
        shared = []
        for _ in range(6 if quick else 20):
            a, b = sorted([rng.choice(pool), rng.choice(pool)])
            loex, hiex = rng.random() < 0.3, rng.random() < 0.3
            shared.append((query.NumericRange("num", a, b, startexcl=loex, endexcl=hiex),
                           {"op": "numrange", "f": "num", "lo": rank[a], "hi": rank[b], "haslo": True, "hashi": True,
                            "loexcl": loex, "hiexcl": hiex, "b4": 4}))
        for wi, (ix, vals) in enumerate(worlds):
            with ix.searcher() as s:
                idx = {"docs": [{"live": True, "t": {}, "n": {"num": [rank[v]]}, "b4": 4} for v in vals]}
                qs = []
                for q, aq in shared:
                    obs = []
                    try:
                        obs.append({"kind": "ids", "path": "%d-bit: a NumericRange object asked of index %d of %d with differently declared fields"
                                    % (bits, wi + 1, len(worlds)), "ids": sorted(int(d) for d in s.docs_for_query(q))})
                        obs.append({"kind": "atleast", "path": "estimate_size of the shared range object",
                                    "n": int(q.estimate_size(s.reader()))})
                    except Exception as ex:
                        obs.append({"kind": "error", "path": "shared NumericRange", "err": type(ex).__name__, "msg": str(ex)[:120]})
                    run.count()
                    qs.append({"q": aq, "obs": obs})
                cases.append({"idx": idx, "qs": qs})
                metas.append({"plan": ["shared-range-object", bits], "nseg": 1, "deleted": 0})
    return cases, metas, flags


def _period(text):
    """[first instant, last instant] of the period a partial date text YYYY[MM[DD[hh[mm[ss]]]]] names"""
    import calendar
    dt = datetime.datetime
    y = int(text[0:4])
    parts = [int(text[i:i + 2]) for i in range(4, len(text), 2)]
    lo = [y, 1, 1, 0, 0, 0, 0]
    hi = [y, 12, 31, 23, 59, 59, 999999]
    for i, v in enumerate(parts):
        lo[1 + i] = hi[1 + i] = v
    if len(parts) < 2:
        hi[2] = calendar.monthrange(y, hi[1])[1]
    return dt(*lo), dt(*hi)


def partial_date_cases(run, rng, quick):
    """DATETIME ranges typed as partial dates: a partial date names a period; an inclusive bound takes the period
    in, an exclusive bound leaves the whole period out.  Judged by QuerySem!InRange on ranks of instants."""
    from whoosh import fields, qparser
    from whoosh.filedb.filestore import RamStorage
    dt = datetime.datetime
    cases, metas = [], []
    pool = [dt(1900, 2, 28, 23, 59, 59, 999999), dt(1900, 3, 1), dt(1999, 12, 31, 23, 59, 59, 999999), dt(2000, 1, 1),
            dt(2000, 2, 28, 12), dt(2000, 2, 29), dt(2000, 2, 29, 23, 59, 59, 999999), dt(2000, 3, 1),
            dt(2000, 12, 31, 23, 59, 59, 999999), dt(2001, 1, 1), dt(2001, 2, 28, 23, 59, 59), dt(2001, 3, 1),
            dt(2009, 6, 15, 10, 30), dt(2010, 1, 1), dt(2010, 12, 31, 23, 59, 59, 999999), dt(2011, 1, 1),
            dt(2024, 2, 29, 0, 0, 0), dt(2024, 2, 29, 23, 59, 59, 999999), dt(2024, 3, 1), dt(2100, 2, 28, 23, 59, 59, 999999),
            dt(2100, 3, 1)]
    texts = ["1900", "190002", "2000", "200002", "20000229", "2000022923", "200012", "2001", "200102", "2009", "200906",
             "20090615", "2009061510", "200906151030", "2010", "201001", "201012", "2011", "2024", "202402", "20240229",
             "210002", "2100", "20001231235959"]
    for wi in range(2 if quick else 8):
        ftype = fields.DATETIME(stored=True)
        schema = fields.Schema(key=fields.ID(stored=True), num=ftype)
        ix = RamStorage().create_index(schema)
        for part in (pool[::2], pool[1::2]):
            w = ix.writer()
            for i, v in enumerate(part):
                w.add_document(key=u"d%d" % i, num=v)
            w.commit(merge=False)
        parser = qparser.QueryParser("key", schema)
        with ix.searcher() as s:
            rd = s.reader()
            uni = sorted(set(pool))

            def rank(x):
                # pool instants have odd ranks, every other instant the even rank between its neighbours
                if x in uni:
                    return 2 * uni.index(x) + 1
                return 2 * len([v for v in uni if v < x])
            adocs = [{"live": True, "t": {}, "n": {"num": [rank(rd.stored_fields(dn)["num"])]}, "b4": 4}
                     for dn in range(rd.doc_count_all())]
            qs = []
            for _ in range(30 if quick else 80):
                ta, tb = rng.choice(texts), rng.choice(texts)
                if rng.random() < 0.2:
                    tb = ta
                if _period(ta)[0] > _period(tb)[0]:
                    ta, tb = tb, ta
                haslo, hashi = rng.random() < 0.85, rng.random() < 0.85
                if not haslo and not hashi:
                    haslo = True
                loex, hiex = rng.random() < 0.4, rng.random() < 0.4
                (alo, ahi), (blo, bhi) = _period(ta), _period(tb)
                aq = {"op": "numrange", "f": "num", "lo": rank(ahi if loex else alo), "hi": rank(blo if hiex else bhi),
                      "haslo": haslo, "hashi": hashi, "loexcl": loex, "hiexcl": hiex, "b4": 4}
                obs = []
                try:
                    q = ftype.parse_range("num", ta if haslo else None, tb if hashi else None, loex, hiex)
                    obs.append({"kind": "ids", "path": "partial dates: parse_range(%r, %r, %s, %s)" % (
                        ta if haslo else None, tb if hashi else None, loex, hiex),
                        "ids": sorted(int(d) for d in s.docs_for_query(q)) if q is not None else [-1]})
                    text = u"num:%s%s TO %s%s" % ("{" if loex else "[", ta if haslo else "", tb if hashi else "", "}" if hiex else "]")
                    q = parser.parse(text)
                    obs.append({"kind": "ids", "path": "partial dates: parser %s" % text,
                                "ids": sorted(int(d) for d in s.docs_for_query(q))})
                except Exception as ex:
                    obs.append({"kind": "error", "path": "partial dates %s %s" % (ta, tb), "err": type(ex).__name__,
                                "msg": str(ex)[:120]})
                qs.append({"q": aq, "obs": obs})
                run.count()
                # a partial date on its own is its period
                lo, hi = _period(ta)
                aq1 = {"op": "numrange", "f": "num", "lo": rank(lo), "hi": rank(hi), "haslo": True, "hashi": True,
                       "loexcl": False, "hiexcl": False, "b4": 4}
                obs = []
                try:
                    q = parser.parse(u"num:%s" % ta)
                    obs.append({"kind": "ids", "path": "partial dates: parser num:%s" % ta,
                                "ids": sorted(int(d) for d in s.docs_for_query(q))})
                except Exception as ex:
                    obs.append({"kind": "error", "path": "partial date %s" % ta, "err": type(ex).__name__, "msg": str(ex)[:120]})
                qs.append({"q": aq1, "obs": obs})
            cases.append({"idx": {"docs": adocs}, "qs": qs})
            metas.append({"plan": ["partial-dates", wi], "nseg": 2, "deleted": 0})
    return cases, metas


def check(run):
    quick = run.tier == "quick"
    rng = random.Random(run.seed + 1313)
    run.rule = ("TLC: Coverage of the split_ranges transcription for every (step, s, e) of 6 bits (quick) / 8 bits "
                "(thorough); the sub-ranges the real split_ranges returns for 8-bit (all/sampled) and 16/32-bit "
                "(boundary-biased) intervals judged by NumericTiersTrace.tla; NumericRange/DateRange searches over "
                "int 8/16/32/64 signed/unsigned, float, Decimal and DATETIME fields with shift_step 0..8 and extreme "
                "values judged by QuerySem!InRange on ranks; encoding order/round-trip/domain facts as flags")
    res = tlc.run_tlc("NumericTiers", "NumericTiersMC6.cfg" if quick else "NumericTiersMC8.cfg", timeout=3000, check=False)
    run.add_tlc("NumericTiersMC", res)
    if res.violation or not res.ok:
        raise tlc.TLCError("NumericTiers: %s\n%s" % (res.violation, tlc.tail(res.stdout)))
    for t in res.numbers.get("BADSPLIT", [])[:50]:
        # the transcription admits a wrong decomposition: show it on the real function
        from whoosh.util.numeric import split_ranges
        bits = 6 if quick else 8
        step, s, e = t
        rs = [list(r) for r in split_ranges(bits, step, s, e)]
        got = set(v for v in range(2 ** bits) if any((a >> sh) <= (v >> sh) <= (b >> sh) for a, b, sh in rs))
        if got != set(range(s, e + 1)):
            run.violation({"check": "c13-split", "bits": bits, "step": step, "s": s, "e": e},
                          {"ranges": rs, "matched_extra": sorted(got - set(range(s, e + 1)))[:10],
                           "missed": sorted(set(range(s, e + 1)) - got)[:10]})
        else:
            run.note("model-drift module=NumericTiers: transcription wrong at %r but the code is right" % (t,))
    # code -> spec: the real function's output
    cases = split_cases(rng, quick)
    run.count(len(cases))
    v = tr.validate(run, "NumericTiersTrace", "NumericTiersTrace.cfg", [[c] for c in []], name="noop") if False else None
    import os, tempfile
    for base in range(0, len(cases), 6000):
        part = cases[base:base + 6000]
        fd, path = tempfile.mkstemp(prefix="verif-nt-", suffix=".json")
        os.close(fd)
        try:
            tlc.write_json(path, part)
            r2 = tlc.run_tlc("NumericTiersTrace", "NumericTiersTrace.cfg", env={"TRACE_FILE": path}, timeout=3000, check=False)
        finally:
            os.unlink(path)
        run.add_tlc("NumericTiersTrace[%d]" % base, r2)
        if r2.violation or not r2.ok or r2.distinct != len(part):
            raise tlc.TLCError("NumericTiersTrace: %s (%d of %d)\n%s" % (r2.violation, r2.distinct, len(part), tlc.tail(r2.stdout)))
        run.traces += len(part)
        for rj in r2.tagged.get("REJECT", []):
            c = part[rj["tid"] - 1]
            run.violation({"check": "c13-split-real", "bits": c["bits"], "step": c["step"], "low_end": c["s"] < 2 ** c["step"]},
                          {"case": c, "wrong_values": rj["wrong"][:20]})
        for c in part[:2000]:
            if len(c["ranges"]) > 1:
                run.nontriv(("split", c["bits"], c["step"], c["s"], c["e"]))
    run.sample({"split_ranges_case": cases[len(cases) // 2]})
    # real fields
    fcases, metas, flags = field_cases(run, rng, quick)
    fcases.append({"idx": {"docs": []}, "qs": [{"q": {"op": "null"}, "obs": flags}]})
    metas.append({"plan": ["flags"], "nseg": 1, "deleted": 0})
    rejects = qobs.judge(run, fcases, name="QueryCheck-numeric")
    from harness.props import c01
    c01.report(run, "C13", fcases, metas, rejects, "c13-field")
    pcases, pmetas = partial_date_cases(run, rng, quick)
    rejects = qobs.judge(run, pcases, name="QueryCheck-partial-dates")
    c01.report(run, "C13", pcases, pmetas, rejects, "c13-partial-dates")


def replay(run, rp):
    raise NotImplementedError
