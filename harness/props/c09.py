"""C09 - scores are the documented composition of the weighting model's term scores.
Exact regime (scoring.Frequency): the score of every hit must equal QuerySem!Denote."""
import random

from harness import world, qobs
from harness.props import c01

LEVEL = "model_checking"
# fuzzy expansion is the subject of C19 (and of a recorded finding there)
NOFUZZY = ["term", "every", "null", "prefix", "wildcard", "regex", "termrange", "numrange", "phrase", "and", "or",
           "dismax", "andnot", "andmaybe", "require", "not", "const"]


def scoresub(o):
    """The hits of a limited search as (document, score) pairs to be found in the specified scores.  'alt' (the
    same search with WrappingMatcher.replace() corrected) is only used to recognise that recorded finding."""
    d = {"kind": "scoresub", "path": o["path"] + " scores", "hits": o["hits"]}
    if "alt" in o:
        d["alt"] = o["alt"]
    return d


def check(run):
    quick = run.tier == "quick"
    rng = random.Random(run.seed + 909)
    run.rule = ("random indexes (doc boosts, several segments, deletions) x random scored query trees with boosts "
                "in {1/2,1,2,4}; Hit scores under limit=None / terms=True judged by TLC against QuerySem!Denote")
    cases, meta = c01.build_cases(run, rng, 12 if quick else 120, 30 if quick else 40, ndocs=(4, 9), depth=3,
                                  paths=("unlimited", "limited", "terms", "weightingquery"), scored_only=True, cmp="full",
                                  kinds=("ranked", "error"), ops=NOFUZZY, limits=(1, 2, 3), alt=True)
    for cs in cases:
        for qo in cs["qs"]:
            # which documents a limited search returns is C05's subject; that the ones it returns carry the
            # documented score (independent of the collector and of the other results) is this property's
            qo["obs"] = [o if o.get("k", 0) == 0 else scoresub(o) for o in qo["obs"]]
    # unions/optional clauses over more documents with small limits: the matcher tree is rewritten during
    # the search; the scores of what is returned must not notice
    c2, m2 = c01.build_cases(run, rng, 8 if quick else 80, 30 if quick else 40, ndocs=(10, 20), depth=3,
                             paths=("limited", "terms"), scored_only=True, cmp="full", kinds=("ranked", "error"),
                             ops=["term", "every", "or", "andmaybe", "and"], limits=(1, 2, 3, 4), alt=True)
    for cs in c2:
        for qo in cs["qs"]:
            qo["obs"] = [scoresub(o) for o in qo["obs"] if o["kind"] == "ranked"]
    cases += c2
    meta += m2
    rejects = qobs.judge(run, cases)
    c01.report(run, "C09", cases, meta, rejects, "c09")
    # one large sparse segment: unions of three and more clauses add their scores up window by window
    # (2048 documents at a time); a document's score must not depend on the window it falls in
    cases, meta = c01.big_cases(run, rng, 1 if quick else 6, cmp="full", paths=("unlimited",))
    rejects = qobs.judge(run, cases, name="QueryCheck-large", chunk=2)
    c01.report(run, "C09", cases, meta, rejects, "c09-large")
    layouts(run, rng, 4 if quick else 40, 8 if quick else 12)
    named_field_parameters(run, rng)
    refreshed_searchers(run, rng)


def all_weightings():
    from whoosh import scoring

    class Doubled(scoring.BM25F):          # a final() hook that depends on the score only
        use_final = True

        def final(self, searcher, docnum, score):
            return score * 2.0 + 1.0
    class ByKey(scoring.Frequency):        # a final() hook that looks the document up (by its number) first
        use_final = True

        def final(self, searcher, docnum, score):
            return score + len(searcher.stored_fields(docnum)["key"]) * 0.25 + int(searcher.stored_fields(docnum)["key"][1:]) * 0.5
    return [("BM25F", scoring.BM25F()), ("BM25F(B=0.2,K1=2)", scoring.BM25F(B=0.2, K1=2.0)),
            ("BM25F(title_B=1)", scoring.BM25F(B=0.5, title_B=1.0)), ("TF_IDF", scoring.TF_IDF()),
            ("PL2", scoring.PL2()), ("DFree", scoring.DFree()), ("Frequency", scoring.Frequency()),
            ("Multi", scoring.MultiWeighting(scoring.BM25F(), title=scoring.TF_IDF())),
            ("Function", scoring.FunctionWeighting(lambda s, f, t, m: m.weight() * 0.5 + 1.0)),
            ("Reverse(BM25F)", scoring.ReverseWeighting(scoring.BM25F())), ("BM25F+final", Doubled()),
            ("Frequency+final(stored)", ByKey())]


BM25_PARAMS = {"BM25F": (0.75, 0.75, 1.2), "BM25F(B=0.2,K1=2)": (0.2, 0.2, 2.0), "BM25F(title_B=1)": (0.5, 1.0, 1.2)}


def reference_score(wname, field, st, weight, length):
    """The documented formula, fed with statistics that TLC has checked against the corpus model."""
    import math
    idf = math.log(st["n"] / (st["df"] + 1.0)) + 1.0
    if wname == "TF_IDF":
        return weight * idf
    bbody, btitle, k1 = BM25_PARAMS[wname]
    b = btitle if field == "title" else bbody
    avgfl = (st["totlen"] / float(st["n"])) or 1.0
    return idf * ((weight * (k1 + 1.0)) / (weight + k1 * ((1.0 - b) + b * length / avgfl)))


def named_field_parameters(run, rng):
    """BM25F's per-field B (keyword argument <fieldname>_B) must be applied to exactly that field, whatever
    characters the field name consists of; the term scores must be the documented formula with that B."""
    import math
    from whoosh import fields, scoring, query
    from whoosh.filedb.filestore import RamStorage
    names = ["body", "main_text", "a_b_c", "x_B", "title_"]
    schema = fields.Schema(key=fields.ID(stored=True), **dict((f, fields.TEXT(stored=True)) for f in names))
    ix = RamStorage().create_index(schema)
    with ix.writer() as w:
        for i in range(6):
            kw = dict((f, u" ".join([u"alfa"] * rng.randrange(1, 4) + [u"bravo"] * rng.randrange(0, 9))) for f in names)
            w.add_document(key=u"k%d" % i, **kw)
    flags = []
    for f in names:
        for bf, bdef in ((0.1, 0.9), (1.0, 0.25)):
            wobj = scoring.BM25F(B=bdef, K1=1.5, **{f + "_B": bf})
            with ix.searcher(weighting=wobj) as s:
                rd = s.reader()
                for g in names:
                    b = bf if g == f else bdef
                    n = float(rd.doc_count_all())
                    df = rd.doc_frequency(g, u"alfa")
                    idf = math.log(n / (df + 1.0)) + 1.0
                    avgfl = (rd.field_length(g) / n) or 1.0
                    ok = True
                    worst = 0.0
                    for h in s.search(query.Term(g, u"alfa"), limit=None):
                        wt = float(h[g].split().count(u"alfa"))
                        fl = rd.doc_field_length(h.docnum, g)
                        ref = idf * ((wt * (1.5 + 1.0)) / (wt + 1.5 * ((1.0 - b) + b * fl / avgfl)))
                        worst = max(worst, abs(ref - h.score))
                        if abs(ref - h.score) > 1e-9 * max(1.0, abs(ref)):
                            ok = False
                    flags.append({"kind": "flag", "path": "BM25F(B=%s, %s_B=%s): scores in field %r follow B=%s" % (bdef, f, bf, g, b),
                                  "value": ok, "worst_abs_error": worst})
    run.count(len(flags))
    cases = [{"idx": {"docs": []}, "qs": [{"q": {"op": "null"}, "obs": flags}]}]
    rejects = qobs.judge(run, cases, name="QueryCheck-fieldparams")
    c01.report(run, "C09", cases, [{"plan": ["per-field parameters"], "nseg": 1, "deleted": 0}], rejects, "c09-fieldparams")


def refreshed_searchers(run, rng):
    """The weighting model belongs to the searcher: after a commit, searcher.refresh() scores with the model the
    searcher was opened with - exactly as a new searcher opened with that model does."""
    from whoosh import query
    flags = []
    for wname, wobj in all_weightings():
        adocs = {"k%d" % i: world.rand_doc(rng) for i in range(6)}
        w = world.World(adocs, [("commit", sorted(adocs)[:4], {"merge": False})], storage="ram")
        try:
            s = w.ix.searcher(weighting=wobj)
            # (the searcher has been used before the commit: whatever its model object remembers of the collection
            # - averages, document frequencies - belongs to the old generation)
            for t in ([1], [2], [1, 2], [2, 1]):
                q = query.Or([query.Term("body", world.term_text(t)), query.Term("title", world.term_text(t), boost=2.0)])
                list(s.search(q, limit=None))
            w.apply(("commit", sorted(adocs)[4:], {"merge": False}))
            s2 = s.refresh()
            ok = True
            # (the reference: a new searcher with a new object of the same model)
            fresh = dict(all_weightings())[wname]
            with w.ix.searcher(weighting=fresh) as ref:
                for t in ([1], [2], [1, 2], [2, 1]):
                    q = query.Or([query.Term("body", world.term_text(t)), query.Term("title", world.term_text(t), boost=2.0)])
                    a = [(h.docnum, repr(h.score)) for h in s2.search(q, limit=None)]
                    b = [(h.docnum, repr(h.score)) for h in ref.search(q, limit=None)]
                    if a != b:
                        ok = False
            flags.append({"kind": "flag", "path": "refresh() keeps the searcher's weighting (%s)" % wname, "value": ok})
            s2.close()
        except Exception as ex:
            flags.append({"kind": "error", "path": "refresh() with %s" % wname, "err": type(ex).__name__, "msg": str(ex)[:120]})
        finally:
            w.close()
    run.count(len(flags))
    cases = [{"idx": {"docs": []}, "qs": [{"q": {"op": "null"}, "obs": flags}]}]
    rejects = qobs.judge(run, cases, name="QueryCheck-refresh")
    c01.report(run, "C09", cases, [{"plan": ["refresh keeps weighting"], "nseg": 2, "deleted": 0}], rejects, "c09-refresh")


def layouts(run, rng, nworlds, nqueries):
    """Deletion-free corpora built in one segment and in several: every weighting must give every
    document the same score in every layout (judged by TLC on interned scores), the statistics the
    formulas use must be the corpus model's (TLC), and BM25F / TF_IDF term scores must be the
    documented formula of those statistics."""
    cases, info = [], []
    for wi in range(nworlds):
        n = rng.randrange(4, 10)
        adocs = {"k%d" % i: world.rand_doc(rng, boosts=(wi % 2 == 1)) for i in range(n)}
        keys = sorted(adocs)
        plans = [[("commit", keys, {"optimize": True})]]
        for _ in range(2):
            ks = keys[:]
            rng.shuffle(ks)
            cuts = sorted(rng.sample(range(1, n), rng.randrange(1, min(3, n - 1) + 1)))
            plans.append([("commit", ks[i:j], {"merge": False}) for i, j in zip([0] + cuts, cuts + [n])])
        worlds = [world.World(adocs, pl, storage="ram", blocklimit=rng.choice([None, 2])) for pl in plans]
        try:
            base = None
            queries = [world.rand_query(rng, rng.randrange(0, 3), scored_only=True, ops=c01_ops()) for _ in range(nqueries)]
            lex = sorted(set((f, tuple(t)) for d in adocs.values() for f in world.TEXT_FIELDS
                             for t in d["t"].get(f, []) if t != [0]))
            queries += [{"op": "term", "f": f, "t": list(t), "b4": 4} for f, t in rng.sample(lex, min(4, len(lex)))]
            qs = [{"q": aq, "obs": []} for aq in queries]
            for wname, wobj in all_weightings():
                per_layout = []
                for w in worlds:
                    with w.ix.searcher(weighting=wobj) as s:
                        if base is None:
                            base = w.abstract_index(s.reader())
                            key2dn = dict((d["key"], i) for i, d in enumerate(base["docs"]))
                        rows = []
                        for aq in queries:
                            r = s.search(world.to_query(aq), limit=None)
                            rows.append(dict((h["key"], h.score) for h in r))
                        per_layout.append(rows)
                        if wname in BM25_PARAMS or wname == "TF_IDF":
                            for qi, aq in enumerate(queries):
                                if aq["op"] == "term" and aq.get("b4", 4) == 4:
                                    st = termstats(s, aq, key2dn)
                                    if w is worlds[0] and wname == "BM25F":
                                        qs[qi]["obs"].append(st)
                                    for dn, w4, fl in st["docs"]:
                                        k = base["docs"][dn]["key"]
                                        want = reference_score(wname, aq["f"], st, w4 / 4.0, fl)
                                        got = rows[qi].get(k)
                                        run.count(1)
                                        if got is None or abs(got - want) > 1e-9 * max(1.0, abs(want)):
                                            run.violation({"check": "c09-formula", "weighting": wname, "field": aq["f"],
                                                           "multiseg": w is not worlds[0]},
                                                          {"adocs": adocs, "plan": plans[worlds.index(w)], "q": aq,
                                                           "key": k, "got": got, "formula": want, "stats": st})
                for qi, aq in enumerate(queries):
                    # interning: floats that differ only by the rounding of a different summation order
                    # (the shape of the matcher tree depends on per-segment sizes) get the same rank
                    vals = sorted(set(v for rows in per_layout for v in rows[qi].values()))
                    rank, r, prev = {}, -1, None
                    for v in vals:
                        if prev is None or abs(v - prev) > 1e-9 * max(1.0, abs(v), abs(prev)):
                            r += 1
                        rank[v] = r
                        prev = v
                    maps = [sorted([key2dn[k], rank[v]] for k, v in rows[qi].items()) for rows in per_layout]
                    qs[qi]["obs"].append({"kind": "layouts", "path": "layouts[%s]" % wname, "maps": maps})
                    run.count(1)
            cases.append({"idx": base, "qs": qs})
            info.append({"plan": plans, "nseg": max(len(p) for p in plans), "deleted": 0})
        finally:
            for w in worlds:
                w.close()
    rejects = qobs.judge(run, cases, name="QueryCheck-layouts")
    c01.report(run, "C09", cases, info, rejects, "c09-layouts")


def c01_ops():
    return ["term", "every", "and", "or", "dismax", "andnot", "andmaybe", "require", "const", "phrase", "prefix"]


def termstats(s, aq, key2dn):
    """What the weighting formulas are fed with, read through the searcher's public statistics."""
    from whoosh.query import Term
    f, text = aq["f"], world.term_text(aq["t"])
    rd = s.reader()
    docs = []
    m = Term(f, text).matcher(s, s.context())
    while m.is_active():
        dn = m.id()
        k = rd.stored_fields(dn)["key"]
        docs.append([key2dn[k], int(round(m.weight() * 4)), int(s.doc_field_length(dn, f, 1))])
        m.next()
    return {"kind": "termstats", "path": "statistics(%s)" % f, "f": f, "t": aq["t"], "n": int(s.doc_count_all()),
            "df": int(s.doc_frequency(f, text)), "cf4": int(round(s.reader().frequency(f, text) * 4)),
            "totlen": int(s.field_length(f)), "docs": sorted(docs)}


def replay(run, rp):
    c01.replay_world(run, rp, rp["sig"].get("check", "c09"))
