"""C09 - scores are the documented composition of the weighting model's term scores.
Exact regime (scoring.Frequency): the score of every hit must equal QuerySem!Denote."""
import random

from harness import world, qobs
from harness.props import c01

LEVEL = "model_checking"
# fuzzy expansion is the subject of C19 (and of a recorded finding there)
NOFUZZY = ["term", "every", "null", "prefix", "wildcard", "termrange", "numrange", "phrase", "and", "or",
           "dismax", "andnot", "andmaybe", "require", "not", "const"]


def check(run):
    quick = run.tier == "quick"
    rng = random.Random(run.seed + 909)
    run.rule = ("random indexes (doc boosts, several segments, deletions) x random scored query trees with boosts "
                "in {1/2,1,2,4}; Hit scores under limit=None / terms=True judged by TLC against QuerySem!Denote")
    cases, meta = c01.build_cases(run, rng, 12 if quick else 120, 30 if quick else 40, ndocs=(4, 9), depth=3,
                                  paths=("unlimited", "terms"), scored_only=True, cmp="full", kinds=("ranked", "error"), ops=NOFUZZY)
    for cs in cases:           # limited searches are C05's subject
        for qo in cs["qs"]:
            qo["obs"] = [o for o in qo["obs"] if o.get("k", 0) == 0]
    rejects = qobs.judge(run, cases)
    c01.report(run, "C09", cases, meta, rejects, "c09")


def replay(run, rp):
    raise NotImplementedError
