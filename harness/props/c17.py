"""C17 - index- and query-time analysis agree: documents are findable by their own words.

Spec: AnalysisCheck.tla over QuerySem.  The abstract index of a case is built from the token
streams the field's analyzer yields in index mode; the real index is written by the real writer
from the same texts.  TLC judges
  * Term(token) for every index-time token, And(query-time tokens of the document's own text),
    Phrase(runs of consecutive positions): exact result sets (Denote) and 'the document is found';
  * parser.parse(word) for the document's own words finds the document;
  * token streams: positions increase, offsets stay inside the text and delimit the source;
  * highlights: fragments (markup stripped) are substrings of the stored text, marked spans are
    query terms.
"""
import random

from harness import qobs, world

LEVEL = "model_checking"

M0, M1, MB = u"\ue000", u"\ue001", u"\ue002"      # private-use markers: mark start, mark end, fragment break

WORDS = [u"alpha", u"Bravo", u"CHARLIE", u"running", u"runs", u"ran", u"libraries", u"library", u"the", u"and", u"of",
         u"a", u"I", u"to", u"café", u"Über", u"straße", u"naïve", u"résumé", u"привет", u"мир", u"καλημέρα",
         u"κόσμος", u"東京", u"日本語", u"مرحبا", u"שלום", u"3.14", u"42", u"2010-01-02", u"1,000", u"wi-fi",
         u"PowerShot", u"SD500", u"snake_case", u"don't", u"O'Neil", u"http://example.com/a?b=1&c=2",
         u"user@example.org", u"x" * 60, u"ab", u"abc", u"abcd", u"C++", u"AT&T", u"e.g.", u"U.S.A.", u"\U0001F600",
         u"ﬁne", u"İstanbul", u"ǅ", u"ß", u"fooBar", u"foo-bar-baz", u"R2D2", u"quick", u"brown", u"fox", u"jumped",
         u"a<b", u"x&lt;y", u"<i>tag</i>", u"Q&A", u"5>3",
         # text that is not in a normal form: letters followed by combining marks, conjoining Hangul jamo, a
         # compatibility character (the index and the queries must use the very same code points)
         u"cafe\u0301", u"nai\u0308ve", u"A\u030a", u"\u1112\u1161\u11ab\u1100\u1173\u11af", u"\u212b", u"e\u0301\u0323"]
SEPS = [u" ", u" ", u" ", u", ", u". ", u"\n", u" - ", u"; ", u"\t", u" / ", u"! ", u" (", u") "]


COMMON = u"zebra"


def rand_text(rng, nwords=(1, 9)):
    parts = []
    for _ in range(rng.randrange(nwords[0], nwords[1] + 1)):
        parts.append(rng.choice(WORDS))
        parts.append(rng.choice(SEPS))
    return u"".join(parts[:-1])


def configs():
    """name -> (field, flags); flags: positional (strictly increasing positions, phrases asked),
    offsets (a token's source slice analyses back to the token), highlight"""
    from whoosh import analysis, fields
    from whoosh.analysis import (RegexTokenizer, LowercaseFilter, StopFilter, CharsetFilter, IntraWordFilter,
                                 BiWordFilter, StemFilter, MultiFilter, DoubleMetaphoneFilter, SpaceSeparatedTokenizer,
                                 TeeFilter, ReverseTextFilter, PassFilter, ShingleFilter, NgramFilter, StripFilter,
                                 SubstitutionFilter, CompoundWordFilter)
    from whoosh.support.charset import accent_map

    def text(ana, **kw):
        return fields.TEXT(analyzer=ana, phrase=kw.pop("phrase", True), chars=True, stored=True)
    P = {"positional": True, "offsets": True, "highlight": True, "words": True, "quoted": True}
    NP = {"positional": False, "offsets": False, "highlight": False}
    out = {
        "standard": (text(analysis.StandardAnalyzer()), P),
        "standard-nostop": (text(analysis.StandardAnalyzer(stoplist=None, minsize=1)), P),
        "simple": (text(analysis.SimpleAnalyzer()), P),
        "stemming": (text(analysis.StemmingAnalyzer()), P),
        "stemming-cached": (text(analysis.StemmingAnalyzer(cachesize=3)), P),
        "stemming-cache1": (text(analysis.StemmingAnalyzer(cachesize=1)), P),
        "stemming-nocache": (text(analysis.StemmingAnalyzer(cachesize=0)), P),
        "stemming-ignore": (text(analysis.StemmingAnalyzer(ignore=[u"running", u"libraries", u"jumped"])), P),
        "fancy": (text(analysis.FancyAnalyzer()), {"positional": False, "offsets": False, "highlight": False}),
        "regex": (text(analysis.RegexAnalyzer()), P),
        "regex-gaps": (text(analysis.RegexAnalyzer(r"\s+", gaps=True)), P),
        "keyword": (fields.KEYWORD(stored=True, scorable=True), dict(P, positional=False, highlight=False)),
        # (a comma-separated keyword's source is what stands between the commas, blanks and all)
        "keyword-commas": (fields.KEYWORD(stored=True, commas=True, lowercase=True, scorable=True),
                           dict(P, positional=False, highlight=False, words=False, tight=False)),
        "id": (fields.ID(stored=True), dict(P, positional=False, highlight=False, words=False)),
        "ngram": (fields.NGRAM(minsize=2, maxsize=3, stored=True), NP),
        "ngramwords": (fields.NGRAMWORDS(minsize=2, maxsize=4, stored=True), dict(NP, highlight=True, grams=True)),
        "ngramwords-start": (fields.NGRAMWORDS(minsize=2, maxsize=4, stored=True, at="start"),
                             dict(NP, highlight=True, grams=True)),
        "ngramwords-end": (fields.NGRAMWORDS(minsize=2, maxsize=4, stored=True, at="end"),
                           dict(NP, highlight=True, grams=True)),
        "ngramfilter-end": (text(RegexTokenizer() | LowercaseFilter() | NgramFilter(2, 4, at="end")),
                            dict(NP, highlight=True, grams=True)),
        "accent-folding": (text(RegexTokenizer() | LowercaseFilter() | CharsetFilter(accent_map)), P),
        "intraword": (text(RegexTokenizer(r"\S+") | IntraWordFilter() | LowercaseFilter()), NP),
        "intraword-documented": (text(RegexTokenizer(r"\S+")
                                      | MultiFilter(index=IntraWordFilter(mergewords=True, mergenums=True),
                                                    query=IntraWordFilter(mergewords=False, mergenums=False))
                                      | LowercaseFilter()), dict(NP, quoted="always")),
        "biword": (text(RegexTokenizer() | LowercaseFilter() | BiWordFilter(), phrase=False), NP),
        # (a shingle's offsets span its words: analysing that slice gives the shingle back - also the single short
        # shingle of a text with fewer words than the shingle size)
        "shingle": (text(RegexTokenizer() | LowercaseFilter() | ShingleFilter(2), phrase=False), dict(NP, offsets=True)),
        "shingle4": (text(RegexTokenizer() | LowercaseFilter() | ShingleFilter(4), phrase=False), dict(NP, offsets=True)),
        "metaphone-combined": (text(RegexTokenizer() | LowercaseFilter() | DoubleMetaphoneFilter(combine=True)), NP),
        "tee-reverse": (text(RegexTokenizer() | TeeFilter(PassFilter(), ReverseTextFilter()) | LowercaseFilter()), NP),
        "ngramfilter": (text(RegexTokenizer() | LowercaseFilter() | NgramFilter(2, 3)),
                        dict(NP, highlight=True, grams=True)),
        "space+strip+subst": (text(SpaceSeparatedTokenizer() | StripFilter() | SubstitutionFilter("-", "")
                                   | LowercaseFilter()), dict(P, offsets=False)),
        "compound": (text(RegexTokenizer() | LowercaseFilter()
                          | CompoundWordFilter([u"power", u"shot", u"foo", u"bar"], keep_compound=True)), NP),
        "stop-renumber-off": (text(RegexTokenizer() | LowercaseFilter() | StopFilter(renumber=False)), P),
    }
    for lang in ("de", "fr", "es", "ru", "pt", "it", "nl", "sv", "ar"):
        try:
            out["language-" + lang] = (text(analysis.LanguageAnalyzer(lang)), P)
        except Exception:
            pass
    return out


def tokens_of(field, text, mode):
    out = []
    for t in field.analyzer(text, positions=True, chars=True, mode=mode):
        out.append((t.text, t.pos, t.startchar, t.endchar))
    return out


class MarkFormatter(object):
    between = MB

    def __new__(cls):
        from whoosh import highlight

        class _F(highlight.Formatter):
            between = MB

            def format_token(self, text, token, replace=False):
                return M0 + highlight.get_text(text, token, replace) + M1
        return _F()


def build_case(run, rng, name, field, flags, ndocs):
    from whoosh import fields, query, qparser, highlight
    from whoosh.filedb.filestore import FileStorage
    import shutil
    import tempfile
    import copy
    # (g: a second field of the same type; half of the documents repeat their text in it, so that a query
    # can match a word of the text through the other field only)
    schema = fields.Schema(key=fields.ID(stored=True, unique=True), f=field, g=copy.deepcopy(field))
    tmpdir = tempfile.mkdtemp(prefix="verif-c17-")
    try:
        return _build_case(run, rng, name, field, flags, ndocs, schema, FileStorage(tmpdir))
    finally:
        shutil.rmtree(tmpdir, ignore_errors=True)


def _build_case(run, rng, name, field, flags, ndocs, schema, storage):
    from whoosh import query, qparser, highlight
    ix = storage.create_index(schema)
    texts = {}
    keys = ["k%d" % i for i in range(ndocs)]
    cut = rng.randrange(1, ndocs)
    for pi, part in enumerate((keys[:cut], keys[cut:])):
        w = ix.writer()
        for k in part:
            texts[k] = rand_text(rng, (1, 2) if name in ("id",) else (1, 9))
            if k == keys[-1] and name not in ("id", "keyword", "keyword-commas"):
                texts[k] = rng.choice([u"", u" ", u"the", u"..."])        # a value without any token
            if name == "space+strip+subst" and rng.random() < 0.6:   # a token the filter empties completely
                texts[k] += rng.choice([u" - x", u" -- -", u" a - b"])
            if name == "keyword-commas" and rng.random() < 0.6:      # an empty item between commas
                texts[k] += rng.choice([u", ,zz", u",,", u", "])
            if name in ("regex-gaps", "keyword", "space+strip+subst") and rng.random() < 0.5:   # markup-like tokens
                texts[k] += rng.choice([u" a<b", u" x&lt;y", u" <i>tag</i> Q&A"])
            if name.startswith("intraword") and rng.random() < 0.7:  # words the filter splits / merges, followed by more words
                texts[k] += rng.choice([u" PowerShot camera lens", u" wi-fi router SD500 manual", u" fooBar baz R2D2 unit"])
            if name == "stemming-ignore" and rng.random() < 0.6:     # words on the analyzer's ignore list
                texts[k] += rng.choice([u" running", u" libraries jumped", u", Running"])
            if flags.get("highlight") and not flags.get("grams"):
                # a word every document has, at different places and the more often the later the document:
                # hits share a term, and their order by score is not their order by number
                reps = u" ".join([COMMON] * (1 + keys.index(k)))
                texts[k] = (reps + u" " + texts[k]) if rng.random() < 0.5 else (texts[k] + u" " + reps)
            if keys.index(k) % 2 == 0:
                w.add_document(key=k, f=texts[k], g=texts[k])
                continue
            w.add_document(key=k, f=texts[k])
        w.commit(merge=False)
        # the second segment, the deletion, the searches and the query-time analysis go through the index
        # as re-opened from disk: its schema (with the analyzers) is the one unpickled from the TOC, while
        # the model below keeps using the analyzer object the field was configured with
        ix.close()
        ix = storage.open_index()
    w = ix.writer()
    w.delete_by_term("key", keys[0])
    w.commit(merge=False)
    schema = ix.schema
    qfield = schema["f"]

    intern = {}

    def tid(t):
        return intern.setdefault(t, len(intern) + 1)
    qs = []
    with ix.searcher() as s:
        rd = s.reader()
        docs, streams = [], {}
        for dn in range(rd.doc_count_all()):
            k = rd.stored_fields(dn)["key"]
            toks = tokens_of(field, texts[k], "index")
            streams[dn] = (k, toks)
            if flags["positional"] and all(a[1] < b[1] for a, b in zip(toks, toks[1:])):
                seq = []
                for t, pos, sc, ec in toks:
                    while len(seq) < pos:
                        seq.append([0])
                    seq.append([tid(t)])
            else:
                seq = [[tid(t)] for t, pos, sc, ec in toks]
            docs.append({"live": not rd.is_deleted(dn), "t": {"f": seq}, "n": {}, "b4": 4, "key": k})
        idx = {"docs": docs}

        def ids_of(q):
            return sorted(int(h.docnum) for h in s.search(q, limit=None))

        def ask(aq, q, dn, path):
            obs = []
            try:
                ids = ids_of(q)
                obs.append({"kind": "ids", "path": path, "ids": ids})
                if dn is not None:
                    obs.append({"kind": "has", "path": path + " finds its document", "doc": dn, "ids": ids})
            except Exception as ex:
                obs.append({"kind": "error", "path": path, "err": type(ex).__name__, "msg": str(ex)[:200]})
            run.count(len(obs))
            qs.append({"q": aq, "obs": obs, "text": texts[streams[dn][0]] if dn is not None else ""})
        parser = qparser.QueryParser("f", schema)
        null = {"op": "null"}
        # what is stored with the postings - positions and character ranges of every occurrence - is what the
        # analyzer produced at index time (also where occurrences of one term overlap, as n-grams do)
        fmt = getattr(field, "format", None)
        if fmt is not None and fmt.supports("characters"):
            bad = []
            try:
                want = {}
                for dn, (k, toks) in streams.items():
                    for t, pos, sc, ec in toks:
                        want.setdefault((t, dn), []).append((pos, sc, ec))
                for t in sorted(set(t for t, _ in want)):
                    m = rd.postings("f", t)
                    while m.is_active():
                        got = [tuple(int(x) for x in c) for c in m.value_as("characters")]
                        if got != want.get((t, m.id()), []):
                            bad.append((t, m.id(), got[:4], want.get((t, m.id()), [])[:4]))
                        m.next()
                qs.append({"q": null, "text": "", "obs": [{"kind": "flag", "path": "stored character ranges are the analyzer's"
                                                           + (" - differs: %r" % (bad[:2],) if bad else ""),
                                                           "value": not bad}]})
            except Exception as ex:
                qs.append({"q": null, "text": "", "obs": [{"kind": "error", "path": "stored character ranges",
                                                           "err": type(ex).__name__, "msg": str(ex)[:200]}]})
            run.count(1)
        for dn, (k, toks) in sorted(streams.items()):
            if rd.is_deleted(dn):
                continue
            text = texts[k]
            # (1) every index-time token finds the document
            for t in sorted(set(x[0] for x in toks))[:12]:
                ask({"op": "term", "f": "f", "t": [tid(t)], "b4": 4}, query.Term("f", t), dn, "Term(index-time token)")
            # (2) the conjunction of the query-time tokens of the same text
            try:
                qtoks = list(qfield.process_text(text, mode="query"))
            except Exception as ex:
                qtoks = None
                qs.append({"q": null, "text": text, "obs": [{"kind": "error", "path": "process_text(mode=query)",
                                                             "err": type(ex).__name__, "msg": str(ex)[:200]}]})
            if qtoks:
                # (the model's conjunction lists each distinct token once - only membership is judged, and the sum of
                # the scores of a long text's repeated tokens leaves TLC's 32-bit integers)
                ask({"op": "and", "kids": [{"op": "term", "f": "f", "t": [tid(t)], "b4": 4}
                                           for t in sorted(set(qtoks), key=qtoks.index)], "b4": 4},
                    query.And([query.Term("f", t) for t in qtoks]), dn, "And(query-time tokens)")
            # (3) the parser's reading of the document's own words
            # (only where the analyzer makes one token per word: a word of a bigram, keyword or id field
            # is not a term of its own by design)
            for wd in [x for x in sorted(set(text.split())) if x.isalnum()][:4] if flags.get("words") else []:
                try:
                    pq = parser.parse(wd)
                    if pq is query.NullQuery or not list(qfield.process_text(wd, mode="query")):
                        continue
                    ids = ids_of(pq)
                    qs.append({"q": null, "text": text, "word": wd, "obs": [
                        {"kind": "has", "path": "parser.parse(own word)", "doc": dn, "ids": ids}]})
                except Exception as ex:
                    qs.append({"q": null, "text": text, "word": wd, "obs": [
                        {"kind": "error", "path": "parser.parse(own word)", "err": type(ex).__name__,
                         "msg": str(ex)[:200]}]})
                run.count(1)
            # (3b) a quoted pair of neighbouring words of the text, as the user would type it: the parser's phrase
            # finds the document (where the analyzer is documented to keep phrases working across words it
            # splits or merges)
            if flags.get("quoted") == "always" or (flags.get("quoted") and flags.get("positional")):
                import re as _re
                pairs = [(a, b) for a, b in _re.findall(r"(?=(?:^| )([A-Za-z0-9][A-Za-z0-9_-]*) ([A-Za-z0-9][A-Za-z0-9_-]*)(?: |$))", text)]
                for a, b in pairs[:3]:
                    qtext = u'"%s %s"' % (a, b)
                    try:
                        pq = parser.parse(qtext)
                        if pq is query.NullQuery:
                            continue
                        qs.append({"q": null, "text": text, "word": qtext, "obs": [
                            {"kind": "has", "path": "parser.parse(quoted neighbouring words)", "doc": dn, "ids": ids_of(pq)}]})
                    except Exception as ex:
                        qs.append({"q": null, "text": text, "word": qtext, "obs": [
                            {"kind": "error", "path": "parser.parse(quoted neighbouring words)", "err": type(ex).__name__,
                             "msg": str(ex)[:200]}]})
                    run.count(1)
            # (4) phrases of consecutive positions
            if flags["positional"] and getattr(field, "format", None) is not None and field.format.supports("positions"):
                runs = [i for i in range(len(toks) - 1) if toks[i + 1][1] == toks[i][1] + 1]
                for i in rng.sample(runs, min(2, len(runs))):
                    n = 3 if i + 2 < len(toks) and toks[i + 2][1] == toks[i][1] + 2 and rng.random() < 0.5 else 2
                    words = [toks[i + j][0] for j in range(n)]
                    ask({"op": "phrase", "f": "f", "words": [[tid(x)] for x in words], "slop": 1, "b4": 4},
                        query.Phrase("f", words), dn, "Phrase(consecutive positions)")
            # (5) the token stream itself
            st = []
            for t, pos, sc, ec in toks:
                sl = []
                if flags["offsets"] and sc is not None and ec is not None:
                    sl = [tid(x[0]) for x in tokens_of(field, text[sc:ec], "index")]
                loose = 1 if (sc is not None and ec is not None and text[sc:ec] != text[sc:ec].strip()) else 0
                st.append([tid(t), int(pos), int(sc if sc is not None else -1), int(ec if ec is not None else -1), sl, loose])
            qs.append({"q": null, "text": text, "obs": [{"kind": "stream", "path": "token stream (index mode)",
                                                        "n": len(text), "toks": st, "positional": flags["positional"],
                                                        "offsets": flags["offsets"],
                                                        "tight": bool(flags.get("tight", flags["offsets"]))}]})
            run.count(1)
            # (6) highlights
            if flags["highlight"] and (qtoks or flags.get("grams")):
                pool = sorted(set(x[0] for x in toks)) if flags.get("grams") else sorted(set(qtoks))
                if not pool:
                    continue
                pick = rng.sample(pool, min(2, len(pool)))
                if flags.get("grams"):
                    # overlapping matched grams that follow one another in the token stream
                    # (preferably one nested inside the other)
                    adj = [(a[0], b[0]) for a, b in zip(toks, toks[1:]) if a[2] <= b[2] <= a[3] and a[0] != b[0]]
                    nested = [(a[0], b[0]) for a, b in zip(toks, toks[1:])
                              if a[2] <= b[2] and b[3] < a[3] and a[0] != b[0]]
                    if nested and rng.random() < 0.6:
                        pick = list(rng.choice(nested))
                    elif adj and rng.random() < 0.5:
                        pick = list(rng.choice(adj))
                if not flags.get("grams"):
                    cq = [x[0] for x in tokens_of(field, COMMON, "query")]
                    if cq and cq[0] in pool and rng.random() < 0.7:
                        pick = [cq[0]] + [t for t in pick if t != cq[0]][:1]
                hq = query.Or([query.Term("f", t) for t in pick])
                # ... plus a word of this text that is searched in the other field only: matched there, it is
                # none of the terms the excerpt of f highlights
                others = [t for t in pool if t not in pick]
                if others and not flags.get("grams") and rng.random() < 0.6:
                    hq = query.Or([query.Term("f", t) for t in pick] + [query.Term("g", rng.choice(others))])
                for fname, frag in (("context", highlight.ContextFragmenter(maxchars=40, surround=8)),
                                    ("sentence", highlight.SentenceFragmenter(maxchars=60)),
                                    ("whole", highlight.WholeFragmenter()),
                                    ("pinpoint", highlight.PinpointFragmenter(maxchars=40, surround=8))):
                    try:
                        r = s.search(hq, limit=None, terms=True)
                        r.fragmenter = frag
                        r.formatter = MarkFormatter()
                        hit = [h for h in r if h.docnum == dn][0]
                        out = hit.highlights("f", top=3)
                        frags, marks = [], []
                        for fi, piece in enumerate(out.split(MB) if out else []):
                            plain, pos, start = [], 0, None
                            for ch in piece:
                                if ch == M0:
                                    start = pos
                                elif ch == M1:
                                    span = u"".join(plain[start:pos])
                                    marks.append([fi + 1, start, pos,
                                                  [tid(x[0]) for x in tokens_of(field, span,
                                                                                "index" if flags.get("grams") else "query")]])
                                else:
                                    plain.append(ch)
                                    pos += 1
                            frags.append([ord(c) for c in plain])
                        # where the query's terms occur in the text (index-mode token offsets); asked only
                        # for the whole-text fragmenter, whose fragment coordinates are the text's
                        occ = [[1, sc, ec] for t, pos, sc, ec in toks if t in pick] \
                            if fname == "whole" and frags and len(frags) == 1 and len(frags[0]) == len(text) else []
                        o = {"kind": "highlight", "path": "highlights(%s)" % fname, "text": [ord(c) for c in text],
                             "frags": frags, "marks": marks, "qterms": [tid(t) for t in pick], "occ": occ, "spans_checked": not flags.get("grams"),
                             "raw": out, "escaped": []}
                    except Exception as ex:
                        o = {"kind": "error", "path": "highlights(%s)" % fname, "err": type(ex).__name__,
                             "msg": str(ex)[:200]}
                    qs.append({"q": null, "text": text, "obs": [o]})
                    run.count(1)
                # the HTML formatter: with its own tags removed and entities unescaped, the excerpt is the text
                try:
                    import html as _html
                    import re as _re
                    # (a matched token that itself contains markup characters, where the text has one)
                    mk = [t for t in pool if any(c in t for c in u"<>&")]
                    if mk:
                        pick = [rng.choice(mk)] + pick[:1]
                        hq = query.Or([query.Term("f", t) for t in pick])
                    r = s.search(hq, limit=None, terms=True)
                    r.fragmenter = highlight.WholeFragmenter()
                    r.formatter = highlight.HtmlFormatter(tagname="strong", between=MB)
                    hit = [h for h in r if h.docnum == dn][0]
                    out = hit.highlights("f", top=3)
                    # the formatter's own tags are exactly <strong class="match termN"> and </strong>
                    bare = [_re.sub(r'<strong class="match term[0-9]+">|</strong>', u"", piece)
                            for piece in (out.split(MB) if out else [])]
                    frags = [[ord(c) for c in _html.unescape(b)] for b in bare]
                    o = {"kind": "highlight", "path": "highlights(whole, HtmlFormatter)", "text": [ord(c) for c in text],
                         "frags": frags, "marks": [], "qterms": [tid(t) for t in pick], "occ": [],
                         "spans_checked": False, "raw": out, "escaped": [[ord(c) for c in b] for b in bare]}
                except Exception as ex:
                    o = {"kind": "error", "path": "highlights(html)", "err": type(ex).__name__, "msg": str(ex)[:200]}
                qs.append({"q": null, "text": text, "obs": [o]})
                run.count(1)
    return {"idx": idx, "qs": qs, "analyzer": name}


def check(run):
    quick = run.tier == "quick"
    rng = random.Random(run.seed + 1717)
    run.rule = ("per analyzer/field configuration (shipped analyzers, language analyzers, n-gram, keyword, intraword, "
                "charset folding, biword, shingle, metaphone, tee, documented MultiFilter use): random multi-script "
                "texts indexed by the real writer into two segments with a deletion; abstract index from the "
                "analyzer's index-mode token streams; Term / And(query-time tokens) / Phrase(consecutive positions) "
                "/ parser.parse(own word) / token streams / highlights judged by AnalysisCheck.tla; non-trivial = "
                "accepted query selecting some but not all documents")
    cases = []
    cfgs = configs()
    for rnd in range(1 if quick else 6):
        for name in sorted(cfgs):
            field, flags = cfgs[name]
            try:
                cases.append(build_case(run, rng, name, field, flags, 4 if quick else 6))
            except Exception as ex:
                # indexing / opening with this analyzer failed: a violation of its own, the other analyzers go on
                import traceback
                tb = traceback.extract_tb(ex.__traceback__)
                cases.append({"idx": {"docs": []}, "analyzer": name, "qs": [{"q": {"op": "null"}, "text": "", "obs": [
                    {"kind": "error", "path": "building the index", "err": type(ex).__name__, "msg": str(ex)[:200],
                     "where": ["%s:%d %s" % (f.filename.split("/")[-1], f.lineno, f.name) for f in tb[-3:]]}]}]})
    rejects = qobs.judge(run, cases, name="AnalysisCheck", module="AnalysisCheck", chunk=12)
    bad = set()
    for ci, qi, oi, exp in rejects:
        cs, qo = cases[ci], cases[ci]["qs"][qi]
        o = qo["obs"][oi]
        bad.add((ci, qi))
        failing = sorted(k for k, v in exp.items() if v is False) if isinstance(exp, dict) else []
        run.violation({"check": "c17", "analyzer": cs["analyzer"], "kind": o["kind"], "path": o.get("path", ""),
                       "err": o.get("err", ""), "failing": failing},
                      {"text": qo.get("text"), "word": qo.get("word"), "obs": o, "expected": exp, "q": qo["q"]})
    for ci, cs in enumerate(cases):
        for qi, qo in enumerate(cs["qs"]):
            ids = [o["ids"] for o in qo["obs"] if o["kind"] == "ids"]
            if (ci, qi) not in bad and ids and 0 < len(ids[0]) < len(cs["idx"]["docs"]):
                run.nontriv((ci, qi))
    if cases:
        run.sample({"analyzer": cases[0]["analyzer"], "text": cases[0]["qs"][0].get("text"),
                    "observations": cases[0]["qs"][0]["obs"][:2]})
    run.extra["configurations"] = sorted(cfgs)
    run.extra["highlights_with_marks"] = sum(1 for cs in cases for qo in cs["qs"] for o in qo["obs"]
                                             if o["kind"] == "highlight" and o["marks"])
    if not run.extra["highlights_with_marks"]:
        run.machinery("vacuity: no highlight produced a marked span")


def replay(run, rp):
    raise NotImplementedError
