"""C10 - postings, term statistics and vectors read back exactly what was indexed.
Spec: ContentCheck.tla (PostingList / CharList / VectorOf / terminfo clauses).  Token streams
(repeated terms, gaps, long terms, multi-byte letters) are indexed under posting formats
Existence / Frequency / Positions / Characters, block limits 1..N, compression levels and
inlining, with the on-disk, in-memory and plain-text codecs; every posting list, term
statistic and vector is judged by TLC."""
import random

from harness import cworld, world, content

LEVEL = "model_checking"


def codec_cfgs(quick):
    cfgs = [{"codec": "w3", "blocklimit": 1}, {"codec": "w3", "blocklimit": 2}, {"codec": "w3", "blocklimit": 3},
            {"codec": "w3", "blocklimit": 128}, {"codec": "w3", "blocklimit": 4, "compression": 0},
            {"codec": "w3", "blocklimit": 4, "compression": 9}, {"codec": "w3", "blocklimit": 2, "inlinelimit": 3},
            {"codec": "memory"}, {"codec": "memory", "sessions": 2}, {"codec": "plaintext"},
            # the statistics of a term are combined over segments (document numbers shifted by the segment's offset)
            {"codec": "w3", "blocklimit": 2, "segments": 2}, {"codec": "w3", "blocklimit": 128, "segments": 3}]
    return cfgs


def build(cfg, schema, adocs, keys):
    """Returns (reader, closer)."""
    from whoosh.filedb.filestore import RamStorage
    if cfg["codec"] == "memory":
        from whoosh.codec import memory
        codec = memory.MemoryCodec()
        # several writer sessions on the same in-memory segment (terms of earlier sessions come back)
        cut = len(keys) // 2 if cfg.get("sessions", 1) > 1 else len(keys)
        for part in (keys[:cut], keys[cut:]):
            if part:
                with codec.writer(schema) as w:
                    for k in part:
                        w.add_document(**cworld.concrete_kwargs(adocs[k]))
        rd = codec.reader(schema)
        return rd, rd.close
    ix = RamStorage().create_index(schema)
    if cfg["codec"] == "plaintext":
        from whoosh.codec.plaintext import PlainTextCodec
        codec = PlainTextCodec()
    else:
        from whoosh.codec.whoosh3 import W3Codec
        codec = W3Codec(blocklimit=cfg.get("blocklimit", 128), compression=cfg.get("compression", 3),
                        inlinelimit=cfg.get("inlinelimit", 1))
    nseg = min(cfg.get("segments", 1), len(keys))
    per = (len(keys) + nseg - 1) // nseg
    for i in range(0, len(keys), per):
        w = ix.writer(codec=codec)
        for k in keys[i:i + per]:
            w.add_document(**cworld.concrete_kwargs(adocs[k]))
        w.commit(merge=False)
    rd = ix.reader()
    return rd, rd.close


def check(run):
    quick = run.tier == "quick"
    rng = random.Random(run.seed + 1010)
    run.rule = ("random token streams (repeated terms, position gaps, terms of 1..40 letters incl. multi-byte) over "
                "fields with Existence/Frequency/Positions/Characters formats and vectors x codec configurations "
                "(W3 with block limits 1,2,3,4,128, compression 0/3/9, inlining; in-memory; plain text); list lengths "
                "around block multiples; every posting list (ids, frequency, positions, character ranges), term "
                "statistics and vector judged by ContentCheck.tla; non-trivial = accepted configuration >= 3 documents")
    cases = []
    for rnd in range(2 if quick else 10):
        n = rng.choice([3, 4, 5, 6, 7, 8, 9]) if rnd else 8
        keys = ["k%d" % i for i in range(n)]
        adocs = {}
        for k in keys:
            d = cworld.rand_adoc(rng, k, rich=False)
            d["b4"] = rng.choice([4, 4, 4, 2, 1, 8])          # document boosts 1, 1/2, 1/4, 2 -> stored weights
            # a common term so that one list spans every document (length = n: around block multiples)
            d["t"].setdefault("body", [])
            d["t"]["body"] = [[1]] + d["t"]["body"] + ([[2, 4, 5] * rng.randrange(1, 14)] if rng.random() < 0.3 else [])
            adocs[k] = d
        cfgs = codec_cfgs(quick)
        if quick:
            cfgs = rng.sample(cfgs[:7], 3) + cfgs[7:]
        for cfg in cfgs:
            variant = rng.randrange(6)
            schema = cworld.make_schema(variant)
            try:
                rd, close = build(cfg, schema, adocs, keys)
            except Exception as ex:
                cases.append({"idx": {"docs": []}, "obs": [{"kind": "error", "path": "building the index",
                                                            "err": type(ex).__name__, "msg": str(ex)[:160],
                                                            "where": content.where(ex)}],
                              "cfg": cfg, "plan": None, "adocs": adocs})
                continue
            try:
                idx = cworld.abstract_index(rd, adocs)
                obs = cworld.dump(rd, idx, schema, rng=None, maxterms=10 ** 6, columns=False)
                obs = [o for o in obs if o["kind"] not in ("stored", "fieldlen")]
                run.count(len(obs))
            finally:
                close()
            cases.append({"idx": idx, "obs": obs, "cfg": dict(cfg, variant=variant), "plan": None, "adocs": adocs})
    # short posting lists kept inside the term dictionary (inlinelimit 3 / 9) whose weights are not all 1 although they
    # add up to the number of postings (1/2 + 1/2 + 2; 1/2 + 3/2), and some that are all 1
    for ii in range(2 if quick else 6):
        keys = ["i%d" % j for j in range(6)]
        adocs = {}
        for j, k in enumerate(keys):
            d = cworld.rand_adoc(rng, k, rich=False)
            d["tb"] = {}
            d["t"] = {"body": [], "title": []}
            adocs[k] = d
        # body term a: weights 1/2, 1/2, 2 (three documents); term b: 1, 1; title term a: 1/2 and 3/2 (tf 3 at boost 1/2)
        for k, b4, body, title in (("i0", 2, [[1]], [[1]] * 3), ("i1", 2, [[1], [2]], []), ("i2", 8, [[1]], []),
                                   ("i3", 4, [[2]], []), ("i4", 2, [], [[1]]), ("i5", 4, [[2, 2]], [[2]])):
            adocs[k]["b4"] = b4
            adocs[k]["t"]["body"], adocs[k]["t"]["title"] = list(body), list(title)
        cfg = {"codec": "w3", "blocklimit": rng.choice([2, 128]), "inlinelimit": rng.choice([3, 4, 9]), "case": "inlined weights"}
        variant = rng.randrange(6)
        schema = cworld.make_schema(variant)
        try:
            rd, close = build(cfg, schema, adocs, keys)
            try:
                idx = cworld.abstract_index(rd, adocs)
                obs = cworld.dump(rd, idx, schema, rng=None, maxterms=10 ** 6, columns=False)
                obs = [o for o in obs if o["kind"] not in ("stored", "fieldlen")]
                run.count(len(obs))
            finally:
                close()
            cases.append({"idx": idx, "obs": obs, "cfg": dict(cfg, variant=variant), "plan": None, "adocs": adocs})
        except Exception as ex:
            cases.append({"idx": {"docs": []}, "obs": [{"kind": "error", "path": "building the index", "err": type(ex).__name__,
                                                        "msg": str(ex)[:160], "where": content.where(ex)}],
                          "cfg": cfg, "plan": None, "adocs": adocs})
    rejects = content.judge(run, cases, chunk=4)
    content.report(run, "c10", cases, rejects)


def replay(run, rp):
    raise NotImplementedError
