"""C03 - readers are snapshots; new readers and refresh() see exactly the last commit.
Spec: IndexStore.tla (reader actions, ProbeOK, Snapshot, ReaderOwnGen); binding: storage
traces of sequential histories and of concurrent writer/reader threads validated by
IndexStoreTrace.tla."""
import random
import threading

from harness import ixdriver, ixcommon

LEVEL = "model_checking"


def sequential(run, rng, n, steps):
    items = []
    for i in range(n):
        cfg = {"storage": rng.choice(["file", "ram"]), "compound": rng.random() < 0.7, "reopen": i % 3 == 1}
        if cfg["storage"] == "file" and i % 2 == 0:
            cfg["mmap"] = False
        seed = rng.randrange(1 << 30)
        w = ixdriver.IxWorld(**{k: v for k, v in cfg.items() if k != "history"})
        w.rich_probe = True
        try:
            if i % 5 == 4:
                # every fifth history: commits that renumber the documents under a held, refreshed searcher
                cfg = dict(cfg, history="renumbering")
                ixdriver.renumbering_history(random.Random(seed), w)
            else:
                ixdriver.random_history(random.Random(seed), w, steps)
            t = w.trace()
            run.count(len(t))
            items.append({"trace": t, "writers": w.writers, "readers": w.readers, "cfg": cfg, "seed": seed})
        finally:
            w.close()
    return items


def concurrent(run, rng, n, commits=None, nreaders=2):
    """One writer thread committing in a loop, reader threads opening / refreshing / probing
    concurrently; the log's atomic sections give the real order of storage operations."""
    items = []
    for i in range(n):
        cfg = {"storage": rng.choice(["file", "ram"]), "compound": rng.random() < 0.7}
        if cfg["storage"] == "file" and i % 2 == 1:
            cfg["mmap"] = False
        seed = rng.randrange(1 << 30)
        commits = rng.choice([6, 12])      # 12: generations cross a digit boundary (9 -> 10)
        w = ixdriver.IxWorld(**cfg)
        stop = threading.Event()
        errors = []

        def writer_thread():
            r = random.Random(seed)
            try:
                for c in range(commits):
                    name, wr = w.writer()
                    pool = ["k1", "k2", "k3", "k4"]
                    r.shuffle(pool)
                    for _ in range(r.randrange(1, 3)):
                        k = pool.pop()
                        w.api(name, "delete", k)
                        if r.random() < 0.7:
                            w.api(name, "add", k)
                            w.actor(name)
                            wr.update_document(key=k, body=u"x")
                        else:
                            w.actor(name)
                            wr.delete_by_term("key", k)
                    w.actor(name)
                    m = r.random()
                    if m < 0.4:
                        wr.commit(merge=False)
                    elif m < 0.7:
                        wr.commit(optimize=True)
                    else:
                        wr.commit()
            except Exception as ex:
                errors.append(repr(ex))
            finally:
                stop.set()

        def reader_thread(j):
            r = random.Random(seed + 1 + j)
            held = None
            try:
                while not stop.is_set():
                    if held is None or r.random() < 0.3:
                        name = w.new_reader_name()
                        ok, s = w.guarded(name, "searcher", w.reader_handle().searcher)
                        if not ok:
                            continue
                        if held is not None:
                            held[1].close()
                        held = (name, s)
                    elif r.random() < 0.5:
                        name2 = w.new_reader_name()
                        ok, s2 = w.guarded(name2, "refresh", held[1].refresh)
                        if ok and s2 is not held[1]:
                            held = (name2, s2)
                    w.probe(held[0], held[1])
            except Exception as ex:
                errors.append(repr(ex))

        ths = [threading.Thread(target=writer_thread)] + [threading.Thread(target=reader_thread, args=(j,))
                                                         for j in range(nreaders)]
        try:
            for t in ths:
                t.start()
            for t in ths:
                t.join(120)
            t = w.trace()
            run.count(len(t))
            items.append({"trace": t, "writers": w.writers, "readers": w.readers,
                          "cfg": dict(cfg, threads=1 + nreaders), "seed": seed, "errors": errors})
        finally:
            w.close()
    return items


def staged_open(run, rng, n):
    """The race of the retry loop in FileIndex.reader(), made deterministic: a reader has read the TOC and is about
    to open its first segment file when another writer commits a merge that removes that segment (the writer's
    whole transaction runs inside the storage gate of the reader's operation).  The reader must come back with a
    searcher of one of the committed generations (the code's answer: it reads the TOC again)."""
    items = []
    for i in range(n):
        cfg = {"storage": ["file", "ram", "file"][i % 3], "compound": i % 4 != 3, "scenario": "staged-open",
               "via": ["searcher", "refresh"][(i // 3) % 2]}
        if cfg["storage"] == "file" and i % 2 == 0:
            cfg["mmap"] = False
        seed = rng.randrange(1 << 30)
        w = ixdriver.IxWorld(**{k: v for k, v in cfg.items() if k not in ("scenario", "via")})
        w.rich_probe = True
        try:
            r = random.Random(seed)
            keys = ["k1", "k2", "k3", "k4", "k5"]
            for c in range(r.choice([2, 3])):
                name, wr = w.writer()
                k = keys[c]
                w.api(name, "delete", k)
                w.api(name, "add", k)
                w.actor(name)
                wr.update_document(key=k, body=u"xx %s" % k, n=len(k))
                wr.commit(merge=False)
            held = None
            if cfg["via"] == "refresh":
                hname = w.new_reader_name()
                ok, held = w.guarded(hname, "searcher", w.reader_handle().searcher)
                if ok:
                    w.probe(hname, held)
                # (a segment the held searcher does not have yet, so that refresh() has something to open)
                name, wr = w.writer()
                w.api(name, "delete", "k4")
                w.api(name, "add", "k4")
                w.actor(name)
                wr.update_document(key=u"k4", body=u"xx k4", n=2)
                wr.commit(merge=False)
            rname = w.new_reader_name()
            state = {"fired": False, "busy": False}

            def gate(op, an, rname=rname):
                if state["busy"] or state["fired"] or w.log.who() != rname:
                    return
                if op == "open" and an.startswith("seg:"):
                    state["fired"] = state["busy"] = True
                    try:
                        name, wr = w.writer()
                        w.api(name, "delete", "k5")
                        w.api(name, "add", "k5")
                        w.actor(name)
                        wr.update_document(key=u"k5", body=u"xx k5", n=2)
                        wr.commit(optimize=True)
                    finally:
                        w.actor(rname)
                        state["busy"] = False
            w.log.gate = gate
            try:
                if held is not None:
                    ok, s = w.guarded(rname, "refresh", held.refresh)
                else:
                    ok, s = w.guarded(rname, "searcher", w.reader_handle().searcher)
            finally:
                w.log.gate = None
            if ok:
                w.probe(rname, s)
                name2 = w.new_reader_name()
                ok2, s2 = w.guarded(name2, "refresh", s.refresh)
                if ok2:
                    w.probe(name2, s2)
            t = w.trace()
            run.count(len(t))
            items.append({"trace": t, "writers": w.writers, "readers": w.readers, "cfg": dict(cfg, fired=state["fired"]),
                          "seed": seed})
        finally:
            w.close()
    return items


def check(run):
    quick = run.tier == "quick"
    rng = random.Random(run.seed + 303)
    run.rule = ("IndexStore.tla model-checked (2 writers, 1 reader, crash at every step); storage traces of random "
                "sequential histories (held searchers, refresh, cancel, optimize; file/RAM, compound on/off) and of "
                "writer/reader thread races validated by IndexStoreTrace.tla incl. probes of every held searcher; "
                "non-trivial = accepted trace with >=2 commits")
    ixcommon.model_check(run, "IndexStoreMC_small.cfg" if quick else "IndexStoreMC.cfg", "IndexStoreMC")
    items = sequential(run, rng, 25 if quick else 250, 14)
    items += concurrent(run, rng, 6 if quick else 60)
    staged = staged_open(run, rng, 6 if quick else 24)
    if not any(it["cfg"]["fired"] for it in staged):
        run.machinery("vacuity: no staged reader open reached a segment file")
    items += staged
    rejects = ixcommon.validate(run, items)
    ixcommon.report(run, "c03", items, rejects)
    for it in items:
        for err in it.get("errors", []):
            run.violation({"check": "c03-thread-exception", "err": err[:80]}, {"cfg": it["cfg"], "seed": it["seed"]})


def replay(run, rp):
    raise NotImplementedError
