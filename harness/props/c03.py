"""C03 - readers are snapshots; new readers and refresh() see exactly the last commit.
Spec: IndexStore.tla (reader actions, ProbeOK, Snapshot, ReaderOwnGen); binding: storage
traces of sequential histories and of concurrent writer/reader threads validated by
IndexStoreTrace.tla."""
import random
import threading

from harness import ixdriver, ixcommon

LEVEL = "model_checking"


def sequential(run, rng, n, steps):
    items = []
    for i in range(n):
        cfg = {"storage": rng.choice(["file", "ram"]), "compound": rng.random() < 0.7, "reopen": i % 3 == 1}
        seed = rng.randrange(1 << 30)
        w = ixdriver.IxWorld(**{k: v for k, v in cfg.items() if k != "history"})
        w.rich_probe = True
        try:
            if i % 5 == 4:
                # every fifth history: commits that renumber the documents under a held, refreshed searcher
                cfg = dict(cfg, history="renumbering")
                ixdriver.renumbering_history(random.Random(seed), w)
            else:
                ixdriver.random_history(random.Random(seed), w, steps)
            t = w.trace()
            run.count(len(t))
            items.append({"trace": t, "writers": w.writers, "readers": w.readers, "cfg": cfg, "seed": seed})
        finally:
            w.close()
    return items


def concurrent(run, rng, n, commits=None, nreaders=2):
    """One writer thread committing in a loop, reader threads opening / refreshing / probing
    concurrently; the log's atomic sections give the real order of storage operations."""
    items = []
    for i in range(n):
        cfg = {"storage": rng.choice(["file", "ram"]), "compound": rng.random() < 0.7}
        seed = rng.randrange(1 << 30)
        commits = rng.choice([6, 12])      # 12: generations cross a digit boundary (9 -> 10)
        w = ixdriver.IxWorld(**cfg)
        stop = threading.Event()
        errors = []

        def writer_thread():
            r = random.Random(seed)
            try:
                for c in range(commits):
                    name, wr = w.writer()
                    pool = ["k1", "k2", "k3", "k4"]
                    r.shuffle(pool)
                    for _ in range(r.randrange(1, 3)):
                        k = pool.pop()
                        w.api(name, "delete", k)
                        if r.random() < 0.7:
                            w.api(name, "add", k)
                            w.actor(name)
                            wr.update_document(key=k, body=u"x")
                        else:
                            w.actor(name)
                            wr.delete_by_term("key", k)
                    w.actor(name)
                    m = r.random()
                    if m < 0.4:
                        wr.commit(merge=False)
                    elif m < 0.7:
                        wr.commit(optimize=True)
                    else:
                        wr.commit()
            except Exception as ex:
                errors.append(repr(ex))
            finally:
                stop.set()

        def reader_thread(j):
            r = random.Random(seed + 1 + j)
            held = None
            try:
                while not stop.is_set():
                    if held is None or r.random() < 0.3:
                        name = w.new_reader_name()
                        ok, s = w.guarded(name, "searcher", w.reader_handle().searcher)
                        if not ok:
                            continue
                        if held is not None:
                            held[1].close()
                        held = (name, s)
                    elif r.random() < 0.5:
                        name2 = w.new_reader_name()
                        ok, s2 = w.guarded(name2, "refresh", held[1].refresh)
                        if ok and s2 is not held[1]:
                            held = (name2, s2)
                    w.probe(held[0], held[1])
            except Exception as ex:
                errors.append(repr(ex))

        ths = [threading.Thread(target=writer_thread)] + [threading.Thread(target=reader_thread, args=(j,))
                                                         for j in range(nreaders)]
        try:
            for t in ths:
                t.start()
            for t in ths:
                t.join(120)
            t = w.trace()
            run.count(len(t))
            items.append({"trace": t, "writers": w.writers, "readers": w.readers,
                          "cfg": dict(cfg, threads=1 + nreaders), "seed": seed, "errors": errors})
        finally:
            w.close()
    return items


def check(run):
    quick = run.tier == "quick"
    rng = random.Random(run.seed + 303)
    run.rule = ("IndexStore.tla model-checked (2 writers, 1 reader, crash at every step); storage traces of random "
                "sequential histories (held searchers, refresh, cancel, optimize; file/RAM, compound on/off) and of "
                "writer/reader thread races validated by IndexStoreTrace.tla incl. probes of every held searcher; "
                "non-trivial = accepted trace with >=2 commits")
    ixcommon.model_check(run, "IndexStoreMC_small.cfg" if quick else "IndexStoreMC.cfg", "IndexStoreMC")
    items = sequential(run, rng, 25 if quick else 250, 14)
    items += concurrent(run, rng, 6 if quick else 60)
    rejects = ixcommon.validate(run, items)
    ixcommon.report(run, "c03", items, rejects)
    for it in items:
        for err in it.get("errors", []):
            run.violation({"check": "c03-thread-exception", "err": err[:80]}, {"cfg": it["cfg"], "seed": it["seed"]})


def replay(run, rp):
    raise NotImplementedError
