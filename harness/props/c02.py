"""C02 - a commit is atomic with respect to process crashes.
Spec: IndexStore.tla - Recoverable / OrphanFree hold in every state with Crash enabled at
every step (TLC); binding: a real writer process is killed (os._exit) at storage-operation
boundary n, for every n (quick: a sample), the surviving directory is re-opened, probed,
written to again, and the whole storage trace (base history + crashed transaction + crash +
recovery) is validated by IndexStoreTrace.tla: the reader after the crash must show exactly
content[Latest] (old or new state), the next commit must leave no orphaned segment files."""
import os
import random
import shutil
import tempfile

from harness import ixdriver, ixcommon
from harness.storage import Log, TracingFileStorage

LEVEL = "model_checking"

# "tenth-generation": the crashing commit writes generation 10 (the generation number gains a digit)
SHAPES = ["default", "nomerge", "optimize", "delete-only", "clear", "cancel", "loose", "many-small-segments",
          "tenth-generation"]


def run_txn(ix, log, name, shape, rng):
    """The transaction that will be killed. Emits api events for the spec."""
    from whoosh import writing
    log.set_actor(name)
    kw = {}
    if shape == "loose":
        kw["compound"] = False
    wr = ix.writer(**kw)

    def upd(k):
        log.emit("api", op="delete", key=k)
        log.emit("api", op="add", key=k)
        wr.update_document(key=k, body=u"crash %s" % k, n=3)

    def dele(k):
        log.emit("api", op="delete", key=k)
        wr.delete_by_term("key", k)
    if shape == "delete-only":
        dele("b1")
        wr.commit()
    elif shape == "clear":
        upd("new1")
        for k in ["b%d" % i for i in range(0, 12)]:
            log.emit("api", op="delete", key=k)
        wr.commit(mergetype=writing.CLEAR)
    elif shape == "cancel":
        upd("new1")
        dele("b1")
        wr.cancel()
    else:
        upd("new1")
        upd("b0")
        dele("b1")
        if shape == "nomerge":
            wr.commit(merge=False)
        elif shape == "optimize":
            wr.commit(optimize=True)
        else:
            wr.commit()


def build_base(shape, rng):
    """Base index in the parent (traced); returns the IxWorld."""
    w = ixdriver.IxWorld(storage="file", compound=(shape != "loose"))
    ncommits = 6 if shape == "many-small-segments" else 9 if shape == "tenth-generation" else rng.choice([2, 3])
    if shape == "clear":
        ncommits = 2
    k = 0
    for c in range(ncommits):
        name, wr = w.writer()
        for _ in range(2 if c == 0 else 1):
            key = "b%d" % k
            k += 1
            w.api(name, "delete", key)
            w.api(name, "add", key)
            w.actor(name)
            wr.update_document(key=key, body=u"base", n=1)
        w.actor(name)
        wr.commit(merge=False)
    return w


_SYSCALLS = ("rename", "replace", "remove", "unlink", "mkdir", "rmdir", "open", "link", "truncate", "ftruncate")


def _real_name(an):
    parts = an.split(":")
    if parts[0] == "seg":
        return "MAIN_%s.%s" % (parts[1], parts[2])
    if parts[0] == "tmptoc":
        return "_MAIN_%s.toc.%s" % (parts[1], ":".join(parts[2:]))
    if parts[0] == "toc":
        return "_MAIN_%s.toc" % parts[1]
    return None


def crash_case(base_dir, base_events, shape, seed, crash_at, truncate=None, sys_at=None):
    """Copies the base directory, runs the transaction in a child that dies at storage
    operation `crash_at` (None: runs to completion), then recovers in this process.
    sys_at: the child dies instead just before its n-th call of a file-system function (os.rename, os.open,
    open(), ...), i.e. also *inside* a storage operation, between two of its system calls.
    Returns (trace, writers, readers, nops, crashed)."""
    d = tempfile.mkdtemp(prefix="verif-c02-")
    logpath = d + ".log"
    try:
        shutil.rmtree(d)
        shutil.copytree(base_dir, d)
        pid = os.fork()
        if pid == 0:
            code = 0
            try:
                log = Log(path=logpath)
                count = [0]

                def gate(op, name):
                    count[0] = log.opcount - base_ops[0]
                    if crash_at is not None and count[0] == crash_at:
                        os._exit(9)
                base_ops = [0]
                st = TracingFileStorage(d, log=log)
                log.set_actor("rc0")
                ix = st.open_index()
                base_ops[0] = log.opcount
                log.gate = gate
                ncalls = [0]
                if sys_at is not None:
                    import builtins
                    from harness.storage import _OPEN

                    def gate(op, name):        # noqa: F811 - remembers the operation in flight
                        with _OPEN(logpath + ".inflight", "w") as f:
                            f.write("%s %s %d" % (op, name, log.opcount))

                    def tick(fn):
                        def wrapped(*a, **kw):
                            ncalls[0] += 1
                            if ncalls[0] == sys_at:
                                os._exit(9)
                            return fn(*a, **kw)
                        return wrapped
                    log.gate = gate
                    for nm in _SYSCALLS:
                        if hasattr(os, nm):
                            setattr(os, nm, tick(getattr(os, nm)))
                    builtins.open = tick(builtins.open)
                run_txn(ix, log, "wc", shape, random.Random(seed))
                log.gate = None
                from harness.storage import _OPEN as _o
                with _o(logpath + ".n", "w") as f:
                    f.write(str(ncalls[0] if sys_at is not None else count[0]))
            except BaseException as ex:
                code = 3
                try:
                    with open(logpath + ".err", "w") as f:
                        f.write(repr(ex))
                except Exception:
                    pass
            os._exit(code)
        _, status = os.waitpid(pid, 0)
        code = os.WEXITSTATUS(status) if os.WIFEXITED(status) else -1
        child_events = Log(path=logpath).load() if os.path.exists(logpath) else []
        nops = int(open(logpath + ".n").read()) if os.path.exists(logpath + ".n") else None
        crashed = code == 9
        events = list(base_events) + child_events
        if code == 3:
            events.append({"proc": "wc", "ev": "apierror", "call": "transaction",
                           "err": open(logpath + ".err").read()[:100] if os.path.exists(logpath + ".err") else "?"})
        if crashed and sys_at is not None and os.path.exists(logpath + ".inflight"):
            # the storage operation in flight when the process died may or may not have taken effect - nothing
            # else may have happened: its event is added iff the directory shows its effect
            op, an, opn = open(logpath + ".inflight").read().split(" ")
            done = any(e.get("opn") == int(opn) and e["ev"] not in ("api",) for e in child_events)
            rn = _real_name(an)
            if not done and rn is not None:
                there = os.path.exists(os.path.join(d, rn))
                if op == "create" and there:
                    events.append({"proc": "wc", "ev": "create", "file": an})
                elif op == "delete" and not there:
                    events.append({"proc": "wc", "ev": "delete", "file": an})
                elif op == "rename" and there and an.startswith("toc:"):
                    g = an.split(":")[1]
                    left = [fn for fn in os.listdir(d) if fn.startswith("_MAIN_%s.toc." % g)]
                    if not left:
                        try:
                            summ = TracingFileStorage(d, log=Log())._toc_summary(rn)
                            src = [e["file"] for e in child_events if e["ev"] == "create" and e["file"].startswith("tmptoc:%s:" % g)]
                            events.append({"proc": "wc", "ev": "rename", "src": src[-1] if src else "tmptoc:%s:x" % g,
                                           "dst": an, "toc": summ})
                        except Exception:
                            pass        # not a complete TOC: the recovery below meets it
        if crashed:
            events.append({"proc": "wc", "ev": "crash"})
            if truncate is not None:
                # files the dead writer still had open: keep an arbitrary prefix
                opened = {}
                for e in child_events:
                    if e["ev"] == "create" and not e["file"].startswith("tmp:"):
                        opened[e["file"]] = True
                    elif e["ev"] == "close":
                        opened.pop(e["file"], None)
                names = os.listdir(d)
                for an in opened:
                    parts = an.split(":")
                    for fn in names:
                        if (parts[0] == "seg" and fn == "MAIN_%s.%s" % (parts[1], parts[2])) or \
                                (parts[0] == "tmptoc" and fn == "_MAIN_%s.toc.%s" % (parts[1], ":".join(parts[2:]))):
                            pth = os.path.join(d, fn)
                            size = os.path.getsize(pth)
                            with open(pth, "r+b") as f:
                                f.truncate(int(size * truncate))
        # recovery, traced in this process
        log2 = Log()
        st2 = TracingFileStorage(d, log=log2)
        readers, writers = ["rc0", "rc1", "rc2"], ["wc", "wr1"]

        def guarded(actor, call, fn):
            log2.set_actor(actor)
            try:
                return True, fn()
            except Exception as ex:
                log2.emit("apierror", call=call, err=type(ex).__name__, msg=str(ex)[:150])
                return False, None
        ok, ix2 = guarded("rc1", "searcher", st2.open_index)
        if ok:
            wld = ixdriver.IxWorld.__new__(ixdriver.IxWorld)
            wld.log, wld.ix, wld.dir = log2, ix2, None
            wld.writers, wld.readers, wld.nw, wld.nr = writers, readers, 0, 0
            ok, s = guarded("rc1", "searcher", ix2.searcher)
            if ok:
                wld.probe("rc1", s)
                s.close()
            if crash_at is not None and crash_at % 2 == 1:
                # the first transaction after the crash changes nothing: its commit still is a commit (what the
                # dead writer left behind is cleaned up by it)
                writers.insert(1, "wr0")
                ok, wr0 = guarded("wr0", "writer", lambda: ix2.writer(timeout=0.0))
                if ok:
                    guarded("wr0", "empty-commit-after-crash", wr0.commit)
            ok, wr = guarded("wr1", "writer", lambda: ix2.writer(timeout=0.0))
            if ok:
                log2.emit("api", op="delete", key="after")
                log2.emit("api", op="add", key="after")

                def fin():
                    wr.update_document(key=u"after", body=u"after the crash", n=7)
                    wr.commit()
                guarded("wr1", "commit-after-crash", fin)
            ok, s = guarded("rc2", "searcher", ix2.searcher)
            if ok:
                wld.probe("rc2", s)
                s.close()
        events += log2.events
        # operation numbers (relative to the transaction) at which the child did something other than write
        bounds = sorted(set(e["opn"] - child_events[0]["opn"] + 1 for e in child_events
                            if e["proc"] == "wc" and e["ev"] != "api")) if child_events else []
        crash_case.bounds = bounds
        return ixdriver.convert(events), writers, readers, nops, crashed
    finally:
        shutil.rmtree(d, ignore_errors=True)
        for suf in ("", ".n", ".err", ".order", ".inflight"):
            if os.path.exists(logpath + suf):
                os.unlink(logpath + suf)


def check(run):
    quick = run.tier == "quick"
    rng = random.Random(run.seed + 202)
    run.rule = ("IndexStore.tla model-checked with Crash enabled at every step (Recoverable, OrphanFree in every "
                "state); for each transaction shape a real writer process is killed with os._exit at storage "
                "operation n (thorough: every n; quick: a sample incl. every non-write operation boundary of one "
                "shape) and open files truncated; reopened index probed and written again; whole trace validated by "
                "IndexStoreTrace.tla; non-trivial = accepted trace with >=2 commits")
    ixcommon.model_check(run, "IndexStoreMC_small.cfg" if quick else "IndexStoreMC.cfg", "IndexStoreMC")
    items = []
    # (quick: every shape too - one of them, chosen by the seed, at every boundary, the others at a sample that
    # always has the last boundaries, where the commit protocol runs)
    shapes = SHAPES if not quick else [SHAPES[run.seed % len(SHAPES)]] + SHAPES
    shapes = list(dict.fromkeys(shapes))
    points = 0
    for shape in shapes:
        seed = rng.randrange(1 << 30)
        base = build_base(shape, random.Random(seed))
        try:
            base_events = list(base.log.events)
            bw, br = list(base.writers), list(base.readers)
            tr, W, R, nops, crashed = crash_case(base.dir, base_events, shape, seed, None)
            items.append({"trace": tr, "writers": bw + W, "readers": br + R, "cfg": {"shape": shape, "crash_at": None},
                          "seed": seed})
            if not nops:
                continue
            bounds = [b for b in getattr(crash_case, "bounds", []) if 1 <= b <= nops]
            # dying just before / just after every non-write storage operation
            edge = sorted(set(bounds + [b + 1 for b in bounds if b + 1 <= nops]))
            if quick:
                pts = sorted(set(rng.sample(range(1, nops + 1), min(nops, 4)) + [1, nops] +
                                 (edge if shape == shapes[0] else rng.sample(edge, min(len(edge), 6)) + edge[-14:])))
            else:
                pts = list(range(1, nops + 1)) if nops <= 400 else \
                    sorted(set(edge + rng.sample(range(1, nops + 1), 250)))
            for n in pts:
                if n < 1:
                    continue
                for trunc in ([None] if quick else [None, 0.0, 0.5]):
                    tr, W, R, _, crashed = crash_case(base.dir, base_events, shape, seed, n, truncate=trunc)
                    run.count(len(tr))
                    points += 1
                    items.append({"trace": tr, "writers": bw + W, "readers": br + R,
                                  "cfg": {"shape": shape, "crash_at": n, "of": nops, "truncate": trunc}, "seed": seed})
        finally:
            base.close()
    # dying *inside* storage operations: before the n-th file-system call of the transaction (quick: every call of
    # one shape's transaction and the last calls - the commit protocol - of two others)
    syspoints = 0
    sshapes = [shapes[0], "default", "tenth-generation"] if quick else SHAPES
    for si, shape in enumerate(dict.fromkeys(sshapes)):
        seed = rng.randrange(1 << 30)
        base = build_base(shape, random.Random(seed))
        try:
            base_events = list(base.log.events)
            bw, br = list(base.writers), list(base.readers)
            _, _, _, ncalls, _ = crash_case(base.dir, base_events, shape, seed, None, sys_at=0)
            if not ncalls:
                continue
            pts = range(1, ncalls + 1) if (si == 0 or not quick) else range(max(1, ncalls - 11), ncalls + 1)
            for n in pts:
                tr, W, R, _, crashed = crash_case(base.dir, base_events, shape, seed, None, sys_at=n)
                run.count(len(tr))
                syspoints += 1
                items.append({"trace": tr, "writers": bw + W, "readers": br + R,
                              "cfg": {"shape": shape, "crash_before_fs_call": n, "of": ncalls}, "seed": seed})
        finally:
            base.close()
    run.extra["crash_points"] = points
    run.extra["crash_points_inside_operations"] = syspoints
    rejects = ixcommon.validate(run, items, chunk=80)
    ixcommon.report(run, "c02", items, rejects)


def replay(run, rp):
    raise NotImplementedError
