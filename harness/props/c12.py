"""C12 - quality bounds are true upper bounds on scores.
Spec: MatcherTrace.tla (quality / blockscan / skipq / replace clauses).  Exact regime
(Frequency) and rank regime (every shipped weighting that claims quality support): all
floats of one trace are replaced by their ranks, the spec only compares."""
import random

from harness import mtrace
from harness.props import c11

LEVEL = "model_checking"


def thresholds(rec, m):
    """negative, 0, each distinct score of the list, between, above the maximum"""
    try:
        c = m.copy()
        scores = []
        while c.is_active() and len(scores) < 40:
            scores.append(float(c.score()))
            c.next()
    except Exception:
        scores = []
    ds = sorted(set(scores))
    out = [-1.0, 0]
    for a, b in zip(ds, ds[1:]):
        out += [a, (a + b) / 2.0]
    if ds:
        out += [ds[-1], ds[-1] * 2 + 1, ds[0] / 2.0]
    return out


def check(run):
    quick = run.tier == "quick"
    rng = random.Random(run.seed + 1212)
    run.rule = ("random programs incl. skip_to_quality(q)/replace(q) for q in {negative, 0, every distinct score, "
                "midpoints, above max} with block_quality/max_quality/blockscan observations after every step, over "
                "matchers from real queries; exact regime (Frequency) and rank regime (BM25F variants, TF_IDF, PL2, "
                "Multi, Function weighting); each trace validated by MatcherTrace.tla")
    for mode, nw in (("exact", 8 if quick else 80), ("rank", 10 if quick else 100)):
        trs, meta, cases = c11.collect(run, rng, nw, 30 if quick else 40, mode, thresholds, quality=True,
                                       ndocs=(5, 14), depth=2)
        c11.judge_traces(run, "C12", trs, meta, "c12-" + mode)
        c11.NOTIMPL.clear()
        run.extra.setdefault("quality_events", 0)
        run.extra["quality_events"] += sum(1 for t in trs for e in t if e["ev"] in ("quality", "blockscan", "skipq", "replace"))
    # longer programs over small trees on longer posting lists: block caches across reset()/copy(), repeated
    # replace() with rising thresholds (what a collector does), unions that turn into AndMaybe/Intersection
    for mode, nw in (("exact", 6 if quick else 60), ("rank", 4 if quick else 40)):
        trs, meta, cases = c11.collect(run, rng, nw, 30 if quick else 40, mode, thresholds, quality=True,
                                       ndocs=(12, 24), depth=2, nsteps=(12, 30),
                                       ops=["term", "or", "andmaybe", "and", "dismax", "andnot"])
        c11.judge_traces(run, "C12", trs, meta, "c12-long-" + mode)
        c11.NOTIMPL.clear()
        run.extra["quality_events"] += sum(1 for t in trs for e in t if e["ev"] in ("quality", "blockscan", "skipq", "replace"))
    if not run.extra.get("quality_events"):
        run.machinery("vacuity: no quality event recorded")


def replay(run, rp):
    raise NotImplementedError
