"""C12 - quality bounds are true upper bounds on scores.
Spec: MatcherTrace.tla (quality / blockscan / skipq / replace clauses).  Exact regime
(Frequency) and rank regime (every shipped weighting that claims quality support): all
floats of one trace are replaced by their ranks, the spec only compares."""
import random

from harness import mtrace
from harness.props import c11

LEVEL = "model_checking"


def thresholds(rec, m):
    """negative, 0, each distinct score of the list, between, above the maximum"""
    try:
        c = m.copy()
        scores = []
        while c.is_active() and len(scores) < 40:
            scores.append(float(c.score()))
            c.next()
    except Exception:
        scores = []
    ds = sorted(set(scores))
    out = [-1.0, 0]
    for a, b in zip(ds, ds[1:]):
        out += [a, (a + b) / 2.0]
    if ds:
        # (just below the best score too - by dyadic factors, the exact regime has no other numbers: a threshold that
        # only the best entries pass need not be near a midpoint)
        out += [ds[-1], ds[-1] * 2 + 1, ds[0] / 2.0, ds[-1] * 0.875, ds[-1] * 0.75]
    return out


def stepped_docs(rng, n):
    """body: term a in every document, term b in every `stride`-th; frequencies constant over runs of documents"""
    stride = rng.choice([2, 2, 3])
    runlen = rng.choice([3, 4, 6, 8])
    levels = [rng.choice([1, 1, 2, 3, 4]) for _ in range(n // runlen + 2)]
    if rng.random() < 0.5:
        # good runs and poor runs in turn (what makes a top-N search skip: the good ones set the threshold)
        levels = [rng.choice([2, 3, 4]) if j % 2 == 0 else 1 for j in range(n // runlen + 2)]
    docs = {}
    for i in range(n):
        tf = levels[i // runlen]
        body = [[1]] * tf
        if i % stride == 0:
            body = body + [[2]] * levels[(i // runlen + 1) % len(levels)]
        # a sparse third term, preferably on the first document of a run (where a better block begins)
        if rng.random() < (0.6 if i % runlen == 0 else 0.15):
            body = body + [[1, 2]]
        docs["k%02d" % i] = {"t": {"body": body, "title": [[1]] if rng.random() < 0.5 else []}, "n": {}, "b4": 4}
        # a keyword (not scorable) field whose postings weigh more than 1 in the later, better runs
        if i % 3 != 1:
            docs["k%02d" % i]["t"]["tags"] = [[1]] * (1 + (i // runlen) * 2 % 7)
    return docs


def dense_docs(rng, n):
    """three terms (a, b, ab) in *every* document, frequencies constant over runs of documents and raised on the
    first document of some runs: a conjunction of the three holds every document, so its nested intersections
    move posting by posting inside a block and land on the first document of the next (better) one"""
    runlen = rng.choice([2, 3, 4])
    nruns = n // runlen + 2
    lv = [[rng.choice([1, 1, 1, 2, 3]) for _ in range(nruns)] for _ in range(3)]
    docs = {}
    for i in range(n):
        r = i // runlen
        tfs = [lv[0][r], lv[1][r], lv[2][r]]
        if i % runlen == 0 and r > 0 and (r * 7 + runlen) % 3 != 0:
            tfs = [tfs[0] * 4, tfs[1] * 4, tfs[2]]
        if i == 1:
            tfs = [tfs[0] + 1, tfs[1] + 1, tfs[2]]       # an early, slightly better document sets the threshold
        docs["k%02d" % i] = {"t": {"body": [[1]] * tfs[0] + [[2]] * tfs[1] + [[1, 2]] * tfs[2], "title": []},
                             "n": {}, "b4": 4}
    return docs


def dense_query(rng):
    ts = [{"op": "term", "f": "body", "t": t, "b4": 4} for t in ([1], [2], [1, 2])]
    rng.shuffle(ts)
    form = rng.choice(["and3", "and3", "nested-left", "nested-right", "andmaybe"])
    if form == "and3":
        return {"op": "and", "kids": ts, "b4": 4}
    if form == "nested-left":
        return {"op": "and", "kids": [{"op": "and", "kids": ts[:2], "b4": 4}, ts[2]], "b4": 4}
    if form == "nested-right":
        return {"op": "and", "kids": [ts[0], {"op": "and", "kids": ts[1:], "b4": 4}], "b4": 4}
    return {"op": "andmaybe", "a": {"op": "and", "kids": ts[:2], "b4": 4}, "b": ts[2]}


def windowed_docs(rng, n):
    """mostly empty documents; a few carriers in the first 2048-document window and better ones after it"""
    docs = {}
    first = set(rng.sample(range(0, 2048), 10))
    later = set(rng.sample(range(2048, n), 8))
    for i in range(n):
        d = {"t": {}, "n": {}, "b4": 4}
        if i in first:
            d["t"]["body"] = [[rng.randrange(1, 4)] for _ in range(rng.randrange(1, 3))]
        elif i in later:
            d["t"]["body"] = [[rng.randrange(1, 4)] for _ in range(rng.randrange(2, 6))]
        docs["k%05d" % i] = d
    return docs


def windowed_query(rng):
    T = lambda c: {"op": "term", "f": "body", "t": [c], "b4": rng.choice([4, 4, 8])}
    kids = [T(1), T(2), T(3)] + ([T(rng.randrange(1, 4))] if rng.random() < 0.3 else [])
    rng.shuffle(kids)
    return {"op": "or", "kids": kids, "b4": rng.choice([4, 8, 16, 2])}


def stepped_plan(rng, adocs):
    """documents in key order, in one segment or two"""
    ks = sorted(adocs)
    if rng.random() < 0.7:
        return [("commit", ks, {"merge": False})]
    cut = rng.randrange(1, len(ks))
    return [("commit", ks[:cut], {"merge": False}), ("commit", ks[cut:], {"merge": False})]


def kw_query(rng):
    """a term of the keyword field beside scored clauses (only the forms `kw` of stepped_query)"""
    while True:
        q = stepped_query(rng)
        if "tags" in repr(q):
            return q


def flat_docs(rng, n):
    """every word at most once per document: a everywhere, b in every 2nd / 3rd document, ab here and there (with
    clauses weighted far below 1 the coordination bonus of a document holding all of them outweighs its own score)"""
    stride = rng.choice([2, 3])
    docs = {}
    for i in range(n):
        body = [[1]] + ([[2]] if i % stride == 0 else []) + ([[1, 2]] if rng.random() < 0.3 else [])
        rng.shuffle(body)
        docs["k%02d" % i] = {"t": {"body": body, "title": []}, "n": {}, "b4": 4}
    return docs


def spanfirst_docs(rng, n):
    """b (always once) early in documents that hold ab several times further on; b or ab alone; ab only late"""
    docs = {}
    for i in range(n):
        kind = rng.choice(["qualifier", "qualifier", "light-b", "light-ab", "late"])
        if kind == "qualifier":
            body = [[1]] * rng.randrange(0, 4) + [[2]] + [[1, 2]] * rng.randrange(2, 5)
        elif kind == "light-b":
            body = [[2]]
        elif kind == "light-ab":
            body = [[1, 2]]
        else:
            body = [[1]] * 5 + [[1, 2]] * 3
        docs["k%02d" % i] = {"t": {"body": body, "title": []}, "n": {}, "b4": 4}
    return docs


def spanfirst_union_query(rng):
    """SpanFirst over a union of a rare, light word and a frequent, heavy one (a document may qualify through the
    position of the one and score through the other)"""
    t = lambda c: {"op": "term", "f": "body", "t": c, "b4": 4}
    kids = [t([2]), t([1, 2])] if rng.random() < 0.6 else [t([1]), t([2]), t([1, 2])][:rng.choice([2, 3])]
    rng.shuffle(kids)
    return {"op": "spanfirst", "q": {"op": "or", "kids": kids, "b4": 4}, "limit": rng.choice([0, 1, 2, 3, 3, 4])}


def coord_query(rng):
    """Or with a coordination bonus over clauses weighted far below 1"""
    t = lambda c: {"op": "term", "f": "body", "t": [c], "b4": 1}
    kids = [t(1), t(2)] + ([{"op": "term", "f": "body", "t": [1, 2], "b4": 1}] if rng.random() < 0.3 else [])
    return {"op": "or", "kids": kids, "b4": 4, "scale": rng.choice([0.9, 0.99, 0.5, 0.99])}


def stepped_query(rng):
    def t(c):
        return {"op": "term", "f": "body", "t": [c], "b4": rng.choice([4, 4, 8, 1])}
    a, b = (t(1), t(2)) if rng.random() < 0.5 else (t(2), t(1))
    c = {"op": "term", "f": rng.choice(["body", "title"]), "t": rng.choice([[1], [1, 2]]), "b4": 4}
    form = rng.choice(["and", "and", "and3", "andmaybe", "andmaybe", "andmaybe-or", "or", "andor", "dismax",
                       "andnot-and", "andnot-and", "andnot", "andnot-or", "andnot-or", "dismax-tb", "or-coord", "or-coord",
                       "kw", "kw"])
    if form == "kw":
        # a term of the keyword field (scored by its posting weight under every model) beside a scored clause
        kw = {"op": "term", "f": "tags", "t": [1], "b4": rng.choice([4, 4, 2])}
        return rng.choice([{"op": "or", "kids": [a, kw], "b4": 4}, {"op": "dismax", "kids": [kw, b], "b4": 4},
                           {"op": "andmaybe", "a": a, "b": kw}, {"op": "andmaybe", "a": kw, "b": b},
                           {"op": "or", "kids": [kw, c, b], "b4": 4}])
    if form == "and":
        return {"op": "and", "kids": [a, b], "b4": 4}
    if form == "and3":
        return {"op": "and", "kids": [a, b, c], "b4": 4}
    if form == "andmaybe":
        return {"op": "andmaybe", "a": a, "b": b}
    if form == "andnot-and":
        # (the excluded term is the sparse one: it takes single documents out of the conjunction's blocks)
        return {"op": "andnot", "a": {"op": "and", "kids": [a, b], "b4": 4}, "b": c}
    if form == "andnot":
        return {"op": "andnot", "a": a, "b": b if rng.random() < 0.5 else c}
    if form == "andnot-or":
        # (the excluded clause is itself a union; the positive side is boosted, so that the threshold of a limited
        # search passes what either excluded term could score)
        pos = dict(t(1), b4=rng.choice([8, 16]))
        return {"op": "andnot", "a": pos, "b": {"op": "or", "kids": [t(2), c], "b4": 4}}
    if form == "or-coord":
        # (clauses weighted far below 1 under a coordination bonus: the coordinated score of a document that has
        # both terms is larger than the union's own score, so thresholds have to be translated on the way down)
        return {"op": "or", "kids": [dict(t(1), b4=1), dict(t(2), b4=1)], "b4": 4, "scale": rng.choice([0.9, 0.99, 0.5])}
    if form == "dismax-tb":
        return {"op": "dismax", "kids": [a, b], "b4": 4, "tb": rng.choice([0.25, 0.5])}
    if form == "andmaybe-or":
        return {"op": "andmaybe", "a": {"op": "or", "kids": [a, c], "b4": 4}, "b": b}
    if form == "or":
        return {"op": "or", "kids": [a, b], "b4": 4}
    if form == "dismax":
        return {"op": "dismax", "kids": [a, b], "b4": 4}
    return {"op": "and", "kids": [a, {"op": "or", "kids": [b, c], "b4": 4}], "b4": 4}


def span_docs(rng, n):
    """body: `a` x tf, a gap of `b`s, `ab` x tf - frequencies constant over runs (good and poor runs in turn), the
    gap wide in about every third document: the conjunction of `a` and `ab` holds every document, the phrase only
    those with a narrow gap, wherever a block begins"""
    runlen = rng.choice([2, 3, 4, 6])
    levels = [rng.choice([2, 3, 4]) if j % 2 == 0 else 1 for j in range(n // runlen + 2)]
    if rng.random() < 0.3:
        levels = [rng.choice([1, 1, 2, 3, 4]) for _ in levels]
    docs = {}
    for i in range(n):
        tf = levels[i // runlen]
        gap = rng.choice([0, 0, 1, 5, 6])
        docs["k%02d" % i] = {"t": {"body": [[1]] * tf + [[2]] * gap + [[1, 2]] * rng.choice([1, tf]),
                                   "title": [[1]] if rng.random() < 0.5 else []}, "n": {}, "b4": 4}
    return docs


def stepped_span_query(rng):
    """positional queries on the stepped lists: every document holds `a .. a [b .. b] [ab]`, so whether the last
    `a` and the `ab` are within the slop changes from run to run - the conjunction underneath has documents (and
    whole blocks) without a matching span"""
    t = lambda c: {"op": "term", "f": "body", "t": c, "b4": 4}
    form = rng.choice(["phrase", "phrase", "phrase-ab", "near", "near", "sequence", "not", "first", "first-or", "first-or",
                       "or-phrase"])
    slop = rng.choice([1, 1, 2, 3, 4])
    if form == "phrase":
        return {"op": "phrase", "f": "body", "words": [[1], [1, 2]], "slop": slop, "b4": rng.choice([4, 4, 8])}
    if form == "phrase-ab":
        return {"op": "phrase", "f": "body", "words": [[1], [2]] + ([[1, 2]] if rng.random() < 0.5 else []),
                "slop": slop, "b4": 4}
    if form == "near":
        return {"op": "spannear", "a": t([1]), "b": t([1, 2]), "slop": slop, "ordered": rng.random() < 0.7,
                "mindist": rng.choice([1, 1, 2])}
    if form == "sequence":
        return {"op": "sequence", "kids": [t([1]), t([2]) if rng.random() < 0.5 else t([1, 2])], "slop": slop,
                "ordered": True}
    if form == "not":
        return {"op": "spannot", "a": t([1]), "b": {"op": "spannear", "a": t([1]), "b": t([2]), "slop": 1,
                                                     "ordered": True, "mindist": 1}}
    if form == "first-or":
        # (the child is a union whose sparse branch runs out first: replace() then rebuilds the span matcher around
        # another child, and has to keep the limit)
        return {"op": "spanfirst", "q": {"op": "or", "kids": [t([2]), t([1, 2])], "b4": 4}, "limit": rng.choice([1, 2, 3, 4])}
    if form == "first":
        return {"op": "spanfirst", "q": t([2]) if rng.random() < 0.6 else t([1, 2]), "limit": rng.choice([1, 2, 3])}
    return {"op": "or", "kids": [{"op": "phrase", "f": "body", "words": [[1], [1, 2]], "slop": slop, "b4": 4},
                                 {"op": "term", "f": "title", "t": [1], "b4": 4}], "b4": 4}


def check(run):
    quick = run.tier == "quick"
    rng = random.Random(run.seed + 1212)
    run.rule = ("random programs incl. skip_to_quality(q)/replace(q) for q in {negative, 0, every distinct score, "
                "midpoints, above max} with block_quality/max_quality/blockscan observations after every step, over "
                "matchers from real queries; exact regime (Frequency) and rank regime (BM25F variants, TF_IDF, PL2, "
                "Multi, Function weighting); each trace validated by MatcherTrace.tla")
    for mode, nw in (("exact", 8 if quick else 80), ("rank", 10 if quick else 100)):
        trs, meta, cases = c11.collect(run, rng, nw, 30 if quick else 40, mode, thresholds, quality=True,
                                       ndocs=(5, 14), depth=2)
        c11.judge_traces(run, "C12", trs, meta, "c12-" + mode)
        c11.NOTIMPL.clear()
        run.extra.setdefault("quality_events", 0)
        run.extra["quality_events"] += sum(1 for t in trs for e in t if e["ev"] in ("quality", "blockscan", "skipq", "replace"))
    # longer programs over small trees on longer posting lists: block caches across reset()/copy(), repeated
    # replace() with rising thresholds (what a collector does), unions that turn into AndMaybe/Intersection
    for mode, nw in (("exact", 6 if quick else 60), ("rank", 4 if quick else 40)):
        trs, meta, cases = c11.collect(run, rng, nw, 30 if quick else 40, mode, thresholds, quality=True,
                                       ndocs=(12, 24), depth=2, nsteps=(12, 30),
                                       ops=["term", "or", "andmaybe", "and", "dismax", "andnot"])
        c11.judge_traces(run, "C12", trs, meta, "c12-long-" + mode)
        c11.NOTIMPL.clear()
        run.extra["quality_events"] += sum(1 for t in trs for e in t if e["ev"] in ("quality", "blockscan", "skipq", "replace"))
    # stepped posting lists: one term in every document, another in every 2nd/3rd, frequencies that jump
    # between runs of documents - blocks of the two lists cover different document ranges and their
    # qualities change at different places (what skip_to_quality of a binary matcher has to follow)
    for mode, nw in (("exact", 6 if quick else 40), ("rank", 3 if quick else 20)):
        trs, meta, cases = c11.collect(run, rng, nw, 16 if quick else 24, mode, thresholds, quality=True,
                                       ndocs=(12, 30), nsteps=(6, 16), docgen=stepped_docs, qgen=stepped_query, plangen=stepped_plan, qbias=0.5,
                                       blocklimits=(1, 2, 3, 4))
        c11.judge_traces(run, "C12", trs, meta, "c12-stepped-" + mode)
        c11.NOTIMPL.clear()
        run.extra["quality_events"] += sum(1 for t in trs for e in t if e["ev"] in ("quality", "blockscan", "skipq", "replace"))
    # ... and, on the same kind of lists, skip_to_quality for every threshold (each distinct score, the midpoints,
    # below and above) from a fresh matcher after 0-3 steps
    trs, meta, cases = c11.collect(run, rng, 4 if quick else 30, 10 if quick else 16, "exact", thresholds, quality=True,
                                   ndocs=(12, 30), docgen=stepped_docs, qgen=stepped_query, plangen=stepped_plan,
                                   blocklimits=(1, 2, 3, 4), sweep=True)
    c11.judge_traces(run, "C12", trs, meta, "c12-sweep")
    c11.NOTIMPL.clear()
    # ... and a coordination bonus over clauses weighted far below 1, under the weighting whose scores are the
    # (small) weights themselves: thresholds between the union's own best score and the coordinated one
    from whoosh import scoring as _sc
    trs, meta, cases = c11.collect(run, rng, 3 if quick else 20, 6 if quick else 10, "rank", thresholds, quality=True,
                                   ndocs=(12, 30), docgen=lambda r, n: (flat_docs if r.random() < 0.7 else stepped_docs)(r, n),
                                   qgen=coord_query, plangen=stepped_plan,
                                   blocklimits=(1, 2, 3, 4), sweep=True, weighting=("Frequency", _sc.Frequency()))
    c11.judge_traces(run, "C12", trs, meta, "c12-coord-sweep")
    c11.NOTIMPL.clear()
    # ... and SpanFirst over a union (spans of one clause, score of another): every threshold, also as replace()
    trs, meta, cases = c11.collect(run, rng, 4 if quick else 30, 6 if quick else 10, "exact", thresholds, quality=True,
                                   ndocs=(8, 24), docgen=lambda r, n: (spanfirst_docs if r.random() < 0.8 else span_docs)(r, n),
                                   qgen=spanfirst_union_query, plangen=stepped_plan,
                                   blocklimits=(1, 2, 3, 4), scored_only=False, sweep=True)
    c11.judge_traces(run, "C12", trs, meta, "c12-spanfirst-sweep")
    c11.NOTIMPL.clear()
    # ... and on lists where every document holds all three terms of a conjunction (nested intersections)
    trs, meta, cases = c11.collect(run, rng, 4 if quick else 30, 8 if quick else 12, "exact", thresholds, quality=True,
                                   ndocs=(12, 24), docgen=dense_docs, qgen=dense_query, plangen=stepped_plan,
                                   blocklimits=(2, 3, 4), sweep=True)
    c11.judge_traces(run, "C12", trs, meta, "c12-dense-sweep")
    c11.NOTIMPL.clear()
    run.extra["quality_events"] += sum(1 for t in trs for e in t if e["ev"] in ("quality", "blockscan", "skipq", "replace"))
    # positional queries on the stepped lists (a span matcher sits on top of a conjunction that moves by blocks)
    for mode, nw, sweep in (("exact", 4 if quick else 30, False), ("rank", 2 if quick else 12, False),
                            ("exact", 2 if quick else 12, True)):
        trs, meta, cases = c11.collect(run, rng, nw, 10 if quick else 20, mode, thresholds, quality=True,
                                       ndocs=(12, 30), nsteps=(6, 16),
                                       docgen=lambda r, n: (span_docs if r.random() < 0.7 else stepped_docs)(r, n),
                                       qgen=stepped_span_query, plangen=stepped_plan, qbias=0.5,
                                       blocklimits=(1, 2, 3, 4), scored_only=False, sweep=sweep)
        c11.judge_traces(run, "C12", trs, meta, "c12-spans-" + mode + ("-sweep" if sweep else ""))
        c11.NOTIMPL.clear()
        run.extra["quality_events"] += sum(1 for t in trs for e in t if e["ev"] in ("quality", "blockscan", "skipq", "replace"))
    # one large sparse segment: the array-based union of three and more clauses reads 2048 documents at a time;
    # its bounds must cover the (boosted) postings of the windows still to come
    trs, meta, cases = c11.collect(run, rng, 2 if quick else 10, 5 if quick else 8, "exact", thresholds, quality=True,
                                   ndocs=(2100, 2600), nsteps=(4, 10), docgen=windowed_docs, qgen=windowed_query,
                                   plangen=lambda r, adocs: [("commit", sorted(adocs), {"merge": False})],
                                   blocklimits=(None,))
    c11.judge_traces(run, "C12", trs, meta, "c12-windows")
    c11.NOTIMPL.clear()
    run.extra["quality_events"] += sum(1 for t in trs for e in t if e["ev"] in ("quality", "blockscan", "skipq", "replace"))
    if not run.extra.get("quality_events"):
        run.machinery("vacuity: no quality event recorded")


def replay(run, rp):
    raise NotImplementedError
