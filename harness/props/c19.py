"""C19 - fuzzy matching and spelling suggestions are exact w.r.t. edit distance.
Spec: EditDistance.tla (documented distance DL; transcription of the Levenshtein NFA of
automata/lev.py checked by TLC against the distance for every word pair of a small alphabet);
binding: terms_within / FuzzyTerm / suggest on real one- and multi-segment indexes whose
lexicon is every word up to a length over {a, b} (+ a multi-byte letter), judged by
QueryCheck.tla (QuerySem fuzzy denotation, SuggestFacts)."""
import itertools
import random

from harness import tlc, qobs, world
from harness.props import c01

LEVEL = "model_checking"


# words of the stemmed field (none of them is the stem of another) and misspellings of them
SPWORDS = [u"rendering", u"rendered", u"renders", u"shading", u"shaded", u"lighting", u"lights", u"tracking", u"tracked"]
SPTYPOS = [u"renderng", u"rendred", u"shadin", u"lightning", u"trackin", u"tracks", u"rendering", u"shades", u"zzz"]


def az(word):
    """letter codes of a lower-case ASCII word (a = 1 ..): the code alphabet of the field sp"""
    return [ord(ch) - 96 for ch in word]


def all_words(letters, maxlen):
    out = []
    for n in range(1, maxlen + 1):
        for w in itertools.product(letters, repeat=n):
            out.append(list(w))
    return out


def build(words, nseg, rng, freqs, drop_first=False):
    """One document per lexicon word (plus repeats to vary frequencies); returns (ix, abstract idx)."""
    from whoosh import fields, analysis
    from whoosh.filedb.filestore import RamStorage
    # (sp: a stemmed field that keeps the words as typed for spelling suggestions)
    schema = fields.Schema(key=fields.ID(stored=True), body=fields.TEXT(analyzer=analysis.RegexTokenizer(r"\S+"), spelling=False),
                           sp=fields.TEXT(analyzer=analysis.StemmingAnalyzer(), spelling=True))
    ix = RamStorage().create_index(schema)
    docs = []
    order = list(words)
    rng.shuffle(order)
    chunks = [order[i::nseg] for i in range(nseg)]
    spw = list(SPWORDS)
    rng.shuffle(spw)
    spchunks = [spw[i::nseg] for i in range(nseg)]
    for ci, ch in enumerate(chunks):
        w = ix.writer()
        w.merge = False
        for wd in ch:
            toks = [wd] * freqs.get(tuple(wd), 1)
            w.add_document(key=u"k%d" % len(docs), body=u" ".join(world.term_text(t) for t in toks))
            docs.append({"live": True, "t": {"body": toks}, "n": {}, "b4": 4})
        for word in spchunks[ci]:
            w.add_document(key=u"k%d" % len(docs), sp=word)
            # (spstem: the term the word is indexed under, as the field's own analyzer gives it)
            stem = [t.text for t in schema["sp"].analyzer(word)][0]
            docs.append({"live": True, "t": {"sp": [az(word)], "spstem": [az(stem)]}, "n": {}, "b4": 4})
        w.commit(merge=False)
    if drop_first:
        # the first document is deleted and merged away (the words of the others must stay where they are)
        w = ix.writer()
        w.delete_by_term("key", u"k0")
        w.commit(optimize=True)
        docs = docs[1:]
    return ix, {"docs": docs}


def check(run):
    quick = run.tier == "quick"
    rng = random.Random(run.seed + 1919)
    run.rule = ("TLC: the Levenshtein NFA transcription accepts exactly the words within plain Levenshtein distance "
                "(all words <= 3-4 letters over {a,b}, k <= 2, every prefix length), and a transposition-extended "
                "NFA exactly those within the documented Damerau-Levenshtein distance; real terms_within (one and "
                "several segments), FuzzyTerm searches and suggest() for every (word, k, prefix) over a full "
                "lexicon judged by TLC; non-trivial = accepted case with a non-empty, non-total expansion")
    for cfg in ("EditDistanceMC.cfg", "EditDistanceMC_dl.cfg"):
        res = tlc.run_tlc("EditDistance", cfg, timeout=2400, check=False)
        run.add_tlc(cfg, res)
        if res.violation or not res.ok:
            raise tlc.TLCError("EditDistance %s: %s\n%s" % (cfg, res.violation, tlc.tail(res.stdout)))
        if res.numbers.get("NFADIFF"):
            run.note("model-drift module=EditDistance cfg=%s: %d (len,k,p) configurations where the transcribed "
                     "automaton and the distance disagree" % (cfg, len(res.numbers["NFADIFF"])))
    # documented distance vs the automaton as written: expected to differ (recorded finding), counted for the evidence
    res = tlc.run_tlc("EditDistance", "EditDistanceMC_doc.cfg", timeout=2400, check=False)
    run.add_tlc("EditDistanceMC_doc", res)
    run.extra["configs_where_code_automaton_differs_from_documented_DL"] = len(res.numbers.get("NFADIFF", []))

    from whoosh import query
    letters = [1, 2]
    maxlen = 3 if quick else 4
    words = all_words(letters, maxlen)
    words += [[1, 4], [4, 1], [4], [2, 5, 1], [5], [1, 5], [5, 1], [1, 5, 2], [5, 5], [2, 5],
              [1, 5, 3, 3], [1, 6, 2], [1, 6], [6, 2], [6]]   # multi-byte / non-BMP letters (two of them, in order)
    cases, metas = [], []
    found = {}         # (segments, word, k, prefix) -> the words a FuzzyTerm search finds
    qwords = words + [[1, 1, 2, 2, 1][:maxlen + 1], [2] * (maxlen + 1)]
    for nseg, drop_first in ((1, False), (3, False), (2, True)):
        freqs = dict((tuple(w), rng.choice([1, 1, 2, 3])) for w in words)
        ix, idx = build(words, nseg, rng, freqs, drop_first=drop_first)
        if drop_first:
            nseg = 1
        docof = dict((tuple(d["t"]["body"][0]), i) for i, d in enumerate(idx["docs"]) if d["t"].get("body"))
        qs = []
        with ix.searcher() as s:
            rd = s.reader()
            assert (len(rd.leaf_readers()) > 1) == (nseg > 1)
            for qw in (qwords if not quick else rng.sample(qwords, 12) + [[1, 5], [2, 5, 2], [5, 1], [1, 2], [1, 6], [6, 2]]):
                for k in (0, 1, 2) if quick else (0, 1, 2, 3):
                    for p in sorted(set([0, 1, len(qw), len(qw) + 1])):
                        if not quick and k == 3 and rng.random() < 0.6:
                            continue
                        text = world.term_text(qw)
                        aq = {"op": "fuzzy", "f": "body", "t": qw, "maxdist": k, "prefix": p, "b4": 4}
                        obs = []

                        def guard(path, fn):
                            try:
                                fn()
                            except Exception as ex:
                                obs.append({"kind": "error", "path": path, "err": type(ex).__name__, "msg": str(ex)[:100]})
                        guard("terms_within", lambda: obs.append(
                            {"kind": "ids", "path": "terms_within(%dseg)" % nseg,
                             "ids": sorted(docof[tuple(world_term(t))] for t in rd.terms_within("body", text, k, prefix=p))}))
                        # the expansion is a lazy generator: a second expansion opened (and even consumed) while
                        # this one is pending must not disturb it
                        def overlapped():
                            g1 = rd.terms_within("body", text, k, prefix=p)
                            g2 = rd.terms_within("body", world.term_text(rng.choice(qwords)), 1)
                            list(g2)
                            obs.append({"kind": "ids", "path": "terms_within(%dseg) while another expansion ran" % nseg,
                                        "ids": sorted(docof[tuple(world_term(t))] for t in g1)})
                        guard("terms_within-overlapped", overlapped)
                        guard("FuzzyTerm", lambda: obs.append(
                            {"kind": "ids", "path": "FuzzyTerm(%dseg)" % nseg,
                             "ids": sorted(int(d) for d in s.docs_for_query(
                                 query.FuzzyTerm("body", text, maxdist=k, prefixlength=p)))}))
                        if obs and obs[-1].get("path", "").startswith("FuzzyTerm") and not drop_first:
                            wordof = dict((i, w) for w, i in docof.items())
                            found[(nseg, tuple(qw), k, p)] = sorted(wordof[i] for i in obs[-1]["ids"])
                        if k >= 1:
                            for limit in (2, 50):
                                guard("suggest", lambda limit=limit: obs.append(
                                    {"kind": "suggest", "path": "suggest(%dseg,limit=%d)" % (nseg, limit), "f": "body",
                                     "word": qw, "k": k, "p": p, "limit": limit,
                                     "list": [world_term(t) for t in s.suggest("body", text, limit=limit, maxdist=k, prefix=p)]}))
                        run.count(len(obs))
                        qs.append({"q": aq, "obs": obs})
                        if p == 1 and k >= 1:
                            # the same fuzzy query with and without its required prefix, side by side in one compound
                            # that is rewritten the way the parser does it (they are different queries)
                            aq0 = dict(aq, prefix=0)
                            for op in ("or", "and"):
                                tw = {"op": op, "kids": [aq, aq0] if op == "or" else [aq0, aq], "b4": 4}   # (the first of two "equal" clauses survives a faulty duplicate elimination)
                                o2 = []
                                try:
                                    o2.append({"kind": "ids", "path": "FuzzyTerm(%dseg) with and without the prefix, %s, normalized" % (nseg, op),
                                               "ids": sorted(int(d) for d in s.docs_for_query(world.to_query(tw).normalize()))})
                                except Exception as ex:
                                    o2.append({"kind": "error", "path": "fuzzy twins", "err": type(ex).__name__, "msg": str(ex)[:100]})
                                run.count(len(o2))
                                qs.append({"q": tw, "obs": o2})
            # fuzzy matching on that stemmed field goes by its terms (the stems), whatever it keeps for spelling
            for text in (u"render", u"rendr", u"shade", u"shad", u"light", u"lihgt", u"track", u"trac", u"rendering"):
                for k in (0, 1, 2):
                    obs = []
                    try:
                        obs.append({"kind": "ids", "path": "FuzzyTerm on the stemmed field (%dseg)" % nseg,
                                    "ids": sorted(int(d) for d in s.docs_for_query(query.FuzzyTerm("sp", text, maxdist=k)))})
                    except Exception as ex:
                        obs.append({"kind": "error", "path": "FuzzyTerm(sp)", "err": type(ex).__name__, "msg": str(ex)[:100]})
                    run.count(len(obs))
                    qs.append({"q": {"op": "fuzzy", "f": "spstem", "t": az(text), "maxdist": k, "prefix": 0, "b4": 4}, "obs": obs})
            # suggestions for a stemmed field that keeps its words for spelling: existing *words* (not stems)
            for typo in SPTYPOS:
                for k in (1, 2):
                    obs = []
                    try:
                        obs.append({"kind": "suggest", "path": "suggest(stemmed field with spelling words, %dseg)" % nseg,
                                    "f": "sp", "word": az(typo), "k": k, "p": 0, "limit": 50,
                                    "list": [az(t) for t in s.suggest("sp", typo, limit=50, maxdist=k)]})
                    except Exception as ex:
                        obs.append({"kind": "error", "path": "suggest(sp)", "err": type(ex).__name__, "msg": str(ex)[:100]})
                    run.count(len(obs))
                    qs.append({"q": {"op": "null"}, "obs": obs})
            # Searcher.correct_query: typed queries mixing words that are terms with words that are not
            from whoosh import qparser
            parser = qparser.QueryParser("body", ix.schema)
            absent = [w for w in all_words(letters, maxlen + 1) if len(w) == maxlen + 1] + \
                     [[3], [1, 3], [3, 2, 1], [2, 3, 3, 3, 3, 3]]
            for _ in range(15 if quick else 120):
                toks = []
                for _ in range(rng.randrange(1, 4)):
                    t = list(rng.choice(absent)) if rng.random() < 0.5 else list(rng.choice(words))
                    if t not in toks:          # (the parser merges a word typed twice into one clause)
                        toks.append(t)
                qstring = u" ".join(world.term_text(t) for t in toks)
                k, p = rng.choice([1, 1, 2]), rng.choice([0, 0, 1])
                obs = []
                try:
                    q = parser.parse(qstring)
                    corr = s.correct_query(q, qstring, maxdist=k, prefix=p)
                    obs.append({"kind": "correct", "path": "correct_query(%dseg)" % nseg, "f": "body", "words": toks, "k": k,
                                "p": p, "qterms": [world_term(t.text) for t in corr.query.all_tokens()],
                                "sterms": [world_term(x) for x in corr.string.split()]})
                except Exception as ex:
                    obs.append({"kind": "error", "path": "correct_query", "err": type(ex).__name__, "msg": str(ex)[:100]})
                run.count(len(obs))
                qs.append({"q": {"op": "null"}, "obs": obs})
        cases.append({"idx": idx, "qs": qs})
        metas.append({"plan": ["lexicon of %d words" % len(words), nseg], "nseg": nseg, "deleted": 0})
    # the same lexicon in one segment and in three: a search finds the same words (C06: the layout is invisible)
    both = [(qw, k, p) for (ns, qw, k, p) in found if ns == 1 and (3, qw, k, p) in found]
    differ = [(qw, k, p) for (qw, k, p) in both if found[(1, qw, k, p)] != found[(3, qw, k, p)]]
    # a lexicon large enough for an expansion of more than a thousand words (every word of up to 7 letters over
    # three letters; a generous distance, no required prefix): nothing within the distance may be left out
    big = all_words([1, 2, 3], 7)
    ixb, idxb = build(big, 1, rng, {})
    with ixb.searcher() as s:
        qsb = []
        for qw, k in (([1, 2, 3, 1, 2, 3], 3), ([2, 1, 3, 2], 2)):
            aq = {"op": "fuzzy", "f": "body", "t": qw, "maxdist": k, "prefix": 0, "b4": 4}
            obs = []
            try:
                obs.append({"kind": "ids", "path": "FuzzyTerm(1seg) over a lexicon of %d words" % len(big),
                            "ids": sorted(int(d) for d in s.docs_for_query(
                                query.FuzzyTerm("body", world.term_text(qw), maxdist=k, prefixlength=0)))})
            except Exception as ex:
                obs.append({"kind": "error", "path": "FuzzyTerm(big lexicon)", "err": type(ex).__name__, "msg": str(ex)[:100]})
            run.count(len(obs))
            qsb.append({"q": aq, "obs": obs})
    cases.append({"idx": idxb, "qs": qsb})
    metas.append({"plan": ["lexicon of %d words" % len(big), 1], "nseg": 1, "deleted": 0})
    run.extra["largest_fuzzy_expansion_observed"] = max([len(o["ids"]) for q_ in qsb for o in q_["obs"] if o["kind"] == "ids"] or [0])
    cases.append({"idx": {"docs": []}, "qs": [{"q": {"op": "null"}, "obs": [
        {"kind": "flag", "path": "FuzzyTerm finds the same words in a one-segment and a three-segment index (%d searches compared%s)"
         % (len(both), "; differs for %r" % (differ[:3],) if differ else ""), "value": not differ and len(both) > 0}]}]})
    metas.append({"plan": ["layout comparison"], "nseg": 0, "deleted": 0})
    rejects = qobs.judge(run, cases, name="QueryCheck-fuzzy", chunk=1)
    # classification of the recorded findings
    RANKING = {"not_the_word_itself", "closer_then_more_frequent_first", "limit_keeps_the_best"}
    extra = {}
    # candidates missing from a one-segment reader's suggestions: the recorded finding "segment readers expand
    # with plain Levenshtein" when the very same observation is complete under that distance
    again = [(ci, qi, oi) for ci, qi, oi, exp in rejects
             if cases[ci]["qs"][qi]["obs"][oi]["kind"] == "suggest" and exp.get("nothing_missing_below_the_limit") is False]
    levfailed = {}
    if again:
        acases = [{"idx": cases[ci]["idx"], "qs": [{"q": {"op": "null"}, "obs": [dict(cases[ci]["qs"][qi]["obs"][oi], lev=True)]}]}
                  for ci, qi, oi in again]
        rej2 = dict((r[0], r[3]) for r in qobs.judge(run, acases, name="QueryCheck-suggest-lev", chunk=1))
        for n, key in enumerate(again):
            levfailed[key] = set(k for k, v in rej2.get(n, {}).items() if v is False)
    # the recorded ranking finding: recognised when the very same observation is exactly right under the recorded
    # ranking (by frequency only, the word itself allowed) - a limit that drops a more frequent candidate for a
    # less frequent one is not that finding
    rank_again = [(ci, qi, oi) for ci, qi, oi, exp in rejects
                  if cases[ci]["qs"][qi]["obs"][oi]["kind"] == "suggest"
                  and set(k for k, v in exp.items() if v is False) <= RANKING]
    byfreq_failed = {}
    if rank_again:
        # (on a one-segment reader the candidates are those of the other recorded finding: plain Levenshtein)
        acases = [{"idx": cases[ci]["idx"], "qs": [{"q": {"op": "null"}, "obs": [
            dict(cases[ci]["qs"][qi]["obs"][oi], byfreq=True, lev="1seg" in cases[ci]["qs"][qi]["obs"][oi]["path"])]}]}
            for ci, qi, oi in rank_again]
        rej3 = dict((r[0], r[3]) for r in qobs.judge(run, acases, name="QueryCheck-suggest-byfreq", chunk=100))
        for n, key in enumerate(rank_again):
            byfreq_failed[key] = set(k for k, v in rej3.get(n, {}).items() if v is False)
    for ci, qi, oi, exp in rejects:
        o = cases[ci]["qs"][qi]["obs"][oi]
        if o["kind"] == "suggest":
            failed = set(k for k, v in exp.items() if v is False)
            # the core facts - every suggestion is an existing term within the distance, and nothing within it is
            # missing from an uncut list - are never excused
            if failed and failed <= RANKING and byfreq_failed.get((ci, qi, oi)):
                extra[(ci, qi, oi)] = "suggest-not-even-by-frequency:" + "+".join(sorted(byfreq_failed[(ci, qi, oi)]))
            elif failed and failed <= RANKING:
                extra[(ci, qi, oi)] = "suggest-ranking-and-self"
            elif (ci, qi, oi) in levfailed and levfailed[(ci, qi, oi)] <= RANKING and "1seg" in o["path"]:
                extra[(ci, qi, oi)] = "fuzzy-single-segment-levenshtein"
            else:
                extra[(ci, qi, oi)] = "suggest:" + "+".join(sorted(failed))
    c01.EXTRA_CLASSES = extra
    c01.report(run, "C19", cases, metas, rejects, "c19")
    c01.EXTRA_CLASSES = {}


INV = dict((v, k) for k, v in world.LETTERS.items())


def world_term(text):
    return [INV[c] for c in text]


def replay(run, rp):
    raise NotImplementedError
