"""C06 - segment layout is invisible: merge and optimize preserve all logical content.
Spec: ContentCheck.tla (the logical content is a function of the documents only).  The same
document-level operations are executed under several layouts (commit partitions x merge
choices x block sizes); the canonical dump of each is judged by TLC against the abstract
documents; scores without deletions are compared across layouts as recorded facts."""
import random

from harness import cworld, world, content

LEVEL = "model_checking"


def layouts(rng, keys, dels):
    """Different commit partitions / merge choices for the same operations (adds in key order, then deletes)."""
    keys = list(keys)
    out = [[("commit", keys, {"optimize": True})] + ([("delete", dels)] if dels else [])]        # reference: single commit
    for _ in range(3):
        n = rng.randrange(2, min(6, len(keys)) + 1)
        cuts = sorted(rng.sample(range(1, len(keys)), n - 1))
        parts = [keys[i:j] for i, j in zip([0] + cuts, cuts + [len(keys)])]
        plan = []
        for pi, part in enumerate(parts):
            m = rng.random()
            plan.append(("commit", part, {"merge": False} if m < 0.5 else ({"optimize": True} if m < 0.65 else {"merge": True})))
        if dels:
            # deletions interleaved: after the last part that contains a deleted key
            plan.append(("delete", dels))
            if rng.random() < 0.5:
                plan.append(("commit", [], {"optimize": True}))
        out.append(plan)
    if len(keys) >= 9:
        # a bulk load, then many small commits under the default merge policy (which merges the small segments
        # from a certain number on and has to carry the larger ones over untouched)
        nsmall = min(7, len(keys) - 2)
        bulk, small = keys[:len(keys) - nsmall], keys[len(keys) - nsmall:]
        plan = [("commit", bulk, {"merge": False})] + [("commit", [k], {"merge": True}) for k in small]
        if dels:
            plan.append(("delete", dels))
        out.append(plan)
    return out


def check(run):
    quick = run.tier == "quick"
    rng = random.Random(run.seed + 606)
    run.rule = ("random corpora (all field/column types, gaps, sparse fields) x delete sets; each executed as a single "
                "optimised commit and under 3 random commit partitions with merge=False / default / optimize and "
                "block limits 1..3; full canonical dump (lexicon, postings with positions, field lengths, stored "
                "values, columns, vectors, term statistics, counts) of every layout judged by ContentCheck.tla; "
                "BM25F scores compared across deletion-free layouts; non-trivial = accepted layout with >= 3 documents")
    cases = []
    for wi in range(6 if quick else 50):
        n = rng.randrange(4, 9 if quick else 14) if wi % 3 != 2 else rng.randrange(10, 15)
        keys = ["k%d" % i for i in range(n)]
        adocs = dict((k, cworld.rand_adoc(rng, k)) for k in keys)
        if wi % 3 == 1:
            # long fields: per-document lengths are kept in one byte (exact up to 10 terms only); the collection
            # totals built from them must not depend on the layout either
            for k in rng.sample(keys, 2):
                adocs[k]["t"]["body"] = adocs[k]["t"].get("body", []) + [world.rand_term(rng) for _ in range(rng.randrange(8, 30))]
        if wi % 4 == 2:
            # (every document has the field: its shortest length over the collection is then at least 1, however
            # many sub-writers of a multi-process commit were given no document)
            for k in keys:
                if not adocs[k]["t"].get("body"):
                    adocs[k]["t"]["body"] = [world.rand_term(rng)]
        dels = rng.sample(keys, rng.randrange(0, 3)) if rng.random() < 0.6 else []
        scores = {}
        for li, plan in enumerate(layouts(rng, keys, dels)):
            cfg = {"storage": "ram", "blocklimit": rng.choice([None, 1, 2, 3]), "compound": rng.random() < 0.7,
                   "layout": li, "limitmb": rng.choice([None, None, 0.0002, 0.001])}
            if li == 3 and wi % 2 == 0:
                # the last partition through another writer front-end (sub-writers in processes, merged into one
                # segment or kept apart while the commit's merge policy still runs over the older segments; the
                # asynchronous writer)
                cfg = {"storage": "file", "compound": True, "layout": li,
                       # (three sub-writers for two or three batches: at least one of them gets no document)
                       **[{"frontend": "mp", "procs": 3, "batchsize": 2, "multisegment": True},
                          {"frontend": "mp", "procs": 3, "batchsize": 1, "multisegment": False},
                          {"frontend": "async"}][(wi // 2 + 2) % 3]}
                # ... and its last adding commit optimises (merges the older segments into the writer's own one)
                last = max(i for i, st in enumerate(plan) if st[0] == "commit" and st[1])
                plan = list(plan)
                plan[last] = ("commit", plan[last][1], {"optimize": True})
                if wi % 4 == 2:
                    # (no deletions afterwards: the term statistics of the merged segment - incl. the shortest and
                    # longest field per term - are asserted on an index without deleted documents only)
                    plan = [st for st in plan if st[0] != "delete"]
            if li == 2 and wi % 3 == 0:
                # one part of this partition is built in another index and imported with add_reader()
                plan = list(plan)
                pi = rng.choice([i for i, st in enumerate(plan) if st[0] == "commit" and st[1]])
                plan[pi] = ("commit", plan[pi][1], dict(plan[pi][2], **{"import": True}))
                cfg["imported_part"] = pi
            w = cworld.CWorld(cfg, variant=wi)
            try:
                try:
                    w.run(adocs, [s for s in plan if s[0] != "commit" or s[1] or len(s) > 2])
                except Exception as ex:
                    # the writer itself failed on these operations: a violation, reported with the layout
                    cases.append({"idx": {"docs": []}, "obs": [{"kind": "error", "path": "building the index",
                                                                "err": type(ex).__name__, "msg": str(ex)[:160],
                                                                "where": content.where(ex)}],
                                  "cfg": cfg, "plan": plan, "seed": wi, "adocs": adocs, "variant": wi})
                    continue
                with w.reader() as rd:
                    idx = cworld.abstract_index(rd, adocs)
                    obs = cworld.dump(rd, idx, w.schema, rng=rng, maxterms=12 if quick else 30, plan=plan,
                                      groups=w.groups)
                    run.count(len(obs))
                    if not dels:
                        # scores are layout independent when nothing is deleted
                        from whoosh import query, scoring
                        with w.ix.searcher(weighting=scoring.BM25F()) as s:
                            for t in ([1], [2], [1, 2]):
                                q = query.Or([query.Term("body", world.term_text(t)), query.Term("title", world.term_text(t), boost=2.0)])
                                sc = dict((s.stored_fields(dn)["key"], repr(score)) for score, dn in s.search(q, limit=None).top_n)
                                ref = scores.setdefault(tuple(t), sc)
                                obs.append({"kind": "flag", "path": "BM25F scores equal to the single-commit build for term %r" % (t,),
                                            "value": sc == ref})
                cases.append({"idx": idx, "obs": obs, "cfg": cfg, "plan": plan, "seed": wi, "adocs": adocs, "variant": wi})
            finally:
                w.close()
    # a removed field is physically gone after optimising: adding a field of the same name later must not bring
    # the old values back (whatever the number of segments at the time of the optimising commit)
    import copy
    from whoosh import fields as wfields
    for si in range(2 if quick else 8):
        keys = ["r%d" % i for i in range(6)]
        adocs = dict((k, cworld.rand_adoc(rng, k)) for k in keys)
        for k in keys[:4]:
            adocs[k]["s"]["tags"] = adocs[k]["c"]["tags"] = rng.randrange(1, len(cworld.POOLS["tags"]) + 1)
        nseg = 1 if si % 2 == 0 else 2
        plan = [("commit", keys, {"optimize": True})] if nseg == 1 else \
            [("commit", keys[:3], {"merge": False}), ("commit", keys[3:], {"merge": False})]
        cfg = {"storage": rng.choice(["ram", "file"]), "compound": rng.random() < 0.7, "scenario": "field removed, index optimised, field added again",
               "segments_when_optimised": nseg}
        w = cworld.CWorld(cfg, variant=si)
        try:
            try:
                w.run(adocs, plan)
                tagstype = copy.deepcopy(w.schema["tags"])
                wr = w.ix.writer()
                wr.remove_field("tags")
                wr.commit(optimize=True)
                wr = w.ix.writer()
                wr.add_field("tags", tagstype)
                wr.commit()
                gone = copy.deepcopy(adocs)
                for d in gone.values():
                    d["s"].pop("tags", None)
                    d["c"].pop("tags", None)
                with w.reader() as rd:
                    idx = cworld.abstract_index(rd, gone)
                    obs = cworld.dump(rd, idx, rd.schema, rng=rng, maxterms=6, plan=plan)
                    obs.append({"kind": "flag", "path": "no term of the removed field is left", "value": len(list(rd.lexicon("tags"))) == 0})
                    run.count(len(obs))
                cases.append({"idx": idx, "obs": obs, "cfg": cfg, "plan": plan, "seed": si, "adocs": gone, "variant": si})
            except Exception as ex:
                cases.append({"idx": {"docs": []}, "obs": [{"kind": "error", "path": "removed-field scenario",
                                                            "err": type(ex).__name__, "msg": str(ex)[:160],
                                                            "where": content.where(ex)}],
                              "cfg": cfg, "plan": plan, "seed": si, "adocs": adocs, "variant": si})
        finally:
            w.close()
    # "bulk load, then trickle": one large commit followed by many small ones under the default merge policy -
    # it merges the small segments from time to time and must carry the large one over (judged: the live keys)
    for ti in range(2 if quick else 8):
        nb = rng.randrange(36, 70)
        keys = ["t%03d" % i for i in range(nb + 12)]
        adocs = dict((k, cworld.rand_adoc(rng, k, rich=False)) for k in keys)
        plan = [("commit", keys[:nb], {"merge": False})] + [("commit", [k], {"merge": True}) for k in keys[nb:]]
        if ti % 2 == 1:
            plan.insert(7, ("delete", [keys[3], keys[nb + 1]]))
        cfg = {"storage": "ram", "compound": True, "scenario": "bulk load, then trickle", "bulk": nb}
        w = cworld.CWorld(cfg, variant=ti)
        try:
            try:
                w.run(adocs, plan)
                with w.reader() as rd:
                    idx = cworld.abstract_index(rd, adocs)
                    obs = [o for o in cworld.dump(rd, idx, rd.schema, rng=rng, maxterms=0, columns=False, vectors=False,
                                                  terminfo=False, plan=plan) if o["kind"] in ("livekeys", "counts", "error")]
                    run.count(len(obs))
                cases.append({"idx": idx, "obs": obs, "cfg": cfg, "plan": "bulk of %d, then 12 single commits" % nb,
                              "seed": ti, "adocs": None, "variant": ti})
            except Exception as ex:
                cases.append({"idx": {"docs": []}, "obs": [{"kind": "error", "path": "bulk load, then trickle",
                                                            "err": type(ex).__name__, "msg": str(ex)[:160],
                                                            "where": content.where(ex)}],
                              "cfg": cfg, "plan": None, "seed": ti, "adocs": None, "variant": ti})
        finally:
            w.close()
    rejects = content.judge(run, cases)
    content.report(run, "c06", cases, rejects)
    # which segments a commit merges: MergePolicy.tla evaluated by TLC for every vector of segment sizes up to a
    # bound, replayed on the real policy functions and, for a sample, on real indexes (spec -> code)
    from harness import mergepolicy
    mergepolicy.check(run, rng, quick)


def replay(run, rp):
    raise NotImplementedError
