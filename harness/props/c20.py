"""C20 - on-disk tables, number codecs and doc-id sets implement their
abstract types.  Specs: IdSet.tla (+Gen/Trace), HashFile.tla, Codecs.tla."""
import random

from harness import tlc, traces as tr

LEVEL = "model_checking"


# --------------------------------------------------------------------------
# IdSet: adapters from the abstract call alphabet to whoosh.idsets objects
# --------------------------------------------------------------------------

def _enc(v):
    if v is None:
        return -1
    if isinstance(v, bool):
        return v
    if isinstance(v, int):
        return int(v)
    return [int(x) for x in v]


class IdSetWorld(object):
    """Executes IdSet events on real objects. kinds: object id -> class name."""

    def __init__(self, kindfn):
        self.objs = {}
        self.kindfn = kindfn
        self.keep = []

    def make(self, kind, xs):
        from whoosh import idsets
        xs = list(xs)
        if kind == "BitSet":
            return idsets.BitSet(xs) if xs else idsets.BitSet()
        if kind == "BitSetGen":            # built from a generator (no size guess)
            return idsets.BitSet(iter(xs))
        if kind == "SortedIntSet":
            return idsets.SortedIntSet(xs)
        if kind == "RoaringIdSet":
            return idsets.RoaringIdSet(xs)
        if kind == "OnDiskBitSet":
            from whoosh.filedb.filestore import RamStorage
            st = RamStorage()
            f = st.create_file("bits")
            f.write(b"pad!")
            n = idsets.BitSet(xs).to_disk(f) if xs else idsets.BitSet().to_disk(f)
            f.write(b"\xff\x01trailing data that is not part of the bit array\xff")
            f.close()
            g = st.open_file("bits")
            self.keep.append(g)
            return idsets.OnDiskBitSet(g, 4, n)
        raise ValueError(kind)

    def apply(self, e):
        """Returns (res, err)."""
        from whoosh import idsets
        op = e["op"]
        try:
            if op == "new":
                self.objs[e["r"]] = self.make(self.kindfn(e["r"]), e["xs"])
                return 0, ""
            if op == "new_reverse":
                self.objs[e["r"]] = idsets.ReverseIdSet(self.objs[e["p"]], e["n"])
                return 0, ""
            if op == "new_multi":
                self.objs[e["r"]] = idsets.MultiIdSet([self.objs[i] for i in e["ps"]], list(e["xs"]))
                return 0, ""
            a = self.objs[e["o"]]
            b = self.objs.get(e["p"])
            n = e["n"]
            if op == "add":
                a.add(n)
            elif op == "discard":
                a.discard(n)
            elif op == "update":
                a.update(list(e["xs"]))
            elif op == "intersection_update":
                a.intersection_update(b)
            elif op == "difference_update":
                a.difference_update(b)
            elif op == "invert_update":
                a.invert_update(n)
            elif op == "clear":
                a.clear()
            elif op == "union":
                self.objs[e["r"]] = a.union(b)
            elif op == "intersection":
                self.objs[e["r"]] = a.intersection(b)
            elif op == "difference":
                self.objs[e["r"]] = a.difference(b)
            elif op == "invert":
                self.objs[e["r"]] = a.invert(n)
            elif op == "copy":
                self.objs[e["r"]] = a.copy()
            elif op == "contains":
                return (n in a), ""
            elif op == "len":
                return len(a), ""
            elif op == "iter":
                return _enc(list(a)), ""
            elif op == "first":
                return _enc(a.first()), ""
            elif op == "last":
                return _enc(a.last()), ""
            elif op == "before":
                return _enc(a.before(n)), ""
            elif op == "after":
                return _enc(a.after(n)), ""
            elif op == "isdisjoint":
                return bool(a.isdisjoint(b)), ""
            elif op == "bool":
                return bool(a), ""
            elif op == "eq":
                return bool(a == b), ""
            else:
                raise ValueError(op)
            return 0, ""
        except Exception as ex:  # recorded, judged by the spec
            return 0, type(ex).__name__


def _ev(op, o=0, p=0, n=0, xs=(), ps=(), r=0):
    return {"op": op, "o": o, "p": p, "n": n, "xs": list(xs), "ps": list(ps), "r": r}


MUT_OPS = {
    "BitSet": ["add", "discard", "update", "intersection_update", "difference_update",
               "invert_update", "clear", "union", "intersection", "difference", "invert",
               "copy", "contains", "len", "iter", "first", "last", "before", "after",
               "isdisjoint", "bool", "eq"],
    "SortedIntSet": ["add", "discard", "update", "intersection_update", "difference_update",
                     "clear", "union", "intersection", "difference", "copy", "contains",
                     "len", "iter", "first", "last", "before", "after", "isdisjoint", "bool", "eq"],
    "OnDiskBitSet": ["contains", "len", "iter", "first", "last", "before", "after", "bool"],
    "ReverseIdSet": ["add", "discard", "contains", "len", "iter", "first", "last"],
    "MultiIdSet": ["contains", "len", "iter"],
    "RoaringIdSet": ["add", "discard", "contains", "len", "iter"],
}
MUT_OPS["BitSetGen"] = MUT_OPS["BitSet"]
MUTATING = {"add", "discard", "update", "intersection_update", "difference_update", "invert_update",
            "clear", "union", "intersection", "difference", "invert", "copy"}


def _sig_idset(kind, e, rej, pykind):
    """Specific shape of an IdSet failure, for known-finding matching."""
    sig = {"check": "idset", "cls": kind, "op": e["op"], "err": e.get("err", "")}
    return sig


def gen_idset_trace(rng, kind, maxid, nops):
    """Random program over one implementation class, respecting IdSet!Pre.
    Tracks nothing about contents except what the implementation itself
    reports through len/iter (needed only to respect preconditions)."""
    w = IdSetWorld(lambda r: kinds[r])
    kinds = {}
    trace = []
    base = kind if kind not in ("ReverseIdSet", "MultiIdSet") else rng.choice(["BitSet", "SortedIntSet"])

    def emit(e):
        res, err = w.apply(e)
        e = dict(e)
        e["res"] = res
        e["err"] = err
        if e["o"] in w.objs:
            e["cls"] = type(w.objs[e["o"]]).__name__
        trace.append(e)
        return res, err

    def rand_ids(k):
        hot = [0, 1, 7, 8, 9, 15, 16, 63, 64, maxid - 1]
        return [rng.choice(hot) if rng.random() < 0.3 else rng.randrange(maxid) for _ in range(k)]

    nobj = 0

    def new(kd, xs):
        nonlocal nobj
        nobj += 1
        kinds[nobj] = kd
        emit(_ev("new", xs=xs, r=nobj))
        return nobj

    if kind == "ReverseIdSet":
        u = new(base, sorted(set(min(x, maxid - 1) for x in rand_ids(rng.randrange(0, 12)))))
        nobj += 1
        kinds[nobj] = kind
        emit(_ev("new_reverse", p=u, n=maxid, r=nobj))
        targets = [nobj]
    elif kind == "MultiIdSet":
        subs, offs, off = [], [], 0
        for _ in range(rng.randrange(1, 4)):
            size = rng.randrange(1, maxid)
            subs.append(new(base, sorted(set(rng.randrange(size) for _ in range(rng.randrange(0, 8))))))
            offs.append(off)
            off += size
        nobj += 1
        kinds[nobj] = kind
        emit(_ev("new_multi", ps=subs, xs=offs, r=nobj))
        targets = [nobj]
        maxid = off + 2
    else:
        targets = [new(kind, sorted(set(rand_ids(rng.randrange(0, 10)))))]
        if kind in ("BitSet", "BitSetGen", "SortedIntSet"):
            other = rng.choice(["BitSet", "SortedIntSet", kind])
            targets.append(new(other, sorted(set(rand_ids(rng.randrange(0, 10))))))
    ops = MUT_OPS[kind]
    for _ in range(nops):
        o = rng.choice(targets)
        kd = kinds[o]
        op = rng.choice(MUT_OPS[kd] if kd in MUT_OPS else ops)
        e = _ev(op, o=o)
        if op in ("add", "discard", "contains", "before", "after"):
            e["n"] = rand_ids(1)[0]
            if kd == "ReverseIdSet":
                # documented domain of the view: ids below ``limit``
                e["n"] = min(e["n"], maxid - 1)
            elif op in ("before", "after") and rng.random() < 0.15:
                e["n"] = rng.choice([0, maxid, maxid + 9])
        elif op == "update":
            e["xs"] = rand_ids(rng.randrange(0, 5))
        elif op in ("intersection_update", "difference_update", "isdisjoint", "eq", "union",
                    "intersection", "difference"):
            e["p"] = rng.choice(targets)
        if op in ("union", "intersection", "difference", "invert", "copy"):
            nobj += 1
            e["r"] = nobj
        if op in ("invert", "invert_update"):
            # precondition: the set lies inside 0..size-1 -> ask the object
            cur = list(w.objs[o])
            e["n"] = (max(cur) + 1 if cur else 0) + rng.choice([0, 0, 1, 7, 8, 9])
        if op in ("first", "last") and len(list(w.objs[o])) == 0:
            continue
        res, err = emit(e)
        if not err and op in MUTATING:
            # observe the effect at once, so a wrong mutation is rejected at the call
            # that made it and never leaks into a later precondition
            tgt = e["r"] or o
            if "iter" in MUT_OPS.get(type(w.objs[tgt]).__name__, ()):
                res2, err = emit(_ev("iter", o=tgt))
        if e["r"] and not err:
            # classes of builder results follow the implementation
            kinds[e["r"]] = type(w.objs[e["r"]]).__name__
            if kinds[e["r"]] in MUT_OPS:
                targets.append(e["r"])
        if err:
            break
    return trace


def small_universe_traces(maxlimit):
    """Every subset of 0..limit-1 for every small limit, in every class and through the reversing view: the
    answers of all the read calls (what a random program reaches rarely: the sets with only 0, only the last
    id, everything, nothing)."""
    import itertools
    trs, meta = [], []
    for limit in range(1, maxlimit + 1):
        for r in range(limit + 1):
            for sub in itertools.combinations(range(limit), r):
                for base in ("BitSet", "SortedIntSet"):
                    for view in (None, "ReverseIdSet"):
                        kinds = {1: base, 2: view}
                        w = IdSetWorld(lambda r_: kinds[r_])
                        trace = []

                        def emit(e):
                            res, err = w.apply(e)
                            e = dict(e, res=res, err=err)
                            if e["o"] in w.objs:
                                e["cls"] = type(w.objs[e["o"]]).__name__
                            trace.append(e)
                        emit(_ev("new", xs=list(sub), r=1))
                        o = 1
                        if view:
                            emit(_ev("new_reverse", p=1, n=limit, r=2))
                            o = 2
                        members = [x for x in range(limit) if (x in sub) != bool(view)]
                        emit(_ev("len", o=o))
                        emit(_ev("iter", o=o))
                        if members:
                            emit(_ev("first", o=o))
                            emit(_ev("last", o=o))
                        for x in range(limit):
                            emit(_ev("contains", o=o, n=x))
                            if not view:
                                emit(_ev("before", o=o, n=x))
                                emit(_ev("after", o=o, n=x))
                        trs.append(trace)
                        meta.append(view or base)
    return trs, meta


def check_idset(run, quick):
    # 1. design model
    res = tlc.run_tlc("IdSet", "IdSetMC.cfg", coverage=True)
    run.add_tlc("IdSetMC", res)
    if res.violation:
        raise tlc.TLCError("IdSet design model violated: %s\n%s" % (res.violation, tlc.tail(res.stdout)))

    # 2. spec -> code: replay TLC behaviours on every mutable class / mix
    nb = 60 if quick else 600
    gen = tlc.run_tlc("IdSetGen", "IdSetGen.cfg", simulate=nb, depth=12, seed=run.seed + 1, workers=16)
    run.add_tlc("IdSetGen", gen)
    behs = gen.tagged.get("BEH", [])
    mixes = [("BitSet", "BitSet"), ("SortedIntSet", "SortedIntSet"), ("BitSet", "SortedIntSet"),
             ("SortedIntSet", "BitSet"), ("BitSetGen", "BitSet")]
    for bi, beh in enumerate(behs):
        for first, rest in mixes:
            kinds = {}
            w = IdSetWorld(lambda r: kinds.get(r, rest))
            kinds[1] = first
            w.apply(_ev("new", r=1))
            ok = True
            for i, e in enumerate(beh):
                e2 = dict(e)
                e2.setdefault("ps", [])
                kd = type(w.objs[e["o"]]).__name__
                if e["op"] not in MUT_OPS.get(kd, ()):
                    break  # call not offered by this class: rest of behaviour not applicable
                got, err = w.apply(e2)
                run.count()
                exp = e["res"]
                if err or (e["op"] in ("contains", "len", "iter", "first", "last", "before",
                                       "after", "isdisjoint", "bool", "eq") and got != exp):
                    sig = {"check": "idset-replay", "cls": kd, "op": e["op"], "err": err,
                           "other": type(w.objs.get(e["p"])).__name__ if e["p"] else ""}
                    run.violation(sig, {"behaviour": beh, "step": i, "mix": [first, rest],
                                        "expected": exp, "got": got, "err": err})
                    ok = False
                    break
            if ok:
                run.nontriv(("idset-beh", bi, first, rest))
    if behs:
        run.sample({"idset_behaviour_from_TLC": behs[0][:6]})

    # 3. code -> spec: random programs recorded from each class, validated by TLC
    rng = random.Random(run.seed + 20)
    n = 40 if quick else 400
    trs, meta = [], []
    for kind in ["BitSet", "BitSetGen", "SortedIntSet", "OnDiskBitSet", "ReverseIdSet", "MultiIdSet",
                 "RoaringIdSet"]:
        for j in range(n):
            maxid = rng.choice([9, 17, 40, 130]) if kind != "RoaringIdSet" else rng.choice([40, 70000])
            t = gen_idset_trace(rng, kind, maxid, rng.randrange(3, 25))
            trs.append(t)
            meta.append(kind)
    trs2, meta2 = small_universe_traces(4 if quick else 5)
    trs += trs2
    meta += meta2
    v = tr.validate(run, "IdSetTrace", "IdSetTrace.cfg", trs, name="IdSetTrace")
    run.count(sum(len(t) for t in trs))
    rejected = set()
    for r in v.rejects:
        t = trs[r["tid"]]
        e = t[r["l"] - 1]
        rejected.add(r["tid"])
        if not r.get("pre", True):
            # the driver takes what it needs for preconditions (is the set empty? how far does it extend?)
            # from the object's own iteration: a call outside the model's precondition therefore means that
            # the object's iteration disagrees with the model
            run.violation({"check": "idset-trace", "cls": e.get("cls", meta[r["tid"]]), "op": e["op"],
                           "err": "iteration-disagrees-with-model"},
                          {"trace": t, "line": r["l"], "expected": r.get("expected"), "spec_state": r.get("state")})
            continue
        sig = {"check": "idset-trace", "cls": e.get("cls", meta[r["tid"]]), "op": e["op"], "err": e["err"]}
        run.violation(sig, {"trace": t, "line": r["l"], "expected": r.get("expected"),
                            "spec_state": r.get("state")})
    for i, t in enumerate(trs):
        if i not in rejected and len(t) > 3:
            run.nontriv(("idset-trace", i))
    run.sample({"idset_trace_from_impl": trs[0][:5], "cls": meta[0]})


def check(run):
    quick = run.tier == "quick"
    run.rule = ("IdSet: TLC behaviours of IdSet.tla replayed on BitSet/SortedIntSet mixes; random call "
                "programs recorded from each doc-id set class and validated by IdSetTrace.tla. "
                "Tables: random key/value multisets through HashWriter/Reader (3 hash functions, start offsets, "
                "duplicates, empty keys/values), OrderedHash (closest_key, keys_from), every number encoding, "
                "varints, GrowableArray, base85, StructFile, SortingPool (run sizes 1..1000), CompoundWriter "
                "(buffer sizes 4..32K, as compound and as files) judged by TablesCheck.tla. "
                "non-trivial = behaviour/trace with >3 calls accepted to the end / non-empty table observation")
    check_idset(run, quick)
    from harness import tables
    tables.check_tables(run, quick)


def replay(run, rp):
    p = rp["payload"]
    if "trace" in p:
        # re-execute the recorded calls and re-validate
        t = [dict(e) for e in p["trace"]]
        kinds = {}
        raise NotImplementedError
