"""CLI: ./check <ID> [--tier quick|thorough] [--replay FILE]"""
import argparse
import importlib
import json
import os
import sys
import traceback

from harness import core, tlc


def setup():
    import glob
    import whoosh
    print("whoosh from", whoosh.__file__)
    bad = 0
    for f in sorted(glob.glob(os.path.join(tlc.SPEC_DIR, "*.tla"))):
        mod = os.path.basename(f)[:-4]
        ok, out = tlc.sany(mod)
        print("SANY %-22s %s" % (mod, "ok" if ok else "FAILED"))
        if not ok:
            print(tlc.tail(out))
            bad += 1
    return 1 if bad else 0


def main(argv=None):
    ap = argparse.ArgumentParser()
    ap.add_argument("pid", nargs="?")
    ap.add_argument("--tier", default=os.environ.get("VERIF_TIER", "quick"), choices=["quick", "thorough"])
    ap.add_argument("--replay")
    ap.add_argument("--setup", action="store_true")
    ap.add_argument("--selftest", action="store_true")
    a = ap.parse_args(argv)
    if a.setup:
        return setup()
    if a.selftest:
        from harness import selftest
        return selftest.main()
    if not a.pid:
        ap.error("property id required")
    seed = int(os.environ.get("VERIF_SEED", "0") or 0)
    pid = a.pid.upper()
    mod = importlib.import_module("harness.props.%s" % pid.lower())
    run = core.Run(pid, a.tier, seed, level=getattr(mod, "LEVEL", "model_checking"))
    try:
        if a.replay:
            with open(a.replay) as f:
                rp = json.load(f)
            mod.replay(run, rp)
        else:
            mod.check(run)
    except tlc.TLCError as e:
        run.machinery("TLC: %s" % e)
    except Exception as ex:
        tb = traceback.extract_tb(ex.__traceback__)
        inlib = bool(tb) and "/src/whoosh/" in tb[-1].filename.replace("\\", "/")
        if inlib and not a.replay:
            # The exception was raised inside the library, by a call of the driver that nothing guards because it
            # cannot fail on a tree where the property holds (building an index from admissible documents,
            # committing, opening a searcher): the library failing there is a violation, not a fault of the check.
            # The part of the check after that call did not run.
            run.violation({"check": "%s-driver-call-raised" % pid.lower(), "err": type(ex).__name__,
                           "where": "%s:%s" % (tb[-1].filename.split("/")[-1], tb[-1].name)},
                          {"traceback": traceback.format_exc()[-3000:]})
        else:
            run.machinery("driver crashed:\n" + traceback.format_exc())
    return run.finish()


if __name__ == "__main__":
    sys.exit(main())
