"""CLI: ./check <ID> [--tier quick|thorough] [--replay FILE]"""
import argparse
import importlib
import json
import os
import sys
import traceback

from harness import core, tlc


def setup():
    import glob
    import whoosh
    print("whoosh from", whoosh.__file__)
    bad = 0
    for f in sorted(glob.glob(os.path.join(tlc.SPEC_DIR, "*.tla"))):
        mod = os.path.basename(f)[:-4]
        ok, out = tlc.sany(mod)
        print("SANY %-22s %s" % (mod, "ok" if ok else "FAILED"))
        if not ok:
            print(tlc.tail(out))
            bad += 1
    return 1 if bad else 0


def main(argv=None):
    ap = argparse.ArgumentParser()
    ap.add_argument("pid", nargs="?")
    ap.add_argument("--tier", default=os.environ.get("VERIF_TIER", "quick"), choices=["quick", "thorough"])
    ap.add_argument("--replay")
    ap.add_argument("--setup", action="store_true")
    ap.add_argument("--selftest", action="store_true")
    a = ap.parse_args(argv)
    if a.setup:
        return setup()
    if a.selftest:
        from harness import selftest
        return selftest.main()
    if not a.pid:
        ap.error("property id required")
    seed = int(os.environ.get("VERIF_SEED", "0") or 0)
    pid = a.pid.upper()
    mod = importlib.import_module("harness.props.%s" % pid.lower())
    run = core.Run(pid, a.tier, seed, level=getattr(mod, "LEVEL", "model_checking"))
    try:
        if a.replay:
            with open(a.replay) as f:
                rp = json.load(f)
            mod.replay(run, rp)
        else:
            mod.check(run)
    except tlc.TLCError as e:
        run.machinery("TLC: %s" % e)
    except Exception:
        run.machinery("driver crashed:\n" + traceback.format_exc())
    return run.finish()


if __name__ == "__main__":
    sys.exit(main())
