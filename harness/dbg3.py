import json,sys,glob,os
src=open('/verif/harness/dbg.py').read().replace('\nmain()\n','\n')
ns={}; exec(src,ns)
pid=sys.argv[1]; sub=sys.argv[2] if len(sys.argv)>2 else ''
n=0
for f in sorted(glob.glob('/verif/replays/%s-*.json'%pid),key=os.path.getmtime):
    d=json.load(open(f)); p=d['payload']; s=d['sig']
    if sub and sub not in json.dumps(s): continue
    if 'trace' not in p: continue
    n+=1
    if n>int(os.environ.get('N','1')): break
    print("==",os.path.basename(f), s.get('why'), s.get('matcher'), 'nc',s.get('needs_current'), s.get('target'), ns['qstr'](p['q']))
    for e in p['trace'][:p['line']]:
        e=dict(e); ev=e.pop('ev'); m=e.pop('m',0)
        print("   %-8s m%s %s"%(ev,m,json.dumps(e)[:200]))
    print("   spec cur:",p.get('cur'))
    print("  plan", [ (st[0], len(st[1]), st[2] if len(st)>2 else '') for st in p['plan']], 'ndocs',len(p['idx']['docs']), 'deleted',[i for i,x in enumerate(p['idx']['docs']) if not x['live']])
