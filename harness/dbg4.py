"""re-execute a matcher replay with raw floats: python -m harness.dbg4 replays/C12-xxx.json"""
import json,sys
from harness.props import c11
d=json.load(open(sys.argv[1])); mt=d['payload']['meta']
line=d['payload']['line']
mode=mt['mode']
import harness.mtrace as mtrace
orig=mtrace.Recorder.__init__
def init(self, m="exact"):
    orig(self, "raw" if mode=="rank" else m)
mtrace.Recorder.__init__=init
ev=c11.reexecute(mt)
print(d['sig']['why'], mt['weighting'], mt['matcher'])
for e in ev[:line+1]:
    e=dict(e); n=e.pop('ev'); m=e.pop('m',0)
    if n=='state' and '-s' not in sys.argv: continue
    print("  %-8s m%s %s"%(n,m,json.dumps(e)[:220]))
