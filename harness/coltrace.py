"""Collector traces for CollectorTrace.tla: every step of a real top-N collection
(TopCollector, optionally under a CollapseCollector) becomes one event.

No hook in Whoosh is needed: the collector is subclassed (its public extension point) and
the matcher it is given is wrapped in a delegating proxy that logs the thresholds the
collector hands to replace() / skip_to_quality()."""
from harness import qobs, traces as tr, world


def sc(x):
    return qobs._scaled(x)


class MatcherProxy(object):
    def __init__(self, m, log):
        self.__dict__["_m"] = m
        self.__dict__["_log"] = log

    def __getattr__(self, k):
        return getattr(self._m, k)

    def __setattr__(self, k, v):
        setattr(self._m, k, v)

    def replace(self, minquality=0):
        if minquality:
            self._log.append({"ev": "prune", "q": sc(minquality), "via": "replace"})
        r = self._m.replace(minquality)
        return self if r is self._m else MatcherProxy(r, self._log)

    def skip_to_quality(self, minquality):
        if minquality:
            self._log.append({"ev": "prune", "q": sc(minquality), "via": "skip_to_quality"})
        return self._m.skip_to_quality(minquality)


def traced_top(limit, log):
    from whoosh import collectors

    class TracedTop(collectors.TopCollector):
        def set_subsearcher(self, subsearcher, offset):
            collectors.TopCollector.set_subsearcher(self, subsearcher, offset)
            self.matcher = MatcherProxy(self.matcher, log)

        def _collect(self, global_docnum, score):
            r = collectors.TopCollector._collect(self, global_docnum, score)
            log.append({"ev": "collect", "d": int(global_docnum), "s": sc(score),
                        "heap": sorted([sc(s), int(0 - nd)] for s, nd in self.items), "minscore": sc(self.minscore)})
            return r

        def remove(self, global_docnum):
            collectors.TopCollector.remove(self, global_docnum)
            log.append({"ev": "remove", "d": int(global_docnum), "minscore": sc(self.minscore)})
    return TracedTop(limit)


def record(searcher, q, limit, collapse=None, collapse_limit=1):
    """One trace of searcher.search(q, limit=limit[, collapse=...]) as a list of events."""
    from whoosh import collectors, sorting
    ref = sorted([int(d), sc(s)] for s, d in searcher.search(q, limit=None).top_n)
    log = [{"ev": "begin", "k": int(limit), "ref": ref, "collapse": bool(collapse)}]
    try:
        c = traced_top(limit, log)
        top = c
        if collapse:
            c = collectors.CollapseCollector(c, sorting.FieldFacet(collapse), limit=collapse_limit)
        searcher.search_with_collector(q, c)
        r = c.results()
        log.append({"ev": "done", "results": [[int(d), sc(s)] for s, d in r.top_n], "count": int(len(r))})
    except Exception as ex:
        log.append({"ev": "error", "err": type(ex).__name__, "msg": str(ex)[:200]})
    return log


def check_collectors(run, rng, nworlds, nqueries, check, collapse_fields=(), build=None):
    """Random multi-segment worlds x scored queries x limits: collector traces validated by TLC."""
    from whoosh import scoring
    trs, meta = [], []
    for wi in range(nworlds):
        n = rng.randrange(8, 20)
        adocs = {"k%d" % i: world.rand_doc(rng, boosts=(wi % 3 == 2)) for i in range(n)}
        plan = world.rand_plan(rng, adocs.keys())
        bl = rng.choice([None, 1, 2, 3])
        w = world.World(adocs, plan, storage="ram", blocklimit=bl)
        try:
            with w.ix.searcher(weighting=scoring.Frequency()) as s:
                for qi in range(nqueries):
                    aq = world.rand_query(rng, rng.randrange(0, 4), scored_only=True,
                                          ops=["term", "every", "or", "andmaybe", "and", "dismax", "andnot", "require",
                                               "const"])
                    q = world.to_query(aq)
                    k = rng.choice([1, 2, 3, 5])
                    cf = rng.choice(list(collapse_fields) + [None]) if collapse_fields else None
                    cl = rng.choice([1, 2])
                    t = record(s, q, k, collapse=cf, collapse_limit=cl)
                    trs.append(t)
                    run.count(len(t))
                    meta.append({"q": aq, "plan": plan, "adocs": adocs, "k": k, "collapse": cf, "climit": cl,
                                 "blocklimit": bl})
        finally:
            w.close()
    v = tr.validate(run, "CollectorTrace", "CollectorTrace.cfg", trs, name="CollectorTrace", chunk=400)
    # recorded finding 'WrappingMatcher.replace() hands its threshold unscaled to the child': recognised when
    # the identical search, traced again with only that method corrected, is accepted by the specification
    classes = {}
    if v.rejects:
        alts, idxs = [], []
        for r in v.rejects:
            mt = meta[r["tid"]]
            w = world.World(mt["adocs"], mt["plan"], storage="ram", blocklimit=mt["blocklimit"])
            try:
                with qobs.scaled_wrapping_replace(), w.ix.searcher(weighting=scoring.Frequency()) as s:
                    alts.append(record(s, world.to_query(mt["q"]), mt["k"], collapse=mt["collapse"],
                                       collapse_limit=mt["climit"]))
                    idxs.append(r["tid"])
            finally:
                w.close()
        v2 = tr.validate(run, "CollectorTrace", "CollectorTrace.cfg", alts, name="CollectorTrace-alt", chunk=400)
        bad2 = set(x["tid"] for x in v2.rejects)
        for n, tid in enumerate(idxs):
            if n not in bad2:
                classes[tid] = "wrapping-replace-unscaled"
    rejected = set()
    for r in v.rejects:
        t = trs[r["tid"]]
        e = t[r["l"] - 1]
        mt = meta[r["tid"]]
        rejected.add(r["tid"])
        sig = {"check": check, "why": r["why"], "ev": e["ev"], "via": e.get("via", ""), "err": e.get("err", ""),
               "shape": qobs.shape(mt["q"]), "collapse": bool(mt["collapse"])}
        if r["tid"] in classes:
            sig["class"] = classes[r["tid"]]
        run.violation(sig,
                      {"trace": t, "line": r["l"], "kept": r.get("kept"), "maxq": r.get("maxq"), "q": mt["q"],
                       "plan": mt["plan"], "adocs": mt["adocs"], "k": mt["k"]})
    pr = 0
    for i, t in enumerate(trs):
        if i not in rejected and len(t) > 4:
            run.nontriv((check, i))
        pr += sum(1 for e in t if e["ev"] == "prune")
    run.extra["collector_prune_events"] = run.extra.get("collector_prune_events", 0) + pr
    if trs:
        run.sample({"collector_trace": trs[0][:5]})
    return pr
