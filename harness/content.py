"""Judging canonical dumps with ContentCheck.tla."""
import os
import tempfile

from harness import tlc


def judge(run, cases, name="ContentCheck", chunk=8):
    """cases: [{"idx":..., "obs":[...], ...}] -> list of (case index, obs index, expected)"""
    rejects = []
    for base in range(0, len(cases), chunk):
        part = [{"idx": c["idx"], "obs": c["obs"]} for c in cases[base:base + chunk]]
        fd, path = tempfile.mkstemp(prefix="verif-cc-", suffix=".json")
        os.close(fd)
        try:
            tlc.write_json(path, part)
            res = tlc.run_tlc("ContentCheck", "ContentCheck.cfg", env={"TRACE_FILE": path}, timeout=2400, check=False)
        finally:
            os.unlink(path)
        run.add_tlc("%s[%d:%d]" % (name, base, base + len(part)), res)
        nobs = sum(len(c["obs"]) for c in part)
        if res.violation or not res.ok or res.distinct != nobs:
            raise tlc.TLCError("ContentCheck: %s (%d of %d observations judged)\n%s" % (
                res.violation, res.distinct, nobs, tlc.tail(res.stdout, 30)))
        for r in res.tagged.get("REJECT", []):
            rejects.append((base + r["tid"] - 1, r["oi"] - 1, r["expected"]))
        run.traces += len(part)
    return rejects


def where(ex):
    import traceback
    tb = traceback.extract_tb(ex.__traceback__)
    return "; ".join("%s:%s" % (f.filename.split("/")[-1], f.name) for f in tb[-5:])


def report(run, check, cases, rejects):
    bad = set()
    for ci, oi, exp in rejects:
        c = cases[ci]
        o = c["obs"][oi]
        bad.add(ci)
        sig = {"check": check, "kind": o["kind"], "f": o.get("f", ""), "err": o.get("err", ""),
               "path": o.get("path", ""), "cfg": c.get("cfg")}
        cfg = c.get("cfg") or {}
        buffered = cfg.get("frontend") == "buffered" or "BufferedWriter" in str(cfg.get("view", ""))
        if buffered and (o["kind"] == "column" or (o["kind"] == "error" and o.get("path") == "building the index"
                                                   and "columns.py" in o.get("where", ""))
                         or (o["kind"] == "error" and str(o.get("path", "")).startswith("column:"))):
            sig["class"] = "buffered-writer-column-values"
        run.violation(sig, {"obs": o, "expected": exp, "cfg": c.get("cfg"), "plan": c.get("plan"), "seed": c.get("seed"),
                            "ndocs": len(c["idx"]["docs"]), "adocs": c.get("adocs"), "variant": c.get("variant", 0)})
    for ci, c in enumerate(cases):
        if ci not in bad and len(c["idx"]["docs"]) >= 3:
            run.nontriv((check, ci, str(c.get("cfg")), str(c.get("plan"))[:200]))
    if cases:
        run.sample({"cfg": cases[0].get("cfg"), "plan": cases[0].get("plan"), "observations": cases[0]["obs"][:4]})
