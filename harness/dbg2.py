import json,sys
src=open('/verif/harness/dbg.py').read().replace('\nmain()\n','\n')
ns={}; exec(src,ns)
pid=sys.argv[1]
for f in sys.argv[2:]:
    d=json.load(open('/verif/replays/%s-%s.json'%(pid,f))); p=d['payload']
    print("==",d['sig'].get('path'), ns['qstr'](p['q']))
    for i,doc in enumerate(p['idx']['docs']):
        print("   d%d %s body=%s title=%s b4=%s n=%s"%(i,"L" if doc["live"] else "X",json.dumps(doc["t"].get("body")).replace(" ",""),json.dumps(doc["t"].get("title")).replace(" ",""),doc["b4"],doc["n"].get("num")))
    print("  plan", [ (s[0], len(s[1]), s[2] if len(s)>2 else '') for s in p['plan']])
    print("  obs", json.dumps(p['obs'].get('hits',p['obs']))[:300], "exp", json.dumps(p['expected'].get('hits',p['expected']))[:300])
