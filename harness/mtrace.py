"""Records call traces of real matchers in the vocabulary of MatcherTrace.tla."""
import math

from harness import qobs

UNIT = qobs.UNIT


class CallDidNotReturn(Exception):
    """A matcher call that runs for 20 seconds on a tiny index does not terminate (an 'error' event)."""


import contextlib as _contextlib


@_contextlib.contextmanager
def _deadline(seconds):
    import signal
    import threading
    if threading.current_thread() is not threading.main_thread():
        yield
        return

    def onalarm(signum, frame):
        raise CallDidNotReturn("no return after %d s" % seconds)
    old = signal.signal(signal.SIGALRM, onalarm)
    signal.setitimer(signal.ITIMER_REAL, seconds)
    try:
        yield
    finally:
        signal.setitimer(signal.ITIMER_REAL, 0)
        signal.signal(signal.SIGALRM, old)


class Recorder(object):
    """mode 'exact': scores are dyadic -> scaled ints; mode 'rank': floats are
    interned by rank after the trace is complete."""

    def __init__(self, mode="exact"):
        self.mode = mode
        self.events = []
        self.objs = {}
        self.nobj = 0
        self.floats = set()
        self.failed = False
        self.notimpl = []
        self.program = []

    def num(self, x):
        if self.mode == "exact":
            return qobs._scaled(x)
        x = float(x)
        if self.mode == "raw":
            return round(x, 5)
        if math.isnan(x):
            x = float("-inf")
        self.floats.add(x)
        return ("F", x)

    def finish(self):
        if self.mode == "rank":
            order = dict((v, 2 * i) for i, v in enumerate(sorted(self.floats)))

            def fix(v):
                if isinstance(v, tuple) and len(v) == 2 and v[0] == "F":
                    return order[v[1]]
                if isinstance(v, list):
                    return [fix(x) for x in v]
                if isinstance(v, dict):
                    return dict((k, fix(x)) for k, x in v.items())
                return v
            self.events = [fix(e) for e in self.events]
        return self.events

    def emit(self, **e):
        e.setdefault("m", 0)
        self.events.append(e)

    def call(self, what, fn):
        try:
            with _deadline(20):
                return True, fn()
        except NotImplementedError:
            # a protocol method the class does not implement: reported on its own
            # (call, class) and the program goes on - nothing moved
            import sys
            tb = sys.exc_info()[2]
            cls = ""
            while tb is not None:
                slf = tb.tb_frame.f_locals.get("self")
                if slf is not None and hasattr(slf, "is_active"):
                    cls = type(slf).__name__
                tb = tb.tb_next
            self.notimpl.append((what, cls))
            return False, None
        except Exception as ex:
            self.emit(ev="error", call=what, err=type(ex).__name__, msg=str(ex)[:120])
            self.failed = True
            return False, None

    # ---- helpers -----------------------------------------------------------
    def entries(self, m, limit=100000):
        """Remaining <<id, score>> entries of a *copy* of m, by plain stepping."""
        c = m.copy()
        out = []
        while c.is_active() and len(out) < limit:
            out.append([int(c.id()), self.num(c.score())])
            c.next()
        return out

    def new(self, m):
        self.nobj += 1
        k = self.nobj
        self.objs[k] = m
        ok, ref = self.call("reference-pass", lambda: self.entries(m))
        if ok:
            self.emit(ev="new", m=k, ref=ref)
        return k

    def state(self, k):
        m = self.objs[k]

        def f():
            if m.is_active():
                return True, int(m.id()), self.num(m.score())
            return False, 0, 0
        ok, r = self.call("state", f)
        if ok:
            self.emit(ev="state", m=k, active=r[0], id=r[1], score=r[2])

    def quality(self, k, blockscan=False):
        m = self.objs[k]
        if not m.is_active() or not m.supports_block_quality():
            return
        ok, r = self.call("quality", lambda: (self.num(m.block_quality()), self.num(m.max_quality())))
        if not ok:
            return
        self.emit(ev="quality", m=k, bq=r[0], mq=r[1])
        if blockscan and m.is_leaf() and m.term() is not None:
            def scan():
                c = m.copy()
                scores = []
                while c.is_active():
                    scores.append(self.num(c.score()))
                    if c.next():
                        break
                return scores
            ok, scores = self.call("blockscan", scan)
            if ok:
                self.emit(ev="blockscan", m=k, bq=r[0], scores=scores)


def exec_op(rec, st, op, k, arg, blockscan):
    """Performs one program step on matcher object k and emits its events.
    st: {"live": [...], "replaced": set(), "nimpl": int}"""
    m = rec.objs[k]
    rec.program.append([op, k, arg])
    if op == "start":
        if arg:   # all_ids on the fresh matcher, then reset
            ok, ids = rec.call("all_ids", lambda: [int(x) for x in m.all_ids()])
            if ok:
                rec.emit(ev="allids", m=k, ids=ids)
                ok, _ = rec.call("reset", m.reset)
                if ok:
                    rec.emit(ev="reset", m=k)
    elif op == "next":
        ok, _ = rec.call("next", m.next)
        if ok:
            rec.emit(ev="next", m=k)
    elif op == "skip_to":
        ok, _ = rec.call("skip_to", lambda: m.skip_to(arg))
        if ok:
            rec.emit(ev="skip_to", m=k, t=int(arg))
    elif op == "skipq":
        ok, _ = rec.call("skip_to_quality", lambda: m.skip_to_quality(arg))
        if ok:
            ok, rest = rec.call("entries", lambda: rec.entries(m))
            if ok:
                rec.emit(ev="skipq", m=k, q=rec.num(arg), rest=rest)
    elif op == "replace":
        ok, m2 = rec.call("replace", lambda: m.replace(arg))
        if ok:
            ok, rest = rec.call("entries", lambda: rec.entries(m2))
            if ok:
                rec.nobj += 1
                k2 = rec.nobj
                rec.objs[k2] = m2
                rec.emit(ev="replace", m=k, q=rec.num(arg), r=k2, rest=rest)
                # the original must not be used after replace(): it may share sub-matchers
                st["live"] = [x for x in st["live"] if x != k] + [k2]
                st["replaced"].add(k2)
                k = k2
    elif op == "copy":
        ok, m2 = rec.call("copy", m.copy)
        if ok:
            rec.nobj += 1
            k2 = rec.nobj
            rec.objs[k2] = m2
            rec.emit(ev="copy", m=k, r=k2)
            if k in st["replaced"]:
                st["replaced"].add(k2)
            st["live"].append(k2)
            rec.state(k2)
    elif op == "reset":
        ok, _ = rec.call("reset", m.reset)
        if ok:
            rec.emit(ev="reset", m=k)
    elif op == "quality":
        rec.quality(k, blockscan=blockscan)
        return k
    if len(rec.notimpl) > st["nimpl"]:
        # an unimplemented method of a composite may have moved some children
        # before raising: the object is in no defined state any more
        st["nimpl"] = len(rec.notimpl)
        st["live"] = [x for x in st["live"] if x != k]
        return k
    if not rec.failed:
        rec.state(k)
        # ... and every other live cursor must still be where it was (copies share nothing)
        for x in st["live"]:
            if x != k and not rec.failed:
                rec.state(x)
    return k


def run_program(rec, m, rng, nsteps, thresholds=(0,), allow_reset=True, blockscan=False, maxid=50, hot=(), qbias=0.0):
    """Random program over matcher m (and copies / replacements); the steps taken are
    kept in rec.program so that the same program can be re-executed (reexecute)."""
    k0 = rec.new(m)
    if rec.failed:
        return
    st = {"live": [k0], "replaced": set(), "nimpl": len(rec.notimpl)}
    exec_op(rec, st, "start", k0, rng.random() < 0.3, blockscan)
    if allow_reset and rng.random() < 0.3 and not rec.failed and m.is_active():
        # aliasing prelude: advance, copy, then rewind and move original and copy independently
        exec_op(rec, st, "skip_to", k0, int(rng.randrange(0, maxid + 1)), blockscan)
        if not rec.failed and k0 in st["live"]:
            exec_op(rec, st, "copy", k0, None, blockscan)
            for k in list(st["live"]):
                if rec.failed or k not in st["live"]:
                    break
                exec_op(rec, st, "reset", k, None, blockscan)
                for _ in range(rng.randrange(0, 3)):
                    if not rec.failed and k in st["live"] and rec.objs[k].is_active():
                        exec_op(rec, st, "next", k, None, blockscan)
    for _ in range(nsteps):
        if rec.failed or not st["live"]:
            return
        k = rng.choice(st["live"])
        m = rec.objs[k]
        active = m.is_active()
        r = rng.random()
        if qbias and active and rng.random() < qbias and m.supports_block_quality():
            # quality-heavy programs: mostly skip_to_quality on fresh copies / after small moves
            if rng.random() < 0.5:
                exec_op(rec, st, "copy", k, None, blockscan)
                k = st["live"][-1]
            exec_op(rec, st, "skipq" if rng.random() < 0.6 else "replace", k, rng.choice(thresholds), blockscan)
        elif r < 0.30 and active:
            exec_op(rec, st, "next", k, None, blockscan)
        elif r < 0.55 and active:
            cur = m.id()
            t = rng.choice([cur, cur + 1, cur + 2, cur + rng.randrange(0, 6), max(0, cur - 1), maxid + 3])
            ahead = [h for h in hot if h > cur]
            if ahead and rng.random() < 0.35:
                t = rng.choice(ahead)       # e.g. the number of a deleted document
            exec_op(rec, st, "skip_to", k, int(t), blockscan)
        elif r < 0.67 and active and m.supports_block_quality():
            exec_op(rec, st, "skipq", k, rng.choice(thresholds), blockscan)
        elif r < 0.80:
            q = rng.choice(thresholds)
            if q and not m.supports_block_quality():
                q = 0
            exec_op(rec, st, "replace", k, q, blockscan)
        elif r < 0.90:
            exec_op(rec, st, "copy", k, None, blockscan)
        elif allow_reset and k not in st["replaced"]:
            exec_op(rec, st, "reset", k, None, blockscan)
        if not rec.failed and st["live"] and rng.random() < 0.5:
            exec_op(rec, st, "quality", rng.choice(st["live"]), None, blockscan)
    for k in st["live"]:
        if rec.failed:
            return
        rec.state(k)


def run_sweep(rec, m, nnext, threshold, blockscan=False):
    """A short program: nnext steps from the start, then skip_to_quality(threshold)."""
    k0 = rec.new(m)
    if rec.failed:
        return
    st = {"live": [k0], "replaced": set(), "nimpl": len(rec.notimpl)}
    exec_op(rec, st, "start", k0, False, blockscan)
    for _ in range(nnext):
        if not rec.failed and k0 in st["live"] and rec.objs[k0].is_active():
            exec_op(rec, st, "next", k0, None, blockscan)
    if not rec.failed and k0 in st["live"] and rec.objs[k0].is_active() and rec.objs[k0].supports_block_quality():
        if nnext % 2 == 1:
            # (every other program asks for the rewritten matcher instead: what a collector does with its threshold)
            exec_op(rec, st, "replace", k0, threshold, blockscan)
            return
        exec_op(rec, st, "skipq", k0, threshold, blockscan)
        if not rec.failed and k0 in st["live"]:
            exec_op(rec, st, "quality", k0, None, blockscan)


def reexecute(rec, m, program, blockscan=False):
    """Runs a recorded program again on a fresh matcher m."""
    k0 = rec.new(m)
    if rec.failed:
        return
    st = {"live": [k0], "replaced": set(), "nimpl": len(rec.notimpl)}
    for op, k, arg in program:
        if rec.failed or k not in rec.objs:
            break
        if op in ("next", "skip_to", "skipq") and not rec.objs[k].is_active():
            # (the program was recorded on another run: there this cursor was still active, and the driver
            # never moves an exhausted one)
            continue
        exec_op(rec, st, op, k, arg, blockscan)
    for k in st["live"]:
        if rec.failed:
            return
        rec.state(k)


def run_skip(rec, m, nnext, target):
    """A short program: nnext steps from the start, then skip_to(target)."""
    k0 = rec.new(m)
    if rec.failed:
        return
    st = {"live": [k0], "replaced": set(), "nimpl": len(rec.notimpl)}
    exec_op(rec, st, "start", k0, False, False)
    for _ in range(nnext):
        if not rec.failed and k0 in st["live"] and rec.objs[k0].is_active():
            exec_op(rec, st, "next", k0, None, False)
    if not rec.failed and k0 in st["live"] and rec.objs[k0].is_active():
        exec_op(rec, st, "skip_to", k0, int(target), False)
        if not rec.failed and k0 in st["live"] and rec.objs[k0].is_active():
            exec_op(rec, st, "next", k0, None, False)
