"""Concretisation: abstract indexes / queries of QuerySem.tla <-> real Whoosh
objects.  Nothing here computes what a query means; it only translates."""
import os
import shutil
import tempfile

LETTERS = {1: u"a", 2: u"b", 3: u"c", 4: u"é", 5: u"\U0001F600", 6: u"\U0001F601",
           # (codes 7 and 8 are ordered between 3 and 4: QuerySem!LetterKey)
           7: u"t", 8: u"o"}
GAPWORD = u"the"
UNIT = 65536

TEXT_FIELDS = ("body", "title")
# a field that is not scorable (no field length; length-based weightings score its terms by the posting weight);
# only directed generators put words there, never a gap word or a positional query
KW_FIELDS = ("tags",)
NUM_FIELDS = ("num",)


def term_text(t):
    return u"".join(LETTERS[c] for c in t)


def tokens_text(toks):
    return u" ".join(GAPWORD if t == [0] else term_text(t) for t in toks)


def make_schema():
    from whoosh import fields, analysis
    ana = analysis.RegexTokenizer(r"\S+") | analysis.StopFilter(stoplist=[GAPWORD], minsize=1, renumber=False)
    # the title analyzer also breaks words at hyphens (no generated document contains one; a query word
    # like "a-b" becomes several tokens there - the parser's multitoken_query handling, C16)
    ana2 = analysis.RegexTokenizer(r"[^\s-]+") | analysis.StopFilter(stoplist=[GAPWORD], minsize=1, renumber=False)
    return fields.Schema(
        key=fields.ID(stored=True, unique=True),
        body=fields.TEXT(analyzer=ana, phrase=True, stored=False),
        title=fields.TEXT(analyzer=ana2, phrase=True, stored=False),
        num=fields.NUMERIC(int, bits=32, signed=True, stored=True),
        tags=fields.KEYWORD(stored=False),
    )


class World(object):
    """A real index built from abstract documents.

    adocs: dict key -> abstract doc {"t": {field: [term,...]}, "n": {field: [int]}, "b4": int}
    plan: list of steps:
        ("commit", [keys], {"merge": bool, "optimize": bool})
        ("delete", [keys])           (delete_by_term on key, own commit, merge=False)
    """

    def __init__(self, adocs, plan, storage="file", blocklimit=None, compound=True, inlinelimit=None):
        from whoosh import index
        from whoosh.filedb.filestore import RamStorage, FileStorage
        self.adocs = adocs
        self.dir = None
        self.schema = make_schema()
        if storage == "ram":
            self.st = RamStorage()
        else:
            self.dir = tempfile.mkdtemp(prefix="verif-ix-")
            self.st = FileStorage(self.dir)
        self.ix = self.st.create_index(self.schema)
        self.codec = None
        self.blocklimit = blocklimit
        self.inlinelimit = inlinelimit
        if blocklimit or inlinelimit:
            from whoosh.codec.whoosh3 import W3Codec
            # inlinelimit > 1: short posting lists are stored inside the term info (read by a ListMatcher)
            self.codec = lambda: W3Codec(blocklimit=blocklimit or 128, inlinelimit=inlinelimit or 1)
        self.compound = compound
        for step in plan:
            self.apply(step)

    def writer(self):
        kw = {}
        if self.codec:
            kw["codec"] = self.codec()
        if not self.compound:
            kw["compound"] = False
        return self.ix.writer(**kw)

    def apply(self, step):
        kind = step[0]
        w = self.writer()
        if kind == "commit":
            for k in step[1]:
                d = self.adocs[k]
                kw = {"key": k}
                for f in TEXT_FIELDS + KW_FIELDS:
                    toks = d["t"].get(f)
                    if toks:
                        kw[f] = tokens_text(toks)
                for f in NUM_FIELDS:
                    vals = d["n"].get(f)
                    if vals:
                        kw[f] = vals[0] if len(vals) == 1 else list(vals)
                if d.get("b4", 4) != 4:
                    kw["_boost"] = d["b4"] / 4.0
                w.add_document(**kw)
            opts = step[2] if len(step) > 2 else {}
            w.commit(merge=opts.get("merge", True), optimize=opts.get("optimize", False))
        elif kind == "delete":
            for k in step[1]:
                w.delete_by_term("key", k)
            w.commit(merge=False)
        else:
            raise ValueError(kind)

    def abstract_index(self, reader):
        """The abstract index in the docnum order of `reader` (read back through
        stored keys - the only thing taken from the implementation)."""
        docs = []
        bounds = [off for _, off in reader.leaf_readers()]
        for dn in range(reader.doc_count_all()):
            k = reader.stored_fields(dn)["key"]
            d = self.adocs[k]
            docs.append({"live": not reader.is_deleted(dn), "seg": sum(1 for b in bounds if b <= dn),
                         "t": {f: d["t"].get(f, []) for f in TEXT_FIELDS + KW_FIELDS if f in TEXT_FIELDS or d["t"].get(f)},
                         "n": {f: d["n"].get(f, []) for f in NUM_FIELDS},
                         "b4": d.get("b4", 4), "key": k})
        return {"docs": docs}

    def close(self):
        try:
            self.ix.close()
        except Exception:
            pass
        if self.dir:
            shutil.rmtree(self.dir, ignore_errors=True)


def to_query(a):
    """Abstract query AST -> whoosh query object."""
    from whoosh import query
    op = a["op"]
    b = a.get("b4", 4) / 4.0
    if op == "term":
        return query.Term(a["f"], term_text(a["t"]), boost=b)
    if op == "null":
        return query.NullQuery
    if op == "every":
        return query.Every(a["f"] or None, boost=b)
    if op == "and":
        return query.And([to_query(k) for k in a["kids"]], boost=b)
    if op == "or":
        q = query.Or([to_query(k) for k in a["kids"]], boost=b, scale=a.get("scale"))
        if a.get("mtype"):
            q.matcher_type = a["mtype"]
        return q
    if op == "dismax":
        # (the tie-break parameter is accepted; the documented score is the maximum of the sub-scores whatever it is)
        return query.DisjunctionMax([to_query(k) for k in a["kids"]], boost=b, tiebreak=a.get("tb", 0.0))
    if op == "not":
        return query.Not(to_query(a["q"]))
    if op == "andnot":
        return query.AndNot(to_query(a["a"]), to_query(a["b"]))
    if op == "andmaybe":
        return query.AndMaybe(to_query(a["a"]), to_query(a["b"]))
    if op == "require":
        return query.Require(to_query(a["a"]), to_query(a["b"]))
    if op == "const":
        return query.ConstantScoreQuery(to_query(a["q"]), score=a["score"] / float(UNIT))
    if op == "phrase":
        return query.Phrase(a["f"], [term_text(w) for w in a["words"]], slop=a["slop"], boost=b)
    if op == "prefix":
        return query.Prefix(a["f"], term_text(a["t"]), boost=b)
    if op == "wildcard":
        return query.Wildcard(a["f"], u"".join(u"?" if c == -1 else u"*" if c == -2 else u"[ab]" if c == -3 else LETTERS[c] for c in a["t"]),
                              boost=b)
    if op == "fuzzy":
        return query.FuzzyTerm(a["f"], term_text(a["t"]), boost=b, maxdist=a["maxdist"],
                               prefixlength=a["prefix"])
    if op == "termrange":
        return query.TermRange(a["f"], term_text(a["lo"]) if a["haslo"] else None,
                               term_text(a["hi"]) if a["hashi"] else None,
                               startexcl=a["loexcl"], endexcl=a["hiexcl"], boost=b)
    if op == "regex":
        out = []
        for c, lo, hi, brace in a["atoms"]:
            ch = u"." if c == 0 else LETTERS[c]
            if (lo, hi) == (1, 1):
                out.append(ch)
            elif not brace and (lo, hi) in ((0, 1), (0, -1), (1, -1)):
                out.append(ch + {(0, 1): u"?", (0, -1): u"*", (1, -1): u"+"}[(lo, hi)])
            else:
                out.append(u"%s{%d,%s}" % (ch, lo, u"" if hi < 0 else hi))
        return query.Regex(a["f"], u"".join(out), boost=b)
    if op == "colq":
        v = a["v"]
        return query.ColumnQuery(a["f"], v if a["rel"] == "eq" else (lambda x, v=v: x <= v))
    if op == "numrange":
        return query.NumericRange(a["f"], a["lo"] if a["haslo"] else None, a["hi"] if a["hashi"] else None,
                                  startexcl=a["loexcl"], endexcl=a["hiexcl"], boost=b)
    if op == "nestedparent":
        return query.NestedParent(to_query(a["p"]), to_query(a["q"]))
    if op == "nestedchildren":
        return query.NestedChildren(to_query(a["p"]), to_query(a["q"]))
    if op == "sequence":
        return query.Sequence([to_query(k) for k in a["kids"]], slop=a["slop"], ordered=a["ordered"])
    if op.startswith("span"):
        from whoosh.query import spans
        if op == "spanor":
            return spans.SpanOr([to_query(k) for k in a["kids"]])
        if op == "spanfirst":
            return spans.SpanFirst(to_query(a["q"]), limit=a["limit"])
        if op == "spannear":
            return spans.SpanNear(to_query(a["a"]), to_query(a["b"]), slop=a["slop"], ordered=a["ordered"],
                                  mindist=a["mindist"])
        if op == "spannear2":
            return spans.SpanNear2([to_query(k) for k in a["kids"]], slop=a["slop"], ordered=a["ordered"],
                                   mindist=a["mindist"])
        cls = {"spannot": spans.SpanNot, "spancontains": spans.SpanContains, "spanbefore": spans.SpanBefore,
               "spancond": spans.SpanCondition}[op]
        return cls(to_query(a["a"]), to_query(a["b"]))
    raise ValueError(op)


def rand_nested_query(rng):
    """NestedParent / NestedChildren over arbitrary 'parent' and sub-queries (inputs only)."""
    term = lambda: {"op": "term", "f": rng.choice(TEXT_FIELDS), "t": rand_term(rng, 2, 1), "b4": 4}
    sub = lambda: rand_query(rng, rng.randrange(0, 2), scored_only=True, ops=["term", "or", "and", "every"])
    p = rng.choice([term(), term(), sub()])
    if rng.random() < 0.5:
        return {"op": "nestedparent", "p": p, "q": sub()}
    # NestedChildren: the sub-query selects among the parent documents
    return {"op": "nestedchildren", "p": p, "q": {"op": "and", "kids": [p, sub()], "b4": 4}}


def family_docs(rng, n):
    """groups of one parent and 0..3 children: the parent carries the marker term `b` in its title"""
    docs, left = {}, 0
    for i in range(n):
        body = [rand_term(rng, 2, 1) for _ in range(rng.randrange(0, 4))]
        if left == 0:
            docs["k%02d" % i] = {"t": {"title": [[1]], "body": body}, "n": {}, "b4": 4}
            left = rng.choice([0, 1, 1, 2, 2, 3])
        else:
            docs["k%02d" % i] = {"t": {"title": [[2]] if rng.random() < 0.5 else [], "body": body}, "n": {}, "b4": 4}
            left -= 1
    return docs


def family_query(rng):
    """NestedParent / NestedChildren over the marker of family_docs, alone or under one connective"""
    p = {"op": "term", "f": "title", "t": [1], "b4": 4}
    bt = lambda: {"op": "term", "f": "body", "t": rand_term(rng, 2, 1), "b4": rng.choice([4, 4, 8])}
    sub = rng.choice([bt(), bt(), {"op": "or", "kids": [bt(), bt()], "b4": 4}, {"op": "every", "f": "", "b4": 4}])
    if rng.random() < 0.5:
        aq = {"op": "nestedparent", "p": p, "q": sub}
    else:
        aq = {"op": "nestedchildren", "p": p, "q": {"op": "and", "kids": [p, sub], "b4": 4}}
    if rng.random() < 0.3:
        other = bt()
        op = rng.choice(["and", "or", "andnot"])
        aq = {"op": "andnot", "a": aq, "b": other} if op == "andnot" else \
            {"op": op, "kids": [aq, other] if rng.random() < 0.5 else [other, aq], "b4": 4}
    return aq


def rand_span_query(rng, depth, f=None, nletters=2, maxlen=2):
    """A random span query tree over one field (inputs only)."""
    f = f or rng.choice(TEXT_FIELDS)
    term = lambda: {"op": "term", "f": f, "t": rand_term(rng, nletters, maxlen), "b4": 4}
    if depth <= 0:
        return term()
    sub = lambda: rand_span_query(rng, depth - 1, f, nletters, maxlen) if rng.random() < 0.5 else term()
    op = rng.choice(["spanor", "spanfirst", "spannear", "spannear", "spannear2", "spannot", "spancontains", "spanbefore",
                     "spancond", "or", "sequence"])
    if op == "sequence":
        return {"op": "sequence", "kids": [term() for _ in range(rng.randrange(1, 5))], "slop": rng.choice([1, 1, 2, 3]),
                "ordered": rng.random() < 0.6}
    if op == "or":
        return {"op": "or", "kids": [term() for _ in range(rng.randrange(2, 4))], "b4": 4}
    if op == "spanor":
        return {"op": "spanor", "kids": [sub() for _ in range(rng.randrange(1, 4))]}
    if op == "spanfirst":
        return {"op": "spanfirst", "q": sub(), "limit": rng.choice([0, 0, 1, 2, 3])}
    if op == "spannear":
        return {"op": "spannear", "a": sub(), "b": sub(), "slop": rng.choice([1, 1, 2, 3]), "ordered": rng.random() < 0.6,
                "mindist": rng.choice([1, 1, 1, 0, 2])}
    if op == "spannear2":
        return {"op": "spannear2", "kids": [sub() for _ in range(rng.randrange(2, 4))], "slop": rng.choice([1, 1, 2, 3]),
                "ordered": rng.random() < 0.6, "mindist": rng.choice([1, 1, 1, 0, 2])}
    return {"op": op, "a": sub(), "b": sub()}


# ---------------------------------------------------------------------------
# random abstract documents / queries (inputs only - no semantics)
# ---------------------------------------------------------------------------

def rand_term(rng, nletters=2, maxlen=2):
    return [rng.randrange(1, nletters + 1) for _ in range(rng.randrange(1, maxlen + 1))]


def rand_doc(rng, nletters=2, maxlen=2, maxtoks=5, gaps=True, boosts=False):
    d = {"t": {}, "n": {}, "b4": 4}
    for f in TEXT_FIELDS:
        if rng.random() < 0.8:
            toks = []
            for _ in range(rng.randrange(0, maxtoks + 1)):
                if gaps and rng.random() < 0.12:
                    toks.append([0])
                else:
                    toks.append(rand_term(rng, nletters, maxlen))
            d["t"][f] = toks
    if rng.random() < 0.7:
        d["n"]["num"] = [rng.randrange(-3, 8)]
    if boosts and rng.random() < 0.3:
        d["b4"] = rng.choice([2, 8])
    return d


def rand_plan(rng, keys, max_segments=4, deletions=True):
    """Commit/merge/delete history over the given keys."""
    keys = list(keys)
    rng.shuffle(keys)
    nseg = rng.randrange(1, max_segments + 1)
    cuts = sorted(rng.sample(range(1, len(keys)), min(nseg - 1, max(0, len(keys) - 1)))) if len(keys) > 1 else []
    parts = [keys[i:j] for i, j in zip([0] + cuts, cuts + [len(keys)])]
    plan = []
    live = []
    for i, part in enumerate(parts):
        mode = rng.random()
        opts = {"merge": False}
        if mode < 0.15:
            opts = {"merge": True}
        elif mode < 0.25:
            opts = {"optimize": True}
        plan.append(("commit", part, opts))
        live += part
        if deletions and live and rng.random() < 0.5:
            dels = rng.sample(live, rng.randrange(1, min(3, len(live)) + 1))
            plan.append(("delete", dels))
            live = [k for k in live if k not in dels]
    return plan


LEAF_OPS = ["term", "term", "term", "every", "null", "prefix", "wildcard", "fuzzy", "termrange", "numrange", "phrase",
            "regex"]


def rand_query(rng, depth, nletters=2, maxlen=2, scored_only=False, boosts=True, ops=None):
    b4 = rng.choice([4, 4, 4, 2, 8, 16, 4, 4, 4, 2, 8, 16, 0]) if boosts else 4      # (0: a clause that must not count)
    f = rng.choice(TEXT_FIELDS)
    if depth <= 0 or rng.random() < 0.25:
        # (scored_only: the leaves whose score the documentation fixes - multi-term leaves score their boost)
        choices = ["term", "term", "term", "every", "null", "term", "prefix", "wildcard", "termrange", "numrange", "regex"] \
            if scored_only else LEAF_OPS
        if ops:
            choices = [c for c in choices if c in ops] or ["term"]
        op = rng.choice(choices)
        if op == "term":
            return {"op": "term", "f": f, "t": rand_term(rng, nletters, maxlen), "b4": b4}
        if op == "every":
            return {"op": "every", "f": rng.choice(["", "", f, "num"]), "b4": b4}
        if op == "null":
            return {"op": "null"}
        if op == "prefix":
            return {"op": "prefix", "f": f, "t": rand_term(rng, nletters, 1), "b4": b4}
        if op == "regex":
            # letters (or any character) with the quantifiers ?, *, +, {m,n} in both spellings
            atoms = []
            for _ in range(rng.randrange(1, 4)):
                lo, hi = rng.choice([(1, 1), (1, 1), (0, 1), (0, -1), (1, -1), (0, 2), (1, 2), (2, 2), (0, 0)])
                atoms.append([rng.choice([0, 1, 2, 1, 2]), lo, hi, rng.random() < 0.5])
            return {"op": "regex", "f": f, "atoms": atoms, "b4": b4}
        if op == "wildcard":
            pat = [rng.choice([1, 2, -1, -2, 1, 2, -1, -2, -3]) for _ in range(rng.randrange(1, 4))]   # -3: [ab]
            return {"op": "wildcard", "f": f, "t": pat, "b4": b4}
        if op == "fuzzy":
            return {"op": "fuzzy", "f": f, "t": rand_term(rng, nletters, maxlen + 1), "maxdist": rng.choice([1, 1, 2]),
                    "prefix": rng.choice([0, 0, 1]), "b4": b4}
        if op == "termrange":
            lo, hi = rand_term(rng, nletters, maxlen), rand_term(rng, nletters, maxlen)
            return {"op": "termrange", "f": f, "lo": lo, "hi": hi, "haslo": rng.random() < 0.8,
                    "hashi": rng.random() < 0.8, "loexcl": rng.random() < 0.4, "hiexcl": rng.random() < 0.4,
                    "b4": b4}
        if op == "numrange":
            lo, hi = sorted([rng.randrange(-4, 9), rng.randrange(-4, 9)])
            return {"op": "numrange", "f": "num", "lo": lo, "hi": hi, "haslo": rng.random() < 0.8,
                    "hashi": rng.random() < 0.8, "loexcl": rng.random() < 0.4, "hiexcl": rng.random() < 0.4,
                    "b4": b4}
        if op == "phrase":
            return {"op": "phrase", "f": f, "words": [rand_term(rng, nletters, maxlen) for _ in range(rng.randrange(2, 4))],
                    "slop": rng.choice([1, 1, 2, 3]), "b4": b4}
    comp = ["and", "or", "or", "dismax", "andnot", "andmaybe", "require", "not", "const"]
    if scored_only:
        comp = ["and", "or", "or", "dismax", "andnot", "andmaybe", "require", "const"]
    if ops:
        comp = [c for c in comp if c in ops] or ["or"]
    op = rng.choice(comp)
    sub = lambda so=scored_only: rand_query(rng, depth - 1, nletters, maxlen, so, boosts, ops)
    if op in ("and", "or", "dismax"):
        n = rng.choice([0, 1, 2, 2, 2, 3, 3, 4]) if not scored_only else rng.choice([1, 2, 2, 3, 4])
        q = {"op": op, "kids": [sub() for _ in range(n)], "b4": b4}
        if op == "or" and rng.random() < 0.3:
            q["mtype"] = rng.choice([1, 3])
        if op == "dismax" and rng.random() < 0.4:
            q["tb"] = rng.choice([0.25, 0.5])
        return q
    if op == "not":
        return {"op": "not", "q": sub()}
    if op in ("andnot", "require"):
        return {"op": op, "a": sub(), "b": sub(False)}
    if op == "andmaybe":
        return {"op": op, "a": sub(), "b": sub()}
    if op == "const":
        return {"op": "const", "q": sub(False), "score": rng.choice([UNIT // 2, UNIT, UNIT * 3])}
    raise AssertionError(op)
