"""Corrected variants of single Whoosh methods, used ONLY to classify a violation as an
instance of a recorded (test-pinned) finding: the same observation is taken again with the
one method corrected; if it then agrees with the specification the violation is that finding."""
import contextlib


@contextlib.contextmanager
def and_keeps_clauses_next_to_fielded_every():
    """CompoundQuery.normalize() drops every clause whose field equals the field of an
    Every(field) clause.  Right for Or, wrong for And (And([Every(f), Term(f, x)]) must
    stay Term(f, x)); tests/test_queries.py::test_merge_ranges pins the And behaviour."""
    from whoosh.query import compound, qcore
    from whoosh.query import Every
    orig = compound.And.normalize

    def normalize(self):
        marker = []
        subs = []
        for s in self.subqueries:
            subs.append(s)
        # protect fielded Every clauses (and clauses that normalise to one) from absorbing
        # their neighbours: normalise the neighbours separately, drop the redundant Every
        nsubs = [s.normalize() for s in subs]
        fielded = [q for q in nsubs if isinstance(q, Every) and q.fieldname is not None]
        if not fielded:
            return orig(self)
        rest = [q for q in nsubs if not (isinstance(q, Every) and q.fieldname is not None)]
        keep = []
        for ev in fielded:
            # Every(f) is implied by any other positive clause on f; otherwise it stays as a
            # filter (wrapped so that the original rule does not see it as Every)
            if not any(getattr(q, "field", lambda: None)() == ev.fieldname for q in rest):
                keep.append(ev)
        inner = compound.And(rest, boost=self.boost)
        n = orig(inner) if rest else qcore.NullQuery
        if not rest:
            return orig(compound.And(keep, boost=self.boost)) if keep else qcore.NullQuery
        if not keep:
            return n
        if n is qcore.NullQuery:
            return n
        return compound.Require(n, orig(compound.And(keep))) if len(keep) > 1 else compound.Require(n, keep[0])
    compound.And.normalize = normalize
    try:
        yield
    finally:
        compound.And.normalize = orig


@contextlib.contextmanager
def nested_ranges_intersect_to_inner():
    """RangeMixin.merge(intersect=True) returns the OUTER range when one range contains the
    other (the containment shortcut ignores `intersect`); tests/test_queries.py::
    test_merge_ranges pins And([TermRange(a,z), TermRange(b,x)]).normalize() == TermRange(a,z)."""
    from whoosh.query import ranges
    orig = ranges.RangeMixin.merge

    def merge(self, other, intersect=True):
        # (the recorded finding is about TermRange, which is all that test pins: anything else that reaches this
        # method is left as the code has it, so that it is judged, not excused)
        if not intersect or type(self) is not ranges.TermRange or type(other) is not ranges.TermRange:
            return orig(self, other, intersect=intersect)
        s1, s2 = self._comparable_start(), other._comparable_start()
        e1, e2 = self._comparable_end(), other._comparable_end()
        if s1 >= s2 and e1 <= e2:
            inner, outer = self, other
        elif s2 >= s1 and e2 <= e1:
            inner, outer = other, self
        else:
            return orig(self, other, intersect=True)
        return inner.__class__(inner.fieldname, inner.start, inner.end, inner.startexcl, inner.endexcl,
                               boost=max(self.boost, other.boost),
                               constantscore=self.constantscore or other.constantscore)
    ranges.RangeMixin.merge = merge
    try:
        yield
    finally:
        ranges.RangeMixin.merge = orig


@contextlib.contextmanager
def both_and_normalize_findings():
    with and_keeps_clauses_next_to_fielded_every():
        with nested_ranges_intersect_to_inner():
            yield


@contextlib.contextmanager
def and_does_not_merge_ranges():
    """And.normalize() replaces two overlapping ranges on one field by their intersection.
    That is only equivalent for single-valued fields: a document with the tokens 'b' and
    'aa' matches And([TermRange(f,'ab',None), TermRange(f,'a','b')]) through two different
    terms, but not the merged TermRange(f,'ab','b').  tests/test_queries.py::
    test_merge_ranges pins And([TermRange(f,'a',None), TermRange(f,None,'z')]).normalize()
    == TermRange(f,'a','z')."""
    from whoosh.query import compound, ranges
    orig_norm = compound.And.normalize
    orig_over = ranges.RangeMixin.overlaps
    depth = [0]

    def normalize(self):
        depth[0] += 1
        try:
            return orig_norm(self)
        finally:
            depth[0] -= 1

    def overlaps(self, other):
        if depth[0] > 0 and type(self) is ranges.TermRange and type(other) is ranges.TermRange:
            return False
        return orig_over(self, other)
    compound.And.normalize = normalize
    ranges.RangeMixin.overlaps = overlaps
    try:
        yield
    finally:
        compound.And.normalize = orig_norm
        ranges.RangeMixin.overlaps = orig_over


@contextlib.contextmanager
def and_normalize_every_and_ranges():
    with and_does_not_merge_ranges():
        with and_keeps_clauses_next_to_fielded_every():
            yield
