"""Thin driver around TLC: run a module+config, collect statistics, coverage,
tagged PrintT lines, and the verdict.

Conventions used by every spec in /verif/spec:

* a spec reports data to the harness with ``PrintT(<<"TAG", ToJson(value)>>)``
  which TLC prints on one line as ``<<"TAG", "...json...">>``;
* inputs recorded from the implementation are handed to TLC as a JSON file whose
  path is in the environment variable TRACE_FILE (``IOEnv.TRACE_FILE``).
"""
import json
import os
import re
import shutil
import subprocess
import tempfile
import time

SPEC_DIR = os.path.join(os.path.dirname(os.path.dirname(os.path.abspath(__file__))), "spec")
JAR = "/opt/veriftools/tla/tla2tools.jar"
DEPS = "/opt/veriftools/tla/CommunityModules-deps.jar"

_TAG_RE = re.compile(r'^<<"([A-Za-z0-9_]+)", "(.*)">>$')
_TAGN_RE = re.compile(r'^<<"([A-Za-z0-9_]+)", (-?\d+(?:, -?\d+)*)>>$')


class TLCError(Exception):
    """Machinery failure (parse error, crash, timeout of TLC itself)."""


class TLCResult(object):
    def __init__(self):
        self.returncode = None
        self.stdout = ""
        self.tagged = {}          # tag -> [json values]
        self.numbers = {}         # tag -> [tuple of ints]
        self.generated = 0
        self.distinct = 0
        self.diameter = 0
        self.violation = None     # None | "invariant X" | "deadlock" | "property" ...
        self.error_text = ""
        self.coverage = {}        # action name -> (distinct, total)
        self.wall_s = 0.0
        self.timed_out = False
        self.cmd = ""

    @property
    def ok(self):
        return self.violation is None and self.returncode == 0


def _unescape(s):
    # TLC prints strings with \" and \\ escapes
    out = []
    i = 0
    n = len(s)
    while i < n:
        c = s[i]
        if c == "\\" and i + 1 < n:
            nx = s[i + 1]
            if nx == '"':
                out.append('"')
            elif nx == "\\":
                out.append("\\")
            elif nx == "n":
                out.append("\n")
            elif nx == "t":
                out.append("\t")
            else:
                out.append("\\" + nx)
            i += 2
        else:
            out.append(c)
            i += 1
    return "".join(out)


def parse_output(res, text):
    res.stdout = text
    for line in text.splitlines():
        line = line.rstrip()
        m = _TAG_RE.match(line)
        if m:
            try:
                val = json.loads(_unescape(m.group(2)))
            except ValueError:
                val = {"_raw": m.group(2)}
            res.tagged.setdefault(m.group(1), []).append(val)
            continue
        m = _TAGN_RE.match(line)
        if m:
            res.numbers.setdefault(m.group(1), []).append(
                tuple(int(x) for x in m.group(2).split(", ")))
            continue
        m = re.match(r"^(\d+) states generated, (\d+) distinct states found", line)
        if m:
            res.generated = int(m.group(1))
            res.distinct = int(m.group(2))
            continue
        m = re.match(r"^The depth of the complete state graph search is (\d+)", line)
        if m:
            res.diameter = int(m.group(1))
            continue
        m = re.match(r"^Progress\(\d+\).*: (\d+) states generated.*?(\d+) distinct states found", line)
        if m and not res.generated:
            pass
        m = re.match(r"^Error: Invariant (\S+) is violated", line)
        if m:
            res.violation = "invariant " + m.group(1)
            continue
        if line.startswith("Error: Deadlock reached"):
            res.violation = "deadlock"
            continue
        m = re.match(r"^Error: Action property (\S+) is violated", line)
        if m:
            res.violation = "action-property " + m.group(1)
            continue
        if line.startswith("Error: Temporal properties were violated"):
            res.violation = "temporal"
            continue
        m = re.match(r"^Error: The postcondition (\S+)? ?.*(violated|false)", line)
        if m or "postcondition" in line.lower() and "Error" in line:
            res.violation = "postcondition"
            continue
        m = re.match(r"^<(\w+) line \d+, col \d+ to line \d+, col \d+ of module (\w+)>: (\d+):(\d+)", line)
        if m:
            res.coverage[m.group(1)] = (int(m.group(3)), int(m.group(4)))
            continue
        if line.startswith("Error:") and res.violation is None:
            res.error_text += line + "\n"
    # simulation mode statistics
    if not res.generated:
        m = re.search(r"The number of states generated: (\d+)", text)
        if m:
            res.generated = int(m.group(1))
            res.distinct = res.distinct or res.generated
    return res


def run_tlc(module, cfg, workers=16, env=None, timeout=900, simulate=None,
            depth=None, seed=None, coverage=False, deque=False, extra=(),
            spec_dir=None, heap="4g", check=True):
    """Run TLC on spec/<module>.tla with spec/<cfg>.

    simulate: None for exhaustive BFS, or an int N => ``-simulate num=N``.
    Returns a TLCResult. Raises TLCError for machinery failures when ``check``.
    """
    spec_dir = spec_dir or SPEC_DIR
    meta = tempfile.mkdtemp(prefix="verif-tlc-")
    jopts = ["-XX:+UseParallelGC", "-Xmx" + heap]
    if deque:
        jopts.append("-Dtlc2.tool.queue.IStateQueue=StateDeque")
    cmd = ["java"] + jopts + ["-cp", JAR + ":" + DEPS, "tlc2.TLC",
                              "-workers", str(workers), "-metadir", meta,
                              "-noGenerateSpecTE", "-config", cfg]
    if simulate is not None:
        s = "num=%d" % simulate
        cmd += ["-simulate", s]
    if depth is not None:
        cmd += ["-depth", str(depth)]
    if seed is not None:
        cmd += ["-seed", str(seed)]
    if coverage:
        cmd += ["-coverage", "1"]
    cmd += list(extra)
    cmd.append(module if module.endswith(".tla") else module + ".tla")
    e = dict(os.environ)
    e.pop("JAVA_TOOL_OPTIONS", None)
    if env:
        e.update({k: str(v) for k, v in env.items()})
    res = TLCResult()
    res.cmd = " ".join(cmd)
    t0 = time.time()
    try:
        p = subprocess.run(cmd, cwd=spec_dir, env=e, stdout=subprocess.PIPE,
                           stderr=subprocess.STDOUT, timeout=timeout)
        res.returncode = p.returncode
        text = p.stdout.decode("utf-8", "replace")
    except subprocess.TimeoutExpired as ex:
        res.timed_out = True
        res.returncode = -9
        text = (ex.stdout or b"").decode("utf-8", "replace")
        subprocess.call(["pkill", "-f", meta])
    finally:
        shutil.rmtree(meta, ignore_errors=True)
    res.wall_s = time.time() - t0
    parse_output(res, text)
    if check:
        if res.timed_out:
            raise TLCError("TLC timed out after %ss: %s" % (timeout, res.cmd))
        if res.violation is None and res.returncode != 0:
            raise TLCError("TLC failed (rc=%s): %s\n%s" % (
                res.returncode, res.cmd, tail(text)))
        if res.violation is None and "Error:" in text and res.error_text:
            raise TLCError("TLC reported an error: %s\n%s" % (res.cmd, tail(text)))
    return res


def tail(text, n=40):
    lines = [l for l in text.splitlines()
             if not l.startswith(("Parsing file", "Semantic processing", "Linting of"))]
    return "\n".join(lines[-n:])


def sany(module, spec_dir=None):
    spec_dir = spec_dir or SPEC_DIR
    p = subprocess.run(["java", "-cp", JAR + ":" + DEPS, "tla2sany.SANY", module + ".tla"],
                       cwd=spec_dir, stdout=subprocess.PIPE, stderr=subprocess.STDOUT)
    out = p.stdout.decode("utf-8", "replace")
    okay = p.returncode == 0 and "Semantic errors" not in out and "Fatal errors" not in out \
        and "*** Errors" not in out and "Parse Error" not in out
    return okay, out


def write_json(path, obj):
    with open(path, "w") as f:
        json.dump(obj, f, separators=(",", ":"))
