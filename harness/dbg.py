"""Debug helper: summarise replays/*.json (python -m harness.dbg PID [shape-substring])"""
import glob, json, sys, os
def qstr(q):
    op=q["op"]
    if op in("and","or","dismax"): return "%s%s[%s]"%(op, "" if q.get("b4",4)==4 else "^%g"%(q["b4"]/4), ", ".join(qstr(k) for k in q["kids"])) + ("{mt%d}"%q["mtype"] if q.get("mtype") else "")
    if op in("andnot","andmaybe","require"): return "%s(%s, %s)"%(op,qstr(q["a"]),qstr(q["b"]))
    if op=="not": return "not(%s)"%qstr(q["q"])
    if op=="const": return "const%g(%s)"%(q["score"]/65536,qstr(q["q"]))
    r=op+":"+q.get("f","")
    for k in("t","words","lo","hi","slop","maxdist","prefix","haslo","hashi","loexcl","hiexcl"):
        if k in q: r+=" %s=%s"%(k,json.dumps(q[k]).replace(" ",""))
    if q.get("b4",4)!=4: r+="^%g"%(q["b4"]/4)
    return r
def main():
    pid=sys.argv[1]; sub=sys.argv[2] if len(sys.argv)>2 else ""
    n=0
    for f in sorted(glob.glob("/verif/replays/%s-*.json"%pid), key=os.path.getmtime):
        d=json.load(open(f)); p=d["payload"]; s=d["sig"]
        if sub and sub not in json.dumps(s): continue
        n+=1
        if n>int(os.environ.get("N","6")): break
        print("==",os.path.basename(f), s.get("path"), s.get("err"))
        if "q" in p: print("  q:", qstr(p["q"]))
        if "idx" in p:
            for i,doc in enumerate(p["idx"]["docs"]):
                print("   d%d %s %s body=%s title=%s num=%s b4=%s"%(i,doc.get("key"),"L" if doc["live"] else "X",json.dumps(doc["t"].get("body")).replace(" ",""),json.dumps(doc["t"].get("title")).replace(" ",""),doc["n"].get("num"),doc["b4"]))
        if "plan" in p: print("  plan:",p["plan"])
        if "obs" in p: print("  obs:", json.dumps(p["obs"])[:400])
        print("  exp:", json.dumps(p.get("expected"))[:400])
main()
