"""C20 (tables, encodings, external sort, compound files): observations of the real
implementations for TablesCheck.tla.  Inputs are random; what they must come back as is
decided by the specification."""
import binascii
import os
import random
import tempfile

from harness import tlc


def hx(b):
    return binascii.hexlify(bytes(b)).decode("ascii")


def rand_key(rng, maxlen=6, alphabet=(0, 1, 2, 97, 98, 255)):
    return bytes(bytearray(rng.choice(alphabet) for _ in range(rng.randrange(0, maxlen + 1))))


def guard(fn, what):
    try:
        return fn()
    except Exception as ex:
        return {"kind": "error", "what": what, "err": type(ex).__name__, "msg": str(ex)[:200]}


class OffsetFile(object):
    """An in-memory file whose first byte lives at position `base`: tables can be placed beyond 2^16, 2^31 and
    2^32 (where the width and the signedness of stored positions matter) without writing gigabytes."""

    def __init__(self, base, buf=None):
        self.base = base
        self.buf = bytearray() if buf is None else buf
        self.pos = base

    def tell(self):
        return self.pos

    def seek(self, pos, whence=0):
        if whence == 0:
            self.pos = pos
        elif whence == 1:
            self.pos += pos
        else:
            self.pos = self.base + len(self.buf) + pos

    def _index(self):
        i = self.pos - self.base
        if i < 0:
            raise ValueError("access at position %d, before the start of the data (%d)" % (self.pos, self.base))
        return i

    def write(self, data):
        i = self._index()
        if i > len(self.buf):
            self.buf.extend(b"\x00" * (i - len(self.buf)))
        self.buf[i:i + len(data)] = data
        self.pos += len(data)
        return len(data)

    def read(self, n=-1):
        i = self._index()
        if n is None or n < 0:
            n = len(self.buf) - i
        data = bytes(self.buf[i:i + n])
        self.pos += len(data)
        return data

    def readline(self):
        i = self._index()
        j = self.buf.find(b"\n", i)
        j = len(self.buf) if j < 0 else j + 1
        data = bytes(self.buf[i:j])
        self.pos += len(data)
        return data

    def flush(self):
        pass

    def close(self):
        pass


BASES = [70000, 2 ** 31 - 150, 2 ** 31 + 5, 2 ** 32 - 150, 2 ** 32 + 11]


def obs_map(rng, big=False, base=None):
    from whoosh.filedb.filestore import RamStorage
    from whoosh.filedb.filetables import HashWriter, HashReader
    hashtype = rng.choice([0, 1, 2])
    n = rng.randrange(0, 40)
    keys = [rand_key(rng) for _ in range(max(1, n // 2))]
    writes = []
    for _ in range(n):
        k = rng.choice(keys) if rng.random() < 0.7 else rand_key(rng, 12)
        vlen = rng.choice([0, 1, 3, 20]) if not big else rng.choice([0, 1, 5000, 9000])
        v = bytes(bytearray(rng.randrange(256) for _ in range(min(vlen, 64)))) * (1 if vlen <= 64 else vlen // 64)
        writes.append((k, v))
    st = RamStorage()
    if base is None:
        f = st.create_file("h")
        pad = rng.choice([0, 0, 7])
        f.write(b"x" * pad)
    else:
        from whoosh.filedb.structfile import StructFile
        of = OffsetFile(base)
        f = StructFile(of)
        pad = base
    hw = HashWriter(f, hashtype=hashtype)
    for k, v in writes:
        hw.add(k, v)
    hw.close()
    if base is None:
        hr = HashReader(st.open_file("h"), startoffset=pad)
    else:
        hr = HashReader(StructFile(OffsetFile(base, of.buf)), length=len(of.buf), startoffset=base)
    probes = sorted(set(keys + [rand_key(rng) for _ in range(6)] + [b"", b"\x00"]))
    o = {"kind": "map", "what": "HashWriter/HashReader hashtype=%d offset=%d big=%s" % (hashtype, pad, big),
         "writes": [[hx(k), hx(v)] for k, v in writes],
         "gets": [[hx(k), (lambda v: "<absent>" if v is None else hx(v))(hr.get(k))] for k in probes],
         "alls": [[hx(k), [hx(v) for v in hr.all(k)]] for k in probes],
         "has": [[hx(k), k in hr] for k in probes],
         "items": [[hx(k), hx(v)] for k, v in hr.items()]}
    hr.close()
    return o


def obs_ordered(rng, fielded=False, base=None):
    from whoosh.filedb.filestore import RamStorage
    from whoosh.filedb.filetables import OrderedHashWriter, OrderedHashReader
    keys = sorted(set(rand_key(rng, 5) for _ in range(rng.randrange(0, 30))))
    writes = [(k, bytes(bytearray(rng.randrange(256) for _ in range(rng.choice([0, 2, 9]))))) for k in keys]
    st = RamStorage()
    if base is None:
        f = st.create_file("h")
    else:
        from whoosh.filedb.structfile import StructFile
        of = OffsetFile(base)
        f = StructFile(of)
    hw = OrderedHashWriter(f)
    for k, v in writes:
        hw.add(k, v)
    hw.close()
    if base is None:
        hr = OrderedHashReader(st.open_file("h"))
    else:
        hr = OrderedHashReader(StructFile(OffsetFile(base, of.buf)), length=len(of.buf), startoffset=base)
    probes = sorted(set(keys[:8] + [rand_key(rng, 5) for _ in range(8)] + [b"", b"\xff\xff\xff\xff\xff\xff\xff"]))

    def bl(b):
        return [int(x) for x in bytearray(b)]
    o = {"kind": "ordered", "what": "OrderedHashWriter/Reader n=%d base=%s" % (len(keys), base),
         "writes": [[bl(k), hx(v)] for k, v in writes],
         "keys": [bl(k) for k in hr.keys()],
         "closest": [[bl(p), (lambda k: [] if k is None else [bl(k)])(hr.closest_key(p))] for p in probes],
         "from": [[bl(p), [bl(k) for k in hr.keys_from(p)]] for p in probes]}
    hr.close()
    return o


def obs_roundtrips(rng):
    """Number encodings: every decode must give back exactly what was encoded."""
    from whoosh.filedb.filestore import RamStorage
    from whoosh.util import numlists, varints
    from whoosh.util.numlists import GrowableArray
    out = []

    def nums(limit, n=None):
        n = rng.randrange(0, 40) if n is None else n
        pools = [1, 2, 255, 256, 65535, 65536, 2 ** 28 - 1, 2 ** 28, 2 ** 31 - 1, 2 ** 31, 2 ** 32 - 1, 2 ** 32, 2 ** 40, 2 ** 63 - 1]
        return [min(limit, rng.choice([rng.randrange(0, 4), rng.randrange(0, 300), rng.choice(pools)]))
                for _ in range(n)]

    def via_file(name, enc, xs, delta=False):
        st = RamStorage()
        f = st.create_file("n")
        (enc.write_deltas if delta else enc.write_nums)(f, xs)
        f.close()
        f = st.open_file("n")
        ys = list((enc.read_deltas if delta else enc.read_nums)(f, len(xs)))
        return {"kind": "roundtrip", "what": name, "input": [str(x) for x in xs], "output": [str(int(y)) for y in ys]}
    for name, enc, limit in (("ByteEncoding", numlists.ByteEncoding(), 255),
                             ("UShortEncoding", numlists.UShortEncoding(), 65535),
                             ("UIntEncoding", numlists.UIntEncoding(), 2 ** 32 - 1),
                             ("Varints", numlists.Varints(), 2 ** 63 - 1),
                             ("Simple16", numlists.Simple16(), 2 ** 28 - 1),
                             ("GInts", numlists.GInts(), 2 ** 32 - 1)):
        xs = nums(limit)
        out.append(guard(lambda: via_file(name + ".write_nums/read_nums", enc, xs), name))
        ys = sorted(nums(limit))
        out.append(guard(lambda: via_file(name + ".write_deltas/read_deltas", enc, ys, delta=True), name + " deltas"))
    xs = nums(2 ** 63 - 1)
    out.append(guard(lambda: {"kind": "roundtrip", "what": "delta_encode/delta_decode", "input": [str(x) for x in sorted(xs)],
                              "output": [str(y) for y in numlists.delta_decode(numlists.delta_encode(sorted(xs)))]},
                     "delta"))
    out.append(guard(lambda: {"kind": "roundtrip", "what": "varint/varint_to_int", "input": [str(x) for x in xs],
                              "output": [str(varints.varint_to_int(varints.varint(x))) for x in xs]}, "varint"))
    sx = [x - 2 ** 30 for x in nums(2 ** 31 - 1)]
    out.append(guard(lambda: {"kind": "roundtrip", "what": "signed_varint/decode_signed_varint",
                              "input": [str(x) for x in sx],
                              "output": [str(varints.decode_signed_varint(varints.varint_to_int(varints.signed_varint(x))))
                                         for x in sx]}, "signed varint"))

    def read_varint_stream():
        st = RamStorage()
        f = st.create_file("v")
        for x in xs:
            f.write_varint(x)
        f.close()
        f = st.open_file("v")
        return {"kind": "roundtrip", "what": "StructFile.write_varint/read_varint", "input": [str(x) for x in xs],
                "output": [str(f.read_varint()) for _ in xs]}
    out.append(guard(read_varint_stream, "structfile varint"))

    def growable():
        ga = GrowableArray(inittype=rng.choice(["B", "H", "i"]))
        vals = nums(2 ** 63 - 1) if rng.random() < 0.5 else sorted(nums(2 ** 40))
        i = 0
        while i < len(vals):
            c = rng.random()
            if c < 0.6:
                ga.append(vals[i])
                i += 1
            else:
                # several numbers in one call (a list, or an iterator that can be consumed only once), which may
                # cross the range of the current array type part way through
                chunk = vals[i:i + rng.randrange(1, 5)]
                ga.extend(chunk if c < 0.8 else iter(chunk))
                i += len(chunk)
        st = RamStorage()
        f = st.create_file("g")
        ga.to_file(f)
        f.close()
        f = st.open_file("g")
        code = ga.typecode
        back = list(f.read_array(code, len(vals))) if code in "BHiIq" else list(ga)
        return [{"kind": "roundtrip", "what": "GrowableArray append/iterate", "input": [str(v) for v in vals],
                 "output": [str(int(x)) for x in ga]},
                {"kind": "roundtrip", "what": "GrowableArray.to_file/read_array(%s)" % code,
                 "input": [str(v) for v in vals], "output": [str(int(x)) for x in back]}]
    g = guard(growable, "growable")
    out += g if isinstance(g, list) else [g]

    def growable_edges():
        # the first number that does not fit the current array type is exactly a power of two (or one less)
        res = []
        for init in ("B", "H", "i"):
            for b in (2 ** 8 - 1, 2 ** 8, 2 ** 16 - 1, 2 ** 16, 2 ** 31 - 1, 2 ** 31, 2 ** 32 - 1, 2 ** 32):
                for how in ("append", "extend"):
                    ga = GrowableArray(inittype=init)
                    vals = [3, 1, b, 2]
                    if how == "append":
                        for v in vals:
                            ga.append(v)
                    else:
                        ga.extend(vals)
                    res.append({"kind": "roundtrip", "what": "GrowableArray(%s) %s up to %d" % (init, how, b),
                                "input": [str(v) for v in vals], "output": [str(int(x)) for x in ga]})
        return res
    if rng.random() < 0.34:
        g = guard(growable_edges, "growable edges")
        out += g if isinstance(g, list) else [g]

    def base85():
        from whoosh.support import base85 as b85
        vals = nums(2 ** 63 - 1)
        return {"kind": "roundtrip", "what": "base85 to_base85/from_base85", "input": [str(v) for v in vals],
                "output": [str(b85.from_base85(b85.to_base85(v, islong=v >= 2 ** 32))) for v in vals]}
    out.append(guard(base85, "base85"))

    def structfile():
        st = RamStorage()
        f = st.create_file("s")
        ints = [x - 2 ** 30 for x in nums(2 ** 31 - 1, 6)]
        longs = [x for x in nums(2 ** 62, 6)]
        for i in ints:
            f.write_int(i)
        for l in longs:
            f.write_long(l)
        f.write_string(b"abc\x00\xff")
        f.write_pickle({"a": [1, 2, (3, u"é")]})
        f.close()
        f = st.open_file("s")
        back = [str(f.read_int()) for _ in ints] + [str(f.read_long()) for _ in longs]
        back.append(hx(f.read_string()))
        back.append(repr(f.read_pickle()))
        return {"kind": "roundtrip", "what": "StructFile int/long/string/pickle",
                "input": [str(i) for i in ints] + [str(l) for l in longs] + [hx(b"abc\x00\xff"),
                                                                           repr({"a": [1, 2, (3, u"é")]})],
                "output": back}
    out.append(guard(structfile, "structfile"))
    return out


def obs_sort(rng):
    from whoosh import externalsort
    n = rng.randrange(0, 120)
    items = [tuple(rng.randrange(0, 4) for _ in range(rng.randrange(0, 4))) for _ in range(n)]
    maxsize = rng.choice([1, 2, 3, 7, 50, 1000])
    maxfiles = rng.choice([2, 3, 128])

    def go():
        pool = externalsort.SortingPool(maxsize=maxsize, tempdir=tempfile.gettempdir(), prefix="verif-sort")
        for it in items:
            pool.add(it)
        out = list(pool.items(maxfiles=maxfiles))
        return {"kind": "sorted", "what": "SortingPool maxsize=%d maxfiles=%d n=%d" % (maxsize, maxfiles, n),
                "input": [list(x) for x in items], "output": [list(x) for x in out]}
    return guard(go, "externalsort")


def obs_compound(rng, big=False):
    from whoosh.filedb.filestore import RamStorage
    from whoosh.filedb.compound import CompoundWriter, CompoundStorage
    buf = rng.choice([4, 10, 64, 1024]) if not big else rng.choice([1024, 32 * 1024])
    nfiles = rng.randrange(0, 5)
    names = ["f%d.x" % i for i in range(nfiles)]
    content = dict((n, bytearray()) for n in names)

    def go():
        temp = RamStorage()
        cw = CompoundWriter(temp, buffersize=buf)
        streams = dict((n, cw.create_file(n)) for n in names)
        for _ in range(rng.randrange(0, 40)):
            if not names:
                break
            n = rng.choice(names)
            size = rng.choice([0, 1, 3, 5, 8, 9, 13, buf - 1, buf, buf + 1, 2 * buf + 3])
            if big:
                size = rng.choice([size, 3000, 20000, 40000])
            data = bytes(bytearray(rng.randrange(256) for _ in range(min(size, 97)))) * (1 if size <= 97 else size // 97)
            streams[n].write(data)
            content[n] += data
        # (the member files are not closed by the caller: the codec hands them to save_as_* open,
        # which closes them itself)
        out = RamStorage()
        ends = []
        how = rng.choice(["compound", "files", "compound-on-disk", "compound-on-disk"])
        if how == "compound-on-disk":
            # a real file read without a memory map, all members open at once and read a piece at a time in turn
            # (every member is a window onto the one file handle they share)
            import shutil
            import tempfile
            from whoosh.filedb.filestore import FileStorage
            d = tempfile.mkdtemp(prefix="verif-c20-")
            try:
                st = FileStorage(d, supports_mmap=False)
                f = st.create_file("c")
                cw.save_as_compound(f)
                cs = CompoundStorage(st.open_file("c"), use_mmap=False)
                listed = sorted(cs.list())
                lengths = [[n, cs.file_length(n)] for n in listed]
                members = dict((n, cs.open_file(n)) for n in listed)
                got = dict((n, bytearray()) for n in listed)
                left = dict((n, cs.file_length(n)) for n in listed)
                while any(left.values()):
                    n = rng.choice([x for x in listed if left[x]])
                    for _ in range(rng.randrange(1, 4)):        # some consecutive reads of one member
                        k = min(left[n], rng.choice([1, 2, 3, 4, 7, 16, 100]))
                        if not k:
                            break
                        got[n] += members[n].read(k)
                        left[n] -= k
                read = [[n, hx(bytes(got[n]))] for n in listed]
                # positioning from the end of a member: the bytes before that position and the bytes from it on
                for n in listed:
                    ln = cs.file_length(n)
                    if ln:
                        k = rng.randrange(1, ln + 1)
                        m = members[n]
                        m.seek(-k, 2)
                        told = m.tell()
                        tail = m.read()
                        m.seek(0)
                        pre = m.read(ln - k)
                        ends.append([n, int(told), hx(pre), hx(tail)])
                cs.close()
            finally:
                shutil.rmtree(d, ignore_errors=True)
        elif how == "compound":
            f = out.create_file("c")
            cw.save_as_compound(f)
            cs = CompoundStorage(out.open_file("c"), use_mmap=False)
            read = [[n, hx(cs.open_file(n).read())] for n in sorted(cs.list())]
            listed = sorted(cs.list())
            lengths = [[n, cs.file_length(n)] for n in listed]
            cs.close()
        else:
            cw.save_as_files(out, lambda n: "m_" + n)
            listed = sorted(x[2:] for x in out.list())
            read = [[n, hx(out.open_file("m_" + n).read())] for n in listed]
            lengths = [[n, out.file_length("m_" + n)] for n in listed]
        return {"kind": "compound", "what": "CompoundWriter buffersize=%d save_as_%s" % (buf, how),
                "files": [[n, hx(content[n])] for n in sorted(names)], "read": read, "names": listed, "lengths": lengths,
                "ends": ends}
    return guard(go, "compound")


def judge(run, observations, chunk=400):
    rejects = []
    for base in range(0, len(observations), chunk):
        part = observations[base:base + chunk]
        fd, path = tempfile.mkstemp(prefix="verif-t-", suffix=".json")
        os.close(fd)
        try:
            tlc.write_json(path, part)
            res = tlc.run_tlc("TablesCheck", "TablesCheck.cfg", env={"TRACE_FILE": path}, timeout=1800)
        finally:
            os.unlink(path)
        run.add_tlc("TablesCheck[%d:%d]" % (base, base + len(part)), res)
        if res.violation:
            raise tlc.TLCError("TablesCheck: %s\n%s" % (res.violation, tlc.tail(res.stdout)))
        if res.distinct != len(part):
            raise tlc.TLCError("TablesCheck evaluated %d of %d\n%s" % (res.distinct, len(part), tlc.tail(res.stdout)))
        run.traces += len(part)
        for r in res.tagged.get("REJECT", []):
            rejects.append((base + r["tid"] - 1, r["facts"]))
    return rejects


def check_tables(run, quick):
    rng = random.Random(run.seed + 2020)
    obs = []
    n = 30 if quick else 300
    for i in range(n):
        obs.append(guard(lambda: obs_map(rng, big=(not quick and i % 10 == 0)), "map"))
        obs.append(guard(lambda: obs_ordered(rng), "ordered"))
        if i % 3 == 0:
            # the same tables far into a (virtual) file: positions beyond 2^16, around 2^31 and 2^32
            b = BASES[(i // 3) % len(BASES)]
            obs.append(guard(lambda: obs_ordered(rng, base=b), "ordered"))
            obs.append(guard(lambda: obs_map(rng, base=b), "map"))
        obs.append(obs_sort(rng))
        obs.append(obs_compound(rng, big=(i % 10 == 0)))
    for i in range(6 if quick else 60):
        obs += obs_roundtrips(rng)
    run.count(len(obs))
    rejects = judge(run, obs)
    bad = set()
    for i, facts in rejects:
        o = obs[i]
        bad.add(i)
        failing = sorted(k for k, v in facts.items() if v is False)
        small = dict((k, v) for k, v in o.items() if k not in ("writes", "files", "read", "items") or len(str(v)) < 4000)
        run.violation({"check": "tables", "kind": o["kind"], "what": o.get("what", "").split(" ")[0], "failing": failing,
                       "err": o.get("err", "")}, {"observation": small, "facts": facts})
    for i, o in enumerate(obs):
        if i not in bad and (o.get("writes") or o.get("input") or o.get("files")):
            run.nontriv(("tables", i))
    run.sample({"tables_observation": dict((k, (v if len(str(v)) < 300 else str(v)[:300])) for k, v in obs[0].items())})
